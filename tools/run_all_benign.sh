#!/bin/bash
# Runs every quick check that touches a changed package against every behaviour-preserving patch under /verif/benign.
cd "$(dirname "$(readlink -f "$0")")/.."
unset BENIGN_DIR
tools/run_benign.sh bitmapA C01,C02,C13,C19
tools/run_benign.sh bitmapB C11,C12,C14,C15,C19
tools/run_benign.sh bmtree C03,C04,C05,C10,C11,C19
tools/run_benign.sh bitstrword C08,C09,C19
tools/run_benign.sh sigbits C16,C17,C19
tools/run_benign.sh pbcmpl C06,C07,C18
tools/run_benign.sh size C20
export BENIGN_DIR=$PWD/benign/open
tools/run_benign.sh bitmapA C01,C02,C13,C19
tools/run_benign.sh bitmapB C11,C12,C14,C15,C19
tools/run_benign.sh bmtree C03,C04,C05,C10,C11,C19
tools/run_benign.sh bitstrword C08,C09,C19
tools/run_benign.sh sigbits C16,C17,C19
tools/run_benign.sh pbcmpl C06,C07,C18
tools/run_benign.sh size C20
