#!/usr/bin/env python3
"""keep_seed.py <round> <Cxx> <name> <pkg> <regex> <check> <first_try:y|n> <note> <needs>  - stores /tmp/seed<round>-<Cxx> as seeded/<name>"""
import json, subprocess, sys
rnd, pid, name, pkg, rx, check, ft, note, needs = sys.argv[1:10]
det = {'check': check, 'tier': 'quick', 'result': 'VIOLATION', 'first_try': ft == 'y', 'round': int(rnd), 'note': note,
       'run': f'selftest/run.py --patch seeded/{name}/patch.diff --props {check.split()[0]}'}
subprocess.check_call(['/verif/tools/store_seed.py', f'/tmp/seed{rnd}-{pid}', name, pid[:3], pkg, rx, json.dumps(det), needs])
