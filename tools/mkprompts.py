#!/usr/bin/env python3
"""mkprompts.py <round> [ids...] - writes /tmp/prompt<round>-<id>.txt for the seed agents of one round.
The text is tools/seed_prompt_example_round<round>.txt (round 9's if there is none) with the property block, the list of what earlier
attempts needed (seeded/*/meta.json) and the functions they edited (hunk headers of seeded/*/patch.diff)
regenerated per property. The agents get nothing else from /verif."""
import glob, json, os, re, sys, collections
ROOT = os.path.dirname(os.path.dirname(os.path.abspath(__file__)))
rnd = sys.argv[1]
ids = sys.argv[2:] or ['C%02d' % i for i in range(1, 21)]
props = {}
for l in open(os.path.join(ROOT, 'properties.jsonl')):
    d = json.loads(l)
    props[d['id']] = d
tp = os.path.join(ROOT, 'tools', f'seed_prompt_example_round{rnd}.txt')
tmpl = open(tp if os.path.exists(tp) else os.path.join(ROOT, 'tools', 'seed_prompt_example_round9.txt')).read()
a = tmpl.index('-----\n') + 6
b = tmpl.index('-----\n', a)
c = tmpl.index('IMPORTANT - be different')
d = tmpl.index('Yours must be DIFFERENT')
head, mid, tail = tmpl[:a], tmpl[b:c], tmpl[d:]
for pid in ids:
    p = props[pid]
    block = f"{pid} — {p['title']}\n\n{p['statement']}\n\nQuantified over: {p['quantifier']['text']}\n\nCode it is anchored in: {', '.join(p['anchors']['files'])}\n\n"
    needs, funcs = [], collections.Counter()
    for m in sorted(glob.glob(os.path.join(ROOT, 'seeded', pid + '-*', 'meta.json'))):
        needs.append(json.load(open(m))['needs_to_manifest'])
        fs = set()
        for l in open(os.path.join(os.path.dirname(m), 'patch.diff')):
            g = re.match(r'^@@.*@@ func (?:\([^)]*\) )?(\w+)', l) or re.match(r'^[-+ ]func (?:\([^)]*\) )?(\w+)', l)
            if g:
                fs.add(g.group(1))
        funcs.update(fs)
    imp = 'IMPORTANT - be different from earlier attempts. Other engineers already produced seeded bugs for this property that needed the following to manifest:\n'
    imp += ''.join('    - ' + n + '\n' for n in needs)
    imp += 'The functions those attempts edited (number of attempts): ' + ', '.join(f'{f} ({n})' for f, n in funcs.most_common()) + '. If the property covers a function, a clause or an input class that NONE of them touched, go there first.\n'
    out = (head + block + mid + imp + tail).replace('wt9-C15', f'wt{rnd}-{pid}').replace('seed9-C15', f'seed{rnd}-{pid}').replace('mypatch-C15', f'mypatch{rnd}-{pid}')
    out += '\n\nPractical note: keep every single message and every file you write SHORT (work in small steps with the tools; notes.md under 60 lines, the demo under 120 lines; do not paste large outputs into your replies).\n'
    open(f'/tmp/prompt{rnd}-{pid}.txt', 'w').write(out)
    print(pid, len(needs), 'earlier attempts;', len(out), 'bytes')
