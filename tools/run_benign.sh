#!/bin/bash
# run_benign.sh <group> <props comma separated> [patch numbers...]
# Runs the quick checks against each behaviour-preserving patch /verif/benign/<group>/patchN.diff (as a build overlay).
# A correct patch must leave every check silent (exit 0, no VIOLATION line).
ROOT=$(cd "$(dirname "$(readlink -f "$0")")/.." && pwd)
g=$1; props=$2; shift 2
nums=${@:-1 2 3 4 5}
for n in $nums; do
  p=${BENIGN_DIR:-$ROOT/benign}/$g/patch$n.diff
  [ -f "$p" ] || { echo "$g patch$n: missing"; continue; }
  for pr in ${props//,/ }; do
    out=$($ROOT/selftest/run.py --patch "$p" --props "$pr" --no-suite -v 2>&1)
    if echo "$out" | grep -q "check=silent"; then echo "$g patch$n $pr: silent"; else echo "$g patch$n $pr: NOT SILENT"; echo "$out" | tail -12 | cut -c1-400; fi
  done
done
