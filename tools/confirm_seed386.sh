#!/bin/bash
# confirm_seed386.sh <seed-dir> <worktree> <pkg-dir-for-demo> <go-test-run-regex>
# Like confirm_seed.sh for changes that only manifest on a 32-bit build: the demo runs with GOARCH=386
# (pristine: pass, changed: fail) and on amd64 (changed: reported, usually pass); the pinned suite runs natively.
set -u
export GOFLAGS=-mod=mod GOPROXY=off GOSUMDB=off GOTOOLCHAIN=local
S=$1; WT=$2; PKG=$3; RUN=$4
cd "$WT" || exit 2
git checkout -q -- . && git clean -qfd
git apply --check "$S/patch.diff" || { echo "patch does not apply"; exit 2; }
demo=$(ls "$S"/*_test.go | head -1)
cp "$demo" "$PKG/zz_seed_demo_test.go"
GOARCH=386 CGO_ENABLED=0 go test -vet=off -count=1 -run "$RUN" ./$PKG/ >/tmp/confirm.$$ 2>&1; rc0=$?
git apply "$S/patch.diff"
GOARCH=386 CGO_ENABLED=0 go test -vet=off -count=1 -run "$RUN" ./$PKG/ >/tmp/confirm.$$ 2>&1; rc1=$?; tail -4 /tmp/confirm.$$ | cut -c1-200
go test -vet=off -count=1 -run "$RUN" ./$PKG/ >/tmp/confirm.$$ 2>&1; rc2=$?
rm -f "$PKG/zz_seed_demo_test.go"
go build ./... && go test -vet=off -count=1 ./... 2>&1 | grep -v "^ok\|no test files" | grep "^FAIL\|^---" | grep -v "zipf\|TestAccess\|ExampleAccesses\|^FAIL$"
go test -vet=off -count=1 ./... 2>&1 | grep -c "^ok"
git checkout -q -- . && git clean -qfd
rm -f /tmp/confirm.$$
echo "RESULT 386: pristine_demo_rc=$rc0 (want 0) changed_demo_rc=$rc1 (want !=0); amd64 changed_demo_rc=$rc2"
