#!/usr/bin/env python3
"""Re-runs the quick check of every seeded change (as a build overlay) and reports which are (still) caught."""
import glob, json, os, re, subprocess, sys
bad = 0
ROOT = os.path.dirname(os.path.dirname(os.path.abspath(__file__)))
for d in sorted([d for d in glob.glob(ROOT + '/seeded/*/') if '/_' not in d]):
    m = json.load(open(d + 'meta.json'))
    props = re.findall(r'C\d\d', m['detection']['check'].split('(')[0]) or [m['property']]
    prop = props[0]
    r = subprocess.run([ROOT + '/selftest/run.py', '--patch', d + 'patch.diff', '--props', prop, '--no-suite'], capture_output=True, text=True)
    ok = '-> ok' in r.stdout
    if 'does not apply' in r.stdout + r.stderr:
        print('PATCH DOES NOT APPLY ' + prop + ' ' + os.path.basename(d.rstrip('/')), flush=True)
        bad += 1
        continue
    print(('caught ' if ok else 'MISSED ') + prop + ' ' + os.path.basename(d.rstrip('/')), flush=True)
    bad += 0 if ok else 1
print('all caught' if bad == 0 else f'{bad} MISSED')
sys.exit(1 if bad else 0)
