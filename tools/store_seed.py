#!/usr/bin/env python3
"""store_seed.py <seed-dir> <name> <property> <demo-pkg-dir> <run-regex> <caught-by> <needs...>
Copies a confirmed seeded change into /verif/seeded/<name>/ with meta.json."""
import json, os, shutil, sys, glob
src, name, prop, pkg, run, caught = sys.argv[1:7]
needs = ' '.join(sys.argv[7:])
dst = os.path.join('/verif/seeded', name)
os.makedirs(dst, exist_ok=True)
shutil.copy(os.path.join(src, 'patch.diff'), dst)
for f in glob.glob(os.path.join(src, '*_test.go')):
    shutil.copy(f, os.path.join(dst, os.path.basename(f) + '.txt'))  # .txt: not part of any Go package here
if os.path.exists(os.path.join(src, 'notes.md')):
    shutil.copy(os.path.join(src, 'notes.md'), dst)
meta = {
    'property': prop,
    'origin': 'independent sub-agent given only the property text and its own scratch worktree of /repo',
    'needs_to_manifest': needs,
    'demo': {'file': [os.path.basename(f) + '.txt' for f in glob.glob(os.path.join(src, '*_test.go'))], 'place_in': pkg + '/ (as *_test.go)', 'run': f'go test -vet=off -count=1 -run {run!r} ./{pkg}/'},
    'confirmed_by_me': {
        'how': f'tools/confirm_seed.sh in a scratch worktree: demo passes on the pristine tree, fails with the change; go build ./... and go test -vet=off -count=1 ./... pass with the change (mathext/zipf fails on the pristine tree already)',
        'demo_passes_without_change': True, 'demo_fails_with_change': True, 'pinned_suite_passes_with_change': True,
    },
    'detection': json.loads(caught),
}
json.dump(meta, open(os.path.join(dst, 'meta.json'), 'w'), indent=1)
print('stored', dst)
