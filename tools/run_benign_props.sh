#!/bin/bash
# run_benign_props.sh <Cxx>...  the benign regression restricted to the given checks (after strengthening only those):
# every behaviour-preserving patch of the groups whose package the check touches, both sets.
cd "$(dirname "$(readlink -f "$0")")/.."
declare -A G=( [C01]=bitmapA [C02]=bitmapA [C13]=bitmapA [C11]="bitmapB bmtree" [C12]=bitmapB [C14]=bitmapB [C15]=bitmapB
  [C03]=bmtree [C04]=bmtree [C05]=bmtree [C10]=bmtree [C08]=bitstrword [C09]=bitstrword [C16]=sigbits [C17]=sigbits
  [C06]=pbcmpl [C07]=pbcmpl [C18]=pbcmpl [C20]=size [C19]="bitmapA bitmapB bmtree bitstrword sigbits" )
for d in "$PWD/benign" "$PWD/benign/open"; do
  export BENIGN_DIR=$d
  for p in "$@"; do
    for g in ${G[$p]}; do tools/run_benign.sh $g $p; done
  done
done
