#!/bin/bash
# batch_seeds.sh <round> <Cxx[:props]>...   confirm + check each seed; compact verdicts on stdout
R=$1; shift
for a in "$@"; do
  id=${a%%:*}; props=${a#*:}; [ "$props" = "$a" ] && props=${id:0:3}
  S=/tmp/seed$R-$id
  demo=$(ls $S/*_test.go 2>/dev/null | head -1)
  [ -n "$demo" ] || { echo "== $id: no demo test file in $S: $(ls $S)"; continue; }
  pkg=$(grep -m1 '^package ' "$demo" | awk '{print $2}'); pkg=${pkg%_test}
  out=$(/verif/tools/proc_seed.sh $R $id $pkg . "$props" 2>&1)
  echo "== $id (pkg $pkg): $(echo "$out" | grep -m1 '^RESULT')"
  if echo "$out" | grep -q "^    VIOLATION property"; then echo "   CAUGHT"; else echo "   MISSED"; fi
  echo "$out" | grep "expect=caught\|^    VIOLATION\|^      got\|^      want\|^      [A-Za-z]" | head -7 | cut -c1-330
done
