#!/usr/bin/env python3
"""Builds seeded/README.md from seeded/*/meta.json and selftest/RESULTS.md from selftest/RESULTS.raw.md."""
import json, glob, os
rows = []
for d in sorted([d for d in glob.glob('/verif/seeded/*/') if '/_' not in d]):
    m = json.load(open(os.path.join(d, 'meta.json')))
    det = m['detection']
    rows.append((os.path.basename(d.rstrip('/')), m['property'], m['needs_to_manifest'], det['check'],
                 'first try' if det.get('first_try') else 'MISSED at first, caught after strengthening', det.get('note', '')))
with open('/verif/seeded/README.md', 'w') as f:
    f.write('# Seeded property-breaking changes\n\n'
            'Each directory holds a change to openacid/low written by an independent agent that was given only the text of one\n'
            'property and its own scratch worktree (nothing of /verif): `patch.diff`, the agent\'s demonstration test (`*_test.go.txt`),\n'
            'its `notes.md`, and `meta.json` (what it needs to manifest, how it was confirmed, which check reports it).\n'
            'All were confirmed in a scratch worktree with `tools/confirm_seed.sh`: the demonstration passes on the pristine tree and\n'
            'fails with the change, and the repository\'s own suite passes with the change. None is ever committed to /repo.\n'
            'Run a check against one with `selftest/run.py --patch seeded/<dir>/patch.diff --props <id>` (applied as a build overlay),\n'
            'or `git -C /repo apply <patch>; ./check.sh <id> quick; git -C /repo checkout -- .`.\n\n')
    f.write('| change | property | needs, to manifest | reported by | at | note |\n|---|---|---|---|---|---|\n')
    for r in rows:
        f.write('| ' + ' | '.join(str(x).replace('|', '\\|').replace('\n', ' ') for x in r) + ' |\n')
    n1 = sum(1 for r in rows if r[4] == 'first try')
    # per-round tally (round recorded in detection.round, or as "round N;" at the start of the note; default 1)
    import re, collections
    tally = collections.OrderedDict()
    for d in sorted([d for d in glob.glob('/verif/seeded/*/') if '/_' not in d]):
        det = json.load(open(os.path.join(d, 'meta.json')))['detection']
        rd = det.get('round')
        if rd is None:
            mm = re.match(r'round (\d)', det.get('note', ''))
            rd = int(mm.group(1)) if mm else 1
        t = tally.setdefault(rd, [0, 0])
        t[0 if det.get('first_try') else 1] += 1
    f.write('\n| round | changes | reported as the checks stood | missed at first |\n|---|---|---|---|\n')
    for rd in sorted(tally):
        a, b = tally[rd]
        f.write(f'| {rd} | {a+b} | {a} | {b} |\n')
    f.write(f'\n{len(rows)} changes; {n1} reported by the check as it stood, {len(rows)-n1} missed at first and reported after the check was strengthened (every one is reported now).\n')
raw = '/verif/selftest/RESULTS.raw.md'
if os.path.exists(raw):
    body = open(raw).read()
    with open('/verif/selftest/RESULTS.md', 'w') as f:
        f.write('# Self-test: mutants\n\n'
                'Produced by `selftest/run.py --md selftest/RESULTS.raw.md` (quick tier). For every mutant the pinned suite of the affected\n'
                'packages is run first with the same overlay (column 3: it must pass, otherwise the mutant is uninteresting), then the quick\n'
                'check of the property. `silent` rows are behaviourally equivalent edits (or edits the statement allows) that must NOT raise an alarm.\n\n')
        f.write(body)
print(len(rows), 'seeds')
