#!/bin/bash
# confirm_seed.sh <seed-dir> <worktree> <pkg-dir-for-demo> <go-test-run-regex>
# Confirms in a scratch worktree: suite passes with the change, demo fails with it, demo passes without it.
set -u
export GOFLAGS=-mod=mod GOPROXY=off GOSUMDB=off GOTOOLCHAIN=local
S=$1; WT=$2; PKG=$3; RUN=$4
cd "$WT" || exit 2
git checkout -q -- . && git clean -qfd
git apply --check "$S/patch.diff" || { echo "patch does not apply"; exit 2; }
demo=$(ls "$S"/*_test.go | head -1)
echo "--- pristine: demo must pass"
cp "$demo" "$PKG/zz_seed_demo_test.go"
go test -vet=off -count=1 -run "$RUN" ./$PKG/ >/tmp/confirm.$$ 2>&1; rc0=$?; tail -3 /tmp/confirm.$$
echo "--- with change: demo must fail"
git apply "$S/patch.diff"
go test -vet=off -count=1 -run "$RUN" ./$PKG/ >/tmp/confirm.$$ 2>&1; rc1=$?; tail -5 /tmp/confirm.$$ | cut -c1-200
rm -f "$PKG/zz_seed_demo_test.go"
echo "--- with change: pinned suite must pass"
go build ./... && go test -vet=off -count=1 ./... 2>&1 | grep -v "^ok\|no test files" | grep -v zipf | head -10
go test -vet=off -count=1 ./... 2>&1 | grep -c "^ok"
git checkout -q -- . && git clean -qfd
rm -f /tmp/confirm.$$
echo "RESULT pristine_demo_rc=$rc0 (want 0) changed_demo_rc=$rc1 (want !=0)"
