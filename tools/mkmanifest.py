#!/usr/bin/env python3
"""Generates /verif/MANIFEST.json from the table below and validates it against the schema."""
import json, sys

BASE_OFF = ("cd /repo && GOFLAGS=-mod=mod GOPROXY=off GOSUMDB=off GOTOOLCHAIN=local "
            "go test -mod=mod -json -vet=off -count=1 -timeout 25m ./...")

E1 = 'E1 bounded-exhaustive input enumeration vs reference model'
E2 = 'E2 explicit-state BFS over the real object'
E3 = 'E3 environment-deviation DFS (scripted io environment)'
E4 = 'E4 controlled scheduler on overlay-instrumented source + footprint oracles'

# id -> (engine, category, technique, level text, level note, design ref)
CHECKS = {
    'C01': (E1, 'exploration',
            'bounded-exhaustive enumeration of bitmaps x positions against a running bit count',
            'Every bitmap of a declared finite space (<=6 words over a 12-word core alphabet, <=4 words with one word from a 245-word wide alphabet; thorough 7/5) x every position x every index flavour is executed on the real Rank64/Rank128/IndexRank64/IndexRank128 and compared with a bit-by-bit count; complete below the bound, nothing sampled. Right level: the functions are loop-free word arithmetic whose case splits (bit offset, word parity, 128-bit half) are all inside the bound.',
            'Trusted: the bit-loop reference; Go compiler/runtime. Not covered: words outside the alphabets, bitmaps longer than the bound.',
            'DESIGN.md section 4 C01'),
}

NOT_YET = {
}


def main():
    props = [json.loads(l) for l in open('/verif/properties.jsonl')]
    checks = []
    na = []
    for p in props:
        i = p['id']
        if i in CHECKS:
            eng, cat, tech, text, note, ref = CHECKS[i]
            checks.append({
                'property_id': i,
                'quick_cmd': f'./check.sh {i} quick',
                'thorough_cmd': f'./check.sh {i} thorough',
                'evidence_file': f'/verif/evidence/{i}.json',
                'replay_cmd_template': './check.sh replay {path}',
                'engine': eng,
                'level_claimed': {'category': cat, 'text': text, 'design_ref': ref},
                'level_note': note,
                'technique': tech,
            })
        else:
            na.append({'property_id': i, 'reason': NOT_YET.get(i, 'check not built yet in this round; planned in DESIGN.md section 4 (model checking applies; not a claim of inapplicability)')})
    m = {
        'version': 1,
        'setup_cmd': './check.sh setup',
        'hooks': {
            'guard': 'verif',
            'enable': 'none needed: unexported state is read with reflect and instrumentation is applied with `go build -overlay` generated from the working tree at check time (C19); no file of /repo carries a hook',
            'baseline_off_cmd': BASE_OFF,
            'source_commits': [],
            'add_only': True,
        },
        'engines': [
            {'name': 'E1', 'path': 'harness/gen, harness/props', 'kind_free_text': E1, 'serves_properties': [i for i in CHECKS if CHECKS[i][0] == E1]},
            {'name': 'E2', 'path': 'harness/mc/bfs.go', 'kind_free_text': E2, 'serves_properties': [i for i in CHECKS if CHECKS[i][0] == E2]},
            {'name': 'E3', 'path': 'harness/mc/dev.go', 'kind_free_text': E3, 'serves_properties': [i for i in CHECKS if CHECKS[i][0] == E3]},
            {'name': 'E4', 'path': 'harness/cmd/vinstr, harness/schedrt, harness/mc/sched.go', 'kind_free_text': E4, 'serves_properties': [i for i in CHECKS if CHECKS[i][0] == E4]},
        ],
        'checks': checks,
        'not_applicable': na,
        'notes': 'All checks: ./check.sh <id> <tier> rebuilds harness/cmd/vcheck against /repo (replace directive) and runs it; evidence is written by vcheck itself. Self-test of detection: selftest/run.py; seeded changes from independent agents: seeded/.',
    }
    json.dump(m, open('/verif/MANIFEST.json', 'w'), indent=1)
    try:
        import jsonschema
        jsonschema.validate(m, json.load(open('/root/.vp/MANIFEST.schema.json')))
        print('MANIFEST.json valid;', len(checks), 'checks,', len(na), 'not claimed')
    except ImportError:
        print('jsonschema not importable; wrote MANIFEST.json unvalidated')


if __name__ == '__main__':
    main()
