#!/usr/bin/env python3
"""Generates /verif/MANIFEST.json from the table below and validates it against the schema."""
import json, sys

BASE_OFF = ("cd /repo && GOFLAGS=-mod=mod GOPROXY=off GOSUMDB=off GOTOOLCHAIN=local "
            "go test -mod=mod -json -vet=off -count=1 -timeout 25m ./...")

E1 = 'E1 bounded-exhaustive input enumeration vs reference model'
E2 = 'E2 explicit-state BFS over the real object'
E3 = 'E3 environment-deviation DFS (scripted io environment)'
E4 = 'E4 controlled scheduler on overlay-instrumented source + footprint oracles'

# id -> (engine, category, technique, level text, level note, design ref)
def e1(what, space, oracle, rest=''):
    return (E1, 'exploration', 'bounded-exhaustive input enumeration vs independent reference (' + what + ')',
            'Every member of a declared finite input space (' + space + ') is executed on the real functions and compared with ' + oracle + '. Complete below the stated bounds, nothing sampled; the evidence carries the enumerated count next to the closed-form cardinality of the declared space. Next to the small complete spaces every check has families for what a change may key on: lengths at every round-number threshold, integer extremes of unbounded parameters, slice arguments with dirty spare capacity, and the whole quick tier once more as a GOARCH=386 binary (C04, C05, C10, C11 also as a -tags debug binary). Right level: the code is short word arithmetic whose case splits are driven by small quantities that the bounds cover several times over.' + rest,
            'Trusted: the reference model, the Go toolchain. Not covered: inputs outside the declared alphabets/bounds (DESIGN.md section 7).')

CHECKS = {
    'C01': e1('running bit count', 'bitmaps <=6 words over a 12-word core alphabet and <=4 words with one word from a 245-word wide alphabet (thorough 7/5) x every position x every index flavour, plus a length sweep (every length 0..520 words, thorough 2100, x 4 patterns) in which every returned index is re-checked after the next one has been built, plus ~9000 single words by population class (one / two / three 0-bits, 0-runs at boundary positions, complements, every popcount) in 4 placements', 'a bit-by-bit running count') + ('DESIGN.md section 4 C01',),
    'C02': e1('naive 1-position scan', 'the C01 bitmap spaces, long sparse bitmaps (20..70 words, thorough 130, all zero except <=3 islands of popcount 1/2/31/32/33/63/64 at every position), a length sweep 0..520 words with index re-check, and the byte-lane sweep (every byte value in every lane under every 00/ff background, 3 embeddings) x every valid i x both selects and both index builders', 'the list of 1-positions of a naive scan') + ('DESIGN.md section 4 C02',),
    'C03': e1('recursive pre-order walk, release and -tags debug builds', 'every level mask of height <=12 x every node, plus mask/path families for every height <=30; the same enumeration again in a second binary built with -tags debug (complete to height 10)', 'an explicit recursive pre-order walk numbering stored nodes (closed form for tall trees, cross-checked against the walk)', ' Two configurations (release, debug contracts) are both enumerated.') + ('DESIGN.md section 4 C03',),
    'C04': e1('filter of the reference node list', 'every level mask of height <=5 x every ordered (from,to) pair of a boundary set around every node, height 6 with {p,p+-1} pairs, tall sparse masks to height 30 with narrow windows; Decode on every subset bitmap of masks with <=16 stored nodes x 4 bitmap shapes and empty/full/singleton/pair subsets to height 6', 'the stored nodes of the recursive walk, sorted and filtered') + ('DESIGN.md section 4 C04',),
    'C05': e1('pre-order successor walk over the WHOLE domain', 'the entire domain: all 2^32-33 (height, index) pairs, in both tiers', 'a pre-order successor function walked in index order, both directions (IndexToPath and PathToIndex) judged against it', ' This check is complete over its whole domain, not only below a bound.') + ('DESIGN.md section 4 C05',),
    'C08': e1("'0'/'1' bit-string arithmetic", 'all strings of length <=2 over all 256 bytes and <=4 over 8 bytes (plus strings of 9..67 bytes) x 4 widths; every in-range word list to a width-dependent length; every ordered pair of short strings x every (from,end) window; every ordered pair of 48 strings of 8..19 bytes and single-byte flips of bases of every length 1..40 x every from x 7 ends', "the string's bit rendering cut into n-bit groups") + ('DESIGN.md section 4 C08',),
    'C09': e1("Go string order on '0'/'1' renderings", 'sources (s,from,to) over a 7-byte alphabet (one member of every byte class) with stems of 7/8/9 bytes in 4 variants (first byte differing by >=128, eighth byte 0x80) and every stem length 0..40 x every bit range; Cmp on ALL ordered pairs of distinct bit strings (1.9e8); CmpUpto/StrCmpUpto on plain strings x all encodings, StrCmpUpto from an alphabet of 8 call frames x 2 dead-stack patterns', "comparison of the '0'/'1' renderings (lexicographic, prefix first)") + ('DESIGN.md section 4 C09',),
    'C10': e1("'0'/'1' strings and string order", 'every height <=32 x length <=min(h,10) x every prefix, and every ordered pair of equal height', "the prefix as a '0'/'1' string; pre-order = string order") + ('DESIGN.md section 4 C10',),
    'C11': e1('slice of the bit string', 'every string of length <=5 over 6 bytes x every start bit in [0,8len+9] x every width 0..32; PathsOf on key lists of length <=4', "a slice of the string's '0'/'1' rendering, zero-extended") + ('DESIGN.md section 4 C11',),
    'C12': e1('set of ints; all Builder histories to depth 3', 'every subset of 11 boundary positions x 11 sizes x every probe in [-70, 64w+70), every subset of 8 far-apart positions; every OfMany sequence of <=3 segments (192-segment alphabet, positions >= size included) whose bits fit the result; every Builder history of <=3 operations over a 216-operation alphabet (and 4..5 over a 10-operation one) from two builders, with a bystander Builder operated between the steps', 'a set-of-ints model (bits, running offset, word count)') + ('DESIGN.md section 4 C12',),
    'C13': e1('linear scan', 'every bitmap of 1..5 words over a 7-word alphabet x every range 0<=i<=end<=64len, plus long sparse bitmaps (24/33 words, <=2 islands at every pair of positions) x every range with ends near word boundaries, plus ~9000 single words by population class alone x every range and between two empty words', 'a linear scan of the range') + ('DESIGN.md section 4 C13',),
    'C14': e1('bit copy / popcount accounting', '7 widths x every value list of length <=5 over 5 values and long lists (to 20 words) with <=2 deviations, run-structured lists (a head of 0..64/w+1 elements, a run of 1/2/8/20 words +-1 element, a tail); every bitmap of <=3 words over 5 words x every 0<=from<=to<=64len and 20-word bitmaps x boundary ranges', 'low-w-bit extraction, popcount accounting and a bit-by-bit copy (result length included, input unchanged)') + ('DESIGN.md section 4 C14',),
    'C16': e1('first difference / distinct truncations of bit strings', 'every non-empty subset of several small key universes (byte classes 00, ASCII, 7f/80, continuation, lead, ff; 4 stem variants) behind stems of 0..65 bytes and every stem length 0..80, four key sets of 31..341 keys taken whole, x every [s,e) x 6 values of m', "first differing index of the '0'/'1' renderings and the number of distinct truncated bit strings") + ('DESIGN.md section 4 C16',),
    'C17': e1('clause-by-clause verdict', 'the C16 key sets x every maxSize in 1..len+1', 'the clauses of the statement evaluated directly (boundaries, sizes, longest common prefix by comparison, strict prefix order)') + ('DESIGN.md section 4 C17',),
    'C20': e1('size computed while building', 'every type of the kind grammar to depth 3 (thorough 4; 7 067 types, 21 242 values) built with reflect x a value-shape alphabet with deliberately shared pointers, long slices and maps, plus hand-written types (unexported/embedded fields, named types), arrays and slices of 21 lengths to 4096 in every position, acyclic values that reach the same memory twice (sub-slices of siblings and ancestors, an arena tree) and NaN-keyed maps; Of and 10 Stat forms per value', 'the size the generator computed bottom-up while building the value') + ('DESIGN.md section 4 C20',),
    'C15': (E2, 'model_checking', 'explicit-state BFS over real TailBitmap objects with a set model and an invariant on every transition',
            'All states reachable from 11 starts (empty at 3 offsets, three prefilled words in 3 fill orders x 2 offsets, two starts crossing the real 1024-word reclaim threshold) under the per-state alphabet {Set(every hole), Set below Offset, Set beyond the end, Set of a set bit, Compact} are generated by cloning the real object and calling the real method; the full invariant (all Get/Get1 in a window, Offset alignment/monotonicity, no skipped 0, first word not all-ones, Compact changes no Get) is evaluated after EVERY transition before deduplication by a key of every field; every state is re-reached by fresh replay of its shortest path, and a sample of states once more with a second TailBitmap operated between the steps. Right level: the property is about histories of a small mutable object whose reachable state space under this alphabet is finite and fully searched.',
            'Trusted: the set-of-ints model; the clone (struct copy + deep copy of Words). Histories outside the alphabet are not covered.', 'DESIGN.md section 4 C15'),
    'C18': (E2, 'model_checking', 'BFS over cursor states x every operation x every answer of a scripted underlying WriterAt, plus unmerged sequences',
            'For 10 sections every cursor state reachable inside a window is expanded with every operation of the alphabet (Write/WriteAt with buffers 0..6, Seek with every whence/offset) x every answer of the underlying writer (full, short with error, short without error), executed on a real SectionWriter and compared with the statement\'s cursor model: return values, exact (offset, bytes) calls received, containment, cursor afterwards, Size. All sequences of depth <=3 (thorough 4) over a reduced alphabet run without state merging - alone, with a bystander SectionWriter operated between the steps, over a stacked SectionWriter and over an *os.File; AtToWriter runs every sequence of <=3 Writes.',
            'Trusted: the cursor model. Cursors beyond the window are executed once but not expanded.', 'DESIGN.md section 4 C18'),
    'C06': (E3, 'model_checking', 'stateless deviation-bounded DFS over the choices of a scripted io.Reader (all chunkings with <=B deviations) on real Marshal/Unmarshal',
            'Every frame of a message-kind x payload-length x version alphabet is marshalled and checked byte for byte against an independently built header+encoding; every stream of 1..3 frames over a 6-frame alphabet is read back under every reader chunking with <=1 (thorough 2) deviations from "as much as asked" (short read at any byte, data together with io.EOF, one empty read) and every uniform chunk size, through 11 standard-library reader types and 4 writer types, and (a frame above 1 MiB followed by others) under forced short reads around every boundary. Each execution runs the real code to completion; states = choice-tree nodes, transitions = reader answers. A scheduled part (the controlled scheduler of C19 on the automatically instrumented pbcmpl package) runs every pair of {Marshal, Unmarshal} x 7 frames as a 2-thread program under every schedule with <=2 (thorough 3) preemptions; callers share nothing, each thread must meet its per-frame obligations as when it runs alone. The whole quick tier is repeated as a GOARCH=386 binary.',
            'Trusted: hand-built expected wire bytes. Readers respect the io contract apart from the listed deviations.', 'DESIGN.md section 4 C06'),
    'C07': (E3, 'fault_enumeration', 'exhaustive enumeration of cut points, writer byte budgets, read-error offsets and a header-field alphabet (corrupt headers in a memory-limited worker process)',
            'Every cut point of every frame of a 40-frame alphabet x chunkings; every writer byte budget x 2 failure modes; a read error at every offset alone/together with data; a header-size x body-size x version x available-bytes alphabet (body sizes to 2^64-1) executed in a child process under ulimit -v so that a fatal out-of-memory is observed as a dead worker; ReadHeader on every prefix of arbitrary bytes. Expected counts and error causes come from the statement.',
            'Trusted: the scripted reader/writer. Only the listed fault shapes are injected.', 'DESIGN.md section 4 C07'),
    'C19': (E4, 'model_checking', 'preemption-bounded exhaustive schedule exploration (controlled scheduler on automatically instrumented source) + exact argument write-footprint and package-state snapshot oracles',
            'Every unordered pair of a 52-entry function alphabet (and every triple of a 16-entry sub-alphabet) runs as a 2-/3-thread program on shared inputs under a cooperative scheduler; scheduling points are inserted by a source-to-source instrumenter, regenerated from the working tree on every run, before every statement touching package-level state, a receiver or an alias; all schedules with <=2 (thorough 3) preemptions are executed on the real code and each must reproduce the sequential results with the package state unchanged. Net effects are decided without scheduling: every call x parameter grid x 4 input sets runs with all arguments in read-only mmap memory (any store faults), the deep hash of every package-level variable must not change after a full warm-up, results must not depend on call order, and every value returned during a pass is re-read at its end (a later call must not modify memory the library handed out). Further oracles around one call: one element appended to / every element overwritten in every returned slice, every argument buffer overwritten after the call, every argument in a mapping of its own ending at (and once more: starting after) an inaccessible page; a cold-start exploration runs every schedule of every same-function pair in a fresh process. A free-running -race pass of the same bodies is a reported supplement.',
            'Trusted: the instrumenter placing points at all shared-state accesses (syntactic, liberal), sequentially consistent memory at statement granularity. Races on memory the instrumenter does not see are left to the footprint oracle and the sampling race pass.', 'DESIGN.md section 4 C19'),
}

NOT_YET = {
}


def main():
    props = [json.loads(l) for l in open('/verif/properties.jsonl')]
    checks = []
    na = []
    for p in props:
        i = p['id']
        if i in CHECKS:
            eng, cat, tech, text, note, ref = CHECKS[i]
            checks.append({
                'property_id': i,
                'quick_cmd': f'./check.sh {i} quick',
                'thorough_cmd': f'./check.sh {i} thorough',
                'evidence_file': f'/verif/evidence/{i}.json',
                'replay_cmd_template': './check.sh replay {path}',
                'engine': eng,
                'level_claimed': {'category': cat, 'text': text, 'design_ref': ref},
                'level_note': note,
                'technique': tech,
            })
        else:
            na.append({'property_id': i, 'reason': NOT_YET.get(i, 'check not built yet in this round; planned in DESIGN.md section 4 (model checking applies; not a claim of inapplicability)')})
    m = {
        'version': 1,
        'setup_cmd': './check.sh setup',
        'hooks': {
            'guard': 'verif',
            'enable': 'none needed: unexported state is read with reflect and instrumentation is applied with `go build -overlay` generated from the working tree at check time (C19); no file of /repo carries a hook',
            'baseline_off_cmd': BASE_OFF,
            'source_commits': [],
            'add_only': True,
        },
        'engines': [
            {'name': 'E1', 'path': 'harness/gen, harness/props', 'kind_free_text': E1, 'serves_properties': [i for i in CHECKS if CHECKS[i][0] == E1]},
            {'name': 'E2', 'path': 'harness/mc/bfs.go', 'kind_free_text': E2, 'serves_properties': [i for i in CHECKS if CHECKS[i][0] == E2]},
            {'name': 'E3', 'path': 'harness/mc/dev.go', 'kind_free_text': E3, 'serves_properties': [i for i in CHECKS if CHECKS[i][0] == E3]},
            {'name': 'E4', 'path': 'harness/cmd/vinstr, harness/schedrt, harness/mc/sched.go', 'kind_free_text': E4, 'serves_properties': [i for i in CHECKS if CHECKS[i][0] == E4]},
        ],
        'checks': checks,
        'not_applicable': na,
        'notes': 'All checks: ./check.sh <id> <tier> rebuilds harness/cmd/vcheck against /repo (replace directive) and runs it; evidence is written by vcheck itself. Self-test of detection: selftest/run.py; seeded property-breaking changes from independent agents: seeded/ (tools/run_all_seeds.py); behaviour-preserving changes from independent agents that must leave every check silent: benign/ (tools/run_all_benign.sh). Build configurations: amd64, GOARCH=386, -tags debug, plus any configuration that compiles a file the default build ignores (cmd/vconfigs).',
    }
    json.dump(m, open('/verif/MANIFEST.json', 'w'), indent=1)
    try:
        import jsonschema
        jsonschema.validate(m, json.load(open('/root/.vp/MANIFEST.schema.json')))
        print('MANIFEST.json valid;', len(checks), 'checks,', len(na), 'not claimed')
    except ImportError:
        print('jsonschema not importable; wrote MANIFEST.json unvalidated')


if __name__ == '__main__':
    main()
