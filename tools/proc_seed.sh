#!/bin/bash
# proc_seed.sh <round> <Cxx> <pkg-dir-for-demo> <go-test-run-regex> [props-to-run, comma separated; default the property itself]
# One seed of a round: confirm it in its scratch worktree (tools/confirm_seed.sh), then run the quick check(s) against the
# patch applied as a build overlay. Prints the RESULT line of the confirmation and the verdict of every check.
set -u
R=$1; ID=$2; PKG=$3; RUN=$4; PROPS=${5:-${ID:0:3}}
S=/tmp/seed$R-$ID; WT=/tmp/wt$R-$ID
/verif/tools/confirm_seed.sh "$S" "$WT" "$PKG" "$RUN" 2>&1 | grep -v "^ok\|^---\|^PASS\|^FAIL\|^$" | tail -6
for p in ${PROPS//,/ }; do
  o=$(/verif/selftest/run.py --patch "$S/patch.diff" --props "$p" --no-suite -v 2>&1)
  echo "$o" | grep -m3 "^    VIOLATION property\|expect=caught" | cut -c1-400
  echo "$o" | tail -6 | cut -c1-400
done
