#!/usr/bin/env python3
"""Self-test: show that the checks detect property-breaking edits the pinned suite misses.

Each mutant is a set of exact string replacements in files of /repo, applied to a copy
under /verif/.work and handed to `go build -overlay` (so /repo is never touched).
For every mutant: (1) the repository's own tests of the affected packages must still
pass with the overlay (otherwise the mutant is not interesting and is reported as
'killed by suite'); (2) the quick check of every listed property must exit 1 with a
VIOLATION line (mutants marked expect='silent' are behaviourally equivalent edits and
must exit 0).

usage: run.py [-k substring] [-p PROP] [--tier quick|thorough] [--no-suite] [--patch file.diff --props C01,C02]
"""
import argparse, json, os, shutil, subprocess, sys, time

ROOT = os.path.dirname(os.path.dirname(os.path.abspath(__file__)))  # normally /verif; a snapshot runs its own harness
REPO = '/repo'
WORK = os.path.join(ROOT, '.work', 'selftest.%d' % os.getpid())
ENV = dict(os.environ, GOFLAGS='-mod=mod', GOPROXY='off', GOSUMDB='off', GOTOOLCHAIN='local')

sys.path.insert(0, os.path.dirname(os.path.abspath(__file__)))
from mutants import MUTANTS  # noqa


def make_overlay(name, edits):
    d = os.path.join(WORK, name)
    shutil.rmtree(d, ignore_errors=True)
    os.makedirs(d)
    repl = {}
    texts = {}
    for ed in edits:
        rel, old, new = ed[0], ed[1], ed[2]
        nth = ed[3] if len(ed) > 3 else None
        src = os.path.join(REPO, rel)
        if rel not in texts:
            texts[rel] = open(src).read() if os.path.exists(src) else ''
        s = texts[rel]
        if old == '':
            s = s + new
        else:
            n = s.count(old)
            if nth is None:
                if n != 1:
                    raise SystemExit(f'mutant {name}: pattern occurs {n} times in {rel}: {old!r}')
                s = s.replace(old, new)
            else:
                if n <= nth:
                    raise SystemExit(f'mutant {name}: pattern occurs only {n} times in {rel}: {old!r}')
                parts = s.split(old)
                s = old.join(parts[:nth + 1]) + new + old.join(parts[nth + 1:])
        texts[rel] = s
    for rel, s in texts.items():
        dst = os.path.join(d, rel.replace('/', '__') + '.txt')
        open(dst, 'w').write(s)
        repl[os.path.join(REPO, rel)] = dst
    ov = os.path.join(d, 'overlay.json')
    json.dump({'Replace': repl}, open(ov, 'w'), indent=1)
    return ov, sorted({os.path.dirname(r) for r in texts})


def overlay_from_patch(name, patch):
    d = os.path.join(WORK, name)
    shutil.rmtree(d, ignore_errors=True)
    os.makedirs(d)
    files = []
    for line in open(patch):
        if line.startswith('+++ '):
            f = line[4:].strip().split('\t')[0]
            if f.startswith('b/'):
                f = f[2:]
            if f != '/dev/null':
                files.append(f)
    tree = os.path.join(d, 'tree')
    for f in files:
        os.makedirs(os.path.dirname(os.path.join(tree, f)), exist_ok=True)
        if os.path.exists(os.path.join(REPO, f)):
            shutil.copy(os.path.join(REPO, f), os.path.join(tree, f))
    r = subprocess.run(['patch', '-p1', '-s', '-i', os.path.abspath(patch)], cwd=tree, capture_output=True, text=True)
    if r.returncode != 0:
        raise SystemExit(f'patch {patch} does not apply: {r.stdout}{r.stderr}')
    repl = {}
    for f in files:
        dst = os.path.join(d, f.replace('/', '__') + '.txt')
        shutil.move(os.path.join(tree, f), dst)
        repl[os.path.join(REPO, f)] = dst
    shutil.rmtree(tree)
    ov = os.path.join(d, 'overlay.json')
    json.dump({'Replace': repl}, open(ov, 'w'), indent=1)
    return ov, sorted({os.path.dirname(f) for f in files})


def suite_passes(ov, pkgs):
    args = ['go', 'test', '-overlay', ov, '-vet=off', '-count=1'] + ['./' + p + '/' for p in pkgs]
    r = subprocess.run(args, cwd=REPO, env=ENV, capture_output=True, text=True)
    return r.returncode == 0, (r.stdout + r.stderr)[-1500:]


def run_check(prop, tier, ov, extra=None):
    env = dict(ENV, VERIF_OVERLAY=ov, VERIF_OUT=os.path.join(WORK, 'out'))
    env.update(extra or {})
    t0 = time.time()
    r = subprocess.run([os.path.join(ROOT, 'check.sh'), prop, tier], env=env, capture_output=True, text=True)
    out = r.stdout + r.stderr
    viol = [l for l in out.splitlines() if l.startswith('VIOLATION ')]
    return r.returncode, viol, out, time.time() - t0


def main():
    ap = argparse.ArgumentParser()
    ap.add_argument('-k', default='')
    ap.add_argument('-p', default='')
    ap.add_argument('--tier', default='quick')
    ap.add_argument('--no-suite', action='store_true')
    ap.add_argument('--patch')
    ap.add_argument('--props', default='')
    ap.add_argument('--md', help='write a markdown table here')
    ap.add_argument('-v', action='store_true', help='print the first reported violations')
    a = ap.parse_args()
    os.makedirs(WORK, exist_ok=True)
    rows = []
    bad = 0
    todo = []
    if a.patch:
        ov, pkgs = overlay_from_patch('patch', a.patch)
        todo.append(('patch:' + a.patch, a.props.split(','), ov, pkgs, 'caught', a.patch, None))
    else:
        for m in MUTANTS:
            if a.k and a.k not in m['name']:
                continue
            if a.p and a.p not in m['props']:
                continue
            ov, pkgs = make_overlay(m['name'], m['edits'])
            todo.append((m['name'], m['props'], ov, pkgs, m.get('expect', 'caught'), m.get('desc', ''), m.get('env')))
    for (name, props, ov, pkgs, expect, desc, extra) in todo:
        suite = 'skipped'
        if not a.no_suite:
            ok, tail = suite_passes(ov, pkgs)
            suite = 'passes' if ok else 'FAILS'
            if not ok:
                print(f'{name}: killed by the pinned suite — not a useful mutant\n{tail}')
                rows.append((name, ','.join(props), suite, '-', desc))
                bad += 1
                continue
        for prop in props:
            rc, viol, out, dt = run_check(prop, a.tier, ov, extra)
            if expect == 'caught':
                good = rc == 1 and len(viol) > 0
            else:
                good = rc == 0 and not viol
            verdict = {1: 'VIOLATION', 0: 'silent'}.get(rc, f'exit {rc}')
            print(f'{name:40s} {prop} suite={suite} check={verdict} ({dt:.1f}s) expect={expect} -> {"ok" if good else "UNEXPECTED"}')
            if a.v:
                ls = out.splitlines()
                first = True
                for i, l in enumerate(ls):
                    if l.startswith('VIOLATION '):
                        if first:
                            print('\n'.join('    ' + x[:600] for x in ls[i:i + 5]))
                            first = False
                        else:
                            print('    (also) ' + (ls[i + 1].strip()[:160] if i + 1 < len(ls) else ''))
            if not good:
                bad += 1
                print(out[-3000:])
            rows.append((name, prop, suite, verdict + ('' if good else ' (UNEXPECTED)'), desc))
        # violations written by mutant runs are not findings of the tree: drop their replay files
    if a.md:
        with open(a.md, 'w') as f:
            f.write('| mutant | property | pinned suite | quick check | edit |\n|---|---|---|---|---|\n')
            for r in rows:
                f.write('| ' + ' | '.join(str(x).replace('|', '\\|') for x in r) + ' |\n')
    shutil.rmtree(WORK, ignore_errors=True)
    sys.exit(1 if bad else 0)


if __name__ == '__main__':
    main()
