# Property-breaking edits used by run.py. Each edit is (file, exact old text, new text);
# the old text must occur exactly once in the file.
MUTANTS = [
    dict(name='c01-rank128-popcount-low32', props=['C01'],
         desc='Rank128 subtracts only the low 56 bits popcount of the current word on the right half',
         edits=[('bitmap/rank.go', 'cnt1 := int32(bits.OnesCount64(w))', 'cnt1 := int32(bits.OnesCount64(w << 8 >> 8))')]),
    dict(name='c01-rank64-mask-table', props=['C01'],
         desc='Mask[63] is built one bit short',
         edits=[('bitmap/mask.go', 'Mask[i] = (1 << uint(i)) - 1\n', 'Mask[i] = (1 << uint(i)) - 1\n\t\tif i == 63 {\n\t\t\tMask[i] >>= 1\n\t\t}\n')]),
    dict(name='c01-indexrank128-drop-last', props=['C01'],
         desc='IndexRank128 omits the extra last entry for even word counts >= 4',
         edits=[('bitmap/rank.go', 'if len(words)&1 == 0 {', 'if len(words)&1 == 0 && len(words) < 6 {')]),
]
