# Property-breaking edits used by run.py. Each edit is (file, exact old text, new text[, nth]);
# without nth the old text must occur exactly once in the file, with nth the nth (0-based)
# occurrence is replaced.
MUTANTS = [
    # ---- C01
    dict(name='c01-rank128-popcount-low56', props=['C01'],
         desc='Rank128 subtracts only the popcount of the low 56 bits of the current word on the right half',
         edits=[('bitmap/rank.go', 'cnt1 := int32(bits.OnesCount64(w))', 'cnt1 := int32(bits.OnesCount64(w << 8 >> 8))')]),
    dict(name='c01-indexrank128-drop-last', props=['C01'],
         desc='IndexRank128 omits the extra last entry for even word counts >= 6',
         edits=[('bitmap/rank.go', 'if len(words)&1 == 0 {', 'if len(words)&1 == 0 && len(words) < 6 {')]),
    # ---- C02 (survivors of the pinned suite named in the property text)
    dict(name='c02-select32-shift15', props=['C02'],
         desc='Select32 halving search shifts by 15 instead of 16',
         edits=[('bitmap/select.go', 'ww >>= 16', 'ww >>= 15', 0)]),
    dict(name='c02-select32r64-shift15', props=['C02'],
         desc='Select32R64 halving search shifts by 15 instead of 16',
         edits=[('bitmap/select.go', 'ww >>= 16', 'ww >>= 15', 1)]),
    dict(name='c02-select32-next1-minus', props=['C02'],
         desc='Select32 next-1 word scan computes wordI<<6 - tz',
         edits=[('bitmap/select.go', 'return a, wordI<<6 + int32(bits.TrailingZeros64(w))\n\t\t}\n\t}\n\treturn a, l << 6\n}\n\n// IndexSelect32R64',
                 'return a, wordI<<6 - int32(bits.TrailingZeros64(w))\n\t\t}\n\t}\n\treturn a, l << 6\n}\n\n// IndexSelect32R64')]),
    dict(name='c02-select32r64-last-one', props=['C02'],
         desc='Select32R64 returns 64*len-1 as the successor of the last 1-bit (tail never executed by the suite)',
         edits=[('bitmap/select.go', '\treturn a, l << 6\n}\n\n// indexSelectU64', '\treturn a, l<<6 - 1\n}\n\n// indexSelectU64')]),
    dict(name='c02-equiv-or-xor', props=['C02'], expect='silent',
         desc='EQUIVALENT edit: | -> ^ when joining the byte value with an in-byte rank < 8 (must stay silent)',
         edits=[('bitmap/select.go', 'select8Lookup[(ww&0xff)<<3|uint64(findIth)]', 'select8Lookup[(ww&0xff)<<3^uint64(findIth)]', 0)]),
]
MUTANTS += [
    # ---- C18 (both survive the pinned suite, named in the property text)
    dict(name='c18-write-cursor-backwards', props=['C18'],
         desc='Write moves the cursor backwards: s.off -= int64(n)',
         edits=[('iohelper/iohelper.go', 's.off += int64(n)', 's.off -= int64(n)')]),
    dict(name='c18-seek-start-minus-base', props=['C18'],
         desc='Seek(SeekStart) subtracts the base instead of adding it',
         edits=[('iohelper/iohelper.go', 'offset += s.base', 'offset -= s.base')]),
    dict(name='c18-writeat-limit-off-by-one', props=['C18'],
         desc='WriteAt accepts off == size (writes one byte past the section when base > 0 ... at the limit)',
         edits=[('iohelper/iohelper.go', 'if off < 0 || off >= s.limit-s.base {', 'if off < 0 || off > s.limit-s.base {')]),
    dict(name='c18-write-advance-before-write', props=['C18'],
         desc='cursor advanced by the requested length before the underlying write reports how much it took',
         edits=[('iohelper/iohelper.go', 'n, err2 := s.w.WriteAt(p, s.off)\n\ts.off += int64(n)', 's.off += int64(len(p))\n\tn, err2 := s.w.WriteAt(p, s.off-int64(len(p)))')]),
]
MUTANTS += [
    # ---- C19
    dict(name='c19-sigbits-scratch-hoisted', props=['C19'],
         desc='get64Bits scratch buffer hoisted from a local to package scope (shared between callers)',
         edits=[('sigbits/firstdiff.go', '\t\tbs := make([]byte, 8)\n\t\tcopy(bs, s)', '\t\tbs := scratch64[:]\n\t\tfor i := range bs {\n\t\t\tbs[i] = 0\n\t\t}\n\t\tcopy(bs, s)'),
                ('sigbits/firstdiff.go', '', '\nvar scratch64 [8]byte\n')]),
    dict(name='c19-join-masks-in-place', props=['C19'],
         desc='Join normalises its argument in place (subs[i] &= Mask[size]) before packing',
         edits=[('bitmap/join.go', '\t\tr[j>>6] |= (e & Mask[size]) << uint(j&63)\n', '\t\tsubs[i] = e & Mask[size]\n\t\tr[j>>6] |= subs[i] << uint(j&63)\n')]),
    dict(name='c19-firstdiff-transient-arg-write', props=['C19'],
         desc='FirstDiffBits temporarily swaps two keys of its argument slice and swaps them back (transient write to a shared argument)',
         edits=[('sigbits/firstdiff.go', '\tds := make([]int32, l-1)\n\tfor i := 0; i < l-1; i++ {\n\t\tds[i] = sFirstDiffBit(keys[i], keys[i+1])\n\t}', '\tds := make([]int32, l-1)\n\tfor i := 0; i < l-1; i++ {\n\t\tkeys[i], keys[i+1] = keys[i+1], keys[i]\n\t\tds[i] = sFirstDiffBit(keys[i+1], keys[i])\n\t\tkeys[i], keys[i+1] = keys[i+1], keys[i]\n\t}')]),
    dict(name='c19-indextopath-memo', props=['C19'],
         desc='IndexToPath gets an unsynchronised one-entry memo cache (last arguments / last result) at package scope',
         edits=[('bmtree/index.go', 'func IndexToPath(treeheight int32, index int32) uint64 {\n', 'func IndexToPath(treeheight int32, index int32) uint64 {\n\tif memoH == treeheight && memoI == index && memoOK {\n\t\treturn memoP\n\t}\n\tmemoOK = false\n\tmemoH, memoI = treeheight, index\n\tmemoP = indexToPath(treeheight, index)\n\tmemoOK = true\n\treturn memoP\n}\n\nvar (\n\tmemoH, memoI int32\n\tmemoP        uint64\n\tmemoOK       bool\n)\n\nfunc indexToPath(treeheight int32, index int32) uint64 {\n')]),
    dict(name='c19-rank-transient-mask', props=['C19'],
         desc='NextOne temporarily patches the shared RMask table entry and restores it (transient write to a package table)',
         edits=[('bitmap/next.go', '\tword := bm[wordIdx] & RMask[bitIdx]\n\tif word != 0 {\n\t\tnxt = wordIdx<<6', '\tsavedM := RMask[bitIdx]\n\tRMask[bitIdx] = savedM & bm[wordIdx]\n\tword := RMask[bitIdx]\n\tRMask[bitIdx] = savedM\n\tif word != 0 {\n\t\tnxt = wordIdx<<6')]),
]
