# Property-breaking edits used by run.py. Each edit is (file, exact old text, new text[, nth]);
# without nth the old text must occur exactly once in the file, with nth the nth (0-based)
# occurrence is replaced.
MUTANTS = [
    # ---- C01
    dict(name='c01-rank128-popcount-low56', props=['C01'],
         desc='Rank128 subtracts only the popcount of the low 56 bits of the current word on the right half',
         edits=[('bitmap/rank.go', 'cnt1 := int32(bits.OnesCount64(w))', 'cnt1 := int32(bits.OnesCount64(w << 8 >> 8))')]),
    dict(name='c01-indexrank128-drop-last', props=['C01'],
         desc='IndexRank128 omits the extra last entry for even word counts >= 6',
         edits=[('bitmap/rank.go', 'if len(words)&1 == 0 {', 'if len(words)&1 == 0 && len(words) < 6 {')]),
    # ---- C02 (survivors of the pinned suite named in the property text)
    dict(name='c02-select32-shift15', props=['C02'],
         desc='Select32 halving search shifts by 15 instead of 16',
         edits=[('bitmap/select.go', 'ww >>= 16', 'ww >>= 15', 0)]),
    dict(name='c02-select32r64-shift15', props=['C02'],
         desc='Select32R64 halving search shifts by 15 instead of 16',
         edits=[('bitmap/select.go', 'ww >>= 16', 'ww >>= 15', 1)]),
    dict(name='c02-select32-next1-minus', props=['C02'],
         desc='Select32 next-1 word scan computes wordI<<6 - tz',
         edits=[('bitmap/select.go', 'return a, wordI<<6 + int32(bits.TrailingZeros64(w))\n\t\t}\n\t}\n\treturn a, l << 6\n}\n\n// IndexSelect32R64',
                 'return a, wordI<<6 - int32(bits.TrailingZeros64(w))\n\t\t}\n\t}\n\treturn a, l << 6\n}\n\n// IndexSelect32R64')]),
    dict(name='c02-select32r64-last-one', props=['C02'],
         desc='Select32R64 returns 64*len-1 as the successor of the last 1-bit (tail never executed by the suite)',
         edits=[('bitmap/select.go', '\treturn a, l << 6\n}\n\n// indexSelectU64', '\treturn a, l<<6 - 1\n}\n\n// indexSelectU64')]),
    dict(name='c02-equiv-or-xor', props=['C02'], expect='silent',
         desc='EQUIVALENT edit: | -> ^ when joining the byte value with an in-byte rank < 8 (must stay silent)',
         edits=[('bitmap/select.go', 'select8Lookup[(ww&0xff)<<3|uint64(findIth)]', 'select8Lookup[(ww&0xff)<<3^uint64(findIth)]', 0)]),
]
MUTANTS += [
    # ---- C18 (both survive the pinned suite, named in the property text)
    dict(name='c18-write-cursor-backwards', props=['C18'],
         desc='Write moves the cursor backwards: s.off -= int64(n)',
         edits=[('iohelper/iohelper.go', 's.off += int64(n)', 's.off -= int64(n)')]),
    dict(name='c18-seek-start-minus-base', props=['C18'],
         desc='Seek(SeekStart) subtracts the base instead of adding it',
         edits=[('iohelper/iohelper.go', 'offset += s.base', 'offset -= s.base')]),
    dict(name='c18-writeat-limit-off-by-one', props=['C18'],
         desc='WriteAt accepts off == size (writes one byte past the section when base > 0 ... at the limit)',
         edits=[('iohelper/iohelper.go', 'if off < 0 || off >= s.limit-s.base {', 'if off < 0 || off > s.limit-s.base {')]),
    dict(name='c18-write-advance-before-write', props=['C18'],
         desc='cursor advanced by the requested length before the underlying write reports how much it took',
         edits=[('iohelper/iohelper.go', 'n, err2 := s.w.WriteAt(p, s.off)\n\ts.off += int64(n)', 's.off += int64(len(p))\n\tn, err2 := s.w.WriteAt(p, s.off-int64(len(p)))')]),
]
MUTANTS += [
    # ---- C19
    dict(name='c19-sigbits-scratch-hoisted', props=['C19'],
         desc='get64Bits scratch buffer hoisted from a local to package scope (shared between callers)',
         edits=[('sigbits/firstdiff.go', '\t\tbs := make([]byte, 8)\n\t\tcopy(bs, s)', '\t\tbs := scratch64[:]\n\t\tfor i := range bs {\n\t\t\tbs[i] = 0\n\t\t}\n\t\tcopy(bs, s)'),
                ('sigbits/firstdiff.go', '', '\nvar scratch64 [8]byte\n')]),
    dict(name='c19-join-masks-in-place', props=['C19'],
         desc='Join normalises its argument in place (subs[i] &= Mask[size]) before packing',
         edits=[('bitmap/join.go', '\t\tr[j>>6] |= (e & Mask[size]) << uint(j&63)\n', '\t\tsubs[i] = e & Mask[size]\n\t\tr[j>>6] |= subs[i] << uint(j&63)\n')]),
    dict(name='c19-firstdiff-transient-arg-write', props=['C19'],
         desc='FirstDiffBits temporarily swaps two keys of its argument slice and swaps them back (transient write to a shared argument)',
         edits=[('sigbits/firstdiff.go', '\tds := make([]int32, l-1)\n\tfor i := 0; i < l-1; i++ {\n\t\tds[i] = sFirstDiffBit(keys[i], keys[i+1])\n\t}', '\tds := make([]int32, l-1)\n\tfor i := 0; i < l-1; i++ {\n\t\tkeys[i], keys[i+1] = keys[i+1], keys[i]\n\t\tds[i] = sFirstDiffBit(keys[i+1], keys[i])\n\t\tkeys[i], keys[i+1] = keys[i+1], keys[i]\n\t}')]),
    dict(name='c19-indextopath-memo', props=['C19'],
         desc='IndexToPath gets an unsynchronised one-entry memo cache (last arguments / last result) at package scope',
         edits=[('bmtree/index.go', 'func IndexToPath(treeheight int32, index int32) uint64 {\n', 'func IndexToPath(treeheight int32, index int32) uint64 {\n\tif memoH == treeheight && memoI == index && memoOK {\n\t\treturn memoP\n\t}\n\tmemoOK = false\n\tmemoH, memoI = treeheight, index\n\tmemoP = indexToPath(treeheight, index)\n\tmemoOK = true\n\treturn memoP\n}\n\nvar (\n\tmemoH, memoI int32\n\tmemoP        uint64\n\tmemoOK       bool\n)\n\nfunc indexToPath(treeheight int32, index int32) uint64 {\n')]),
    dict(name='c19-rank-transient-mask', props=['C19'],
         desc='NextOne temporarily patches the shared RMask table entry and restores it (transient write to a package table)',
         edits=[('bitmap/next.go', '\tword := bm[wordIdx] & RMask[bitIdx]\n\tif word != 0 {\n\t\tnxt = wordIdx<<6', '\tsavedM := RMask[bitIdx]\n\tRMask[bitIdx] = savedM & bm[wordIdx]\n\tword := RMask[bitIdx]\n\tRMask[bitIdx] = savedM\n\tif word != 0 {\n\t\tnxt = wordIdx<<6')]),
]
MUTANTS += [
    # ---- C03
    dict(name='c03-debug-contract-overstrict', props=['C03'],
         desc='debug-only path contract rejects bit 29 (0xe0000000e0000000): panics on valid height-30 paths, only in a -tags debug build',
         edits=[('bmtree/pathcheck.go', '0xc0000000c0000000', '0xe0000000e0000000')]),
    dict(name='c03-shiftmulti-shift', props=['C03'],
         desc='shiftMulti forgets to reduce the shift by the first run of trailing zeros when b is even and large (shift -= n dropped for n >= 16)',
         edits=[('bmtree/partial_tree.go', '\tn := bits.TrailingZeros64(b)\n\tb >>= uint(n)\n\tshift -= uint64(n)\n', '\tn := bits.TrailingZeros64(b)\n\tb >>= uint(n)\n\tif n < 16 {\n\t\tshift -= uint64(n)\n\t}\n')]),
    # ---- C04
    dict(name='c04-equiv-continue', props=['C04'], expect='silent',
         desc='EQUIVALENT edit: AllPaths continues instead of returning at the first path >= to (later paths are all larger; must stay silent)',
         edits=[('bmtree/allpaths.go', '\t\t\tif p >= to {\n\t\t\t\treturn paths\n\t\t\t}', '\t\t\tif p >= to {\n\t\t\t\tcontinue\n\t\t\t}')]),
    # ---- C05
    dict(name='c05-diffbits-low16', props=['C05'],
         desc='IndexToPath computes the common prefix of index-height and index from the low 16 bits only (wrong when a carry changes higher bits; heights <= 6 of the suite never get there)',
         edits=[('bmtree/index.go', 'bits.LeadingZeros32(uint32(i1^i2))', 'bits.LeadingZeros32(uint32(uint16(i1^i2)))')]),
    # ---- C08
    dict(name='c08-firstdiff-empty-b', props=['C08'],
         desc='FirstDiff does not clamp end to an empty b (indexes past the end of b)',
         edits=[('bitword/bitword.go', '\tif end > lb {\n\t\tend = lb\n\t}', '\tif end > lb && lb > 0 {\n\t\tend = lb\n\t}')]),
    dict(name='c08-equiv-end-negative', props=['C08'], expect='silent',
         desc='EQUIVALENT edit inside the statement\'s domain: end < 0 instead of end == -1 (end < -1 is outside the domain; must stay silent)',
         edits=[('bitword/bitword.go', 'if end == -1 {', 'if end < 0 {')]),
    # ---- C10
    # ---- C11
    # ---- C12
    dict(name='c12-builder-extend-bitend', props=['C12'],
         desc='Builder.Extend uses bitEnd > size: a last position equal to size does not extend the words',
         edits=[('bitmap/builder.go', 'if bitEnd >= size {', 'if bitEnd > size {')]),
    # ---- C13 (the word-stepping loop whose every mutant survives the suite)
    dict(name='c13-nextone-step-minus', props=['C13'],
         desc='NextOne word scan returns i - TrailingZeros',
         edits=[('bitmap/next.go', 'nxt = i + int32(bits.TrailingZeros64(word))', 'nxt = i - int32(bits.TrailingZeros64(word))')]),
    dict(name='c13-nextone-step-128', props=['C13'],
         desc='NextOne word scan steps by 128 bits (skips every other word)',
         edits=[('bitmap/next.go', 'for ; i < end; i += 64 {', 'for ; i < end; i += 128 {')]),
    dict(name='c13-prevone-step', props=['C13'],
         desc='PrevOne backward scan steps by 65',
         edits=[('bitmap/next.go', 'for ; end >= i; end -= 64 {', 'for ; end >= i; end -= 65 {')]),
    # ---- C14
    # ---- C16 / C17
    dict(name='c17-shard-no-restart', props=['C17'], expect='silent',
         desc='NOT a violation of the statement: ShardByPrefix does not restart the split list when a shorter common prefix appears - it only splits into more (still bounded, still exactly-prefixed, still ordered) shards; must stay silent',
         edits=[('sigbits/sharding.go', '\t\t\t\tendsAt = endsAt[0:0]\n', '')]),
    # ---- C20
    # ---- C09
    dict(name='c09-strcmpupto-regression', props=['C09'],
         desc='the repair of StrCmpUpto is reverted (capacity word read from the frame again)',
         edits=[('bitstr/bitstr.go', 'return CmpUpto(*(*[]byte)(unsafe.Pointer(&h)), b)', '_ = h\n\treturn CmpUpto(*(*[]byte)(unsafe.Pointer(&a)), b)')]),
    # ---- C15 (survivors named in the property text + a wrong "repair" of the reclaim block)
    dict(name='c15-get-offset-le', props=['C15'],
         desc='TailBitmap.Get1 uses idx <= Offset',
         edits=[('bitmap/tailbitmap.go', '\tif idx < tb.Offset {\n\t\treturn 1\n\t}', '\tif idx <= tb.Offset {\n\t\treturn 1\n\t}')]),
    dict(name='c15-get-shift7', props=['C15'],
         desc='TailBitmap.Get indexes Words with idx>>7',
         edits=[('bitmap/tailbitmap.go', 'return tb.Words[idx>>6] & Bit[idx&63]', 'return tb.Words[idx>>7] & Bit[idx&63]')]),
    dict(name='c15-reclaim-truncates', props=['C15'],
         desc='the reclaim block is "repaired" to assign the new slice, but sized one word short',
         edits=[('bitmap/tailbitmap.go', '\t\tcopy(newWords, tb.Words)\n\t\ttb.reclaimed = tb.Offset', '\t\tcopy(newWords, tb.Words)\n\t\tif l > 1 {\n\t\t\ttb.Words = newWords[:l-1]\n\t\t}\n\t\ttb.reclaimed = tb.Offset')]),
    # ---- C06 / C07
    dict(name='c06-unmarshal-buffered-reader', props=['C06'],
         desc='Unmarshal wraps the reader in a bufio.Reader (reads ahead past the frame: the next frame in the stream is lost)',
         edits=[('pbcmpl/pbcmpl.go', 'func Unmarshal(r io.Reader, msg proto.Message) (int64, string, error) {\n', 'func Unmarshal(r0 io.Reader, msg proto.Message) (int64, string, error) {\n\tr := bufio.NewReaderSize(r0, 64)\n'),
                ('pbcmpl/pbcmpl.go', 'import (\n\t"bytes"', 'import (\n\t"bufio"\n\t"bytes"')]),
    dict(name='c06-verstr-strips-spaces', props=['C06'],
         desc='verStr also strips trailing spaces of the version',
         edits=[('pbcmpl/pbcmpl.go', 'i >= 0 && buf[i] == 0; i--', "i >= 0 && (buf[i] == 0 || buf[i] == ' '); i--")]),
    dict(name='c07-eager-limit-regression', props=['C07'],
         desc='the eager-allocation limit of the repair is raised to 2^40 (declared sizes up to 1 TiB are allocated before reading again)',
         edits=[('pbcmpl/pbcmpl.go', 'const maxEagerBody = 1 << 20', 'const maxEagerBody = 1 << 40')]),
    dict(name='c07-untrusted-eof-mapping', props=['C07'],
         desc='the incremental read path reports io.EOF instead of io.ErrUnexpectedEOF for a body cut short',
         edits=[('pbcmpl/pbcmpl.go', '\tif err == io.EOF && nbody > 0 {\n\t\terr = io.ErrUnexpectedEOF\n\t}\n', '')]),
    dict(name='c0607-equiv-single-write', props=['C06', 'C07'], expect='silent',
         desc='EQUIVALENT edit: Marshal emits header and body with one Write when the body is empty... (no: always two writes, but skips the empty body write) must stay silent',
         edits=[('pbcmpl/pbcmpl.go', '\tn2, err := w.Write(d)\n', '\tif len(d) == 0 {\n\t\treturn int64(n), nil\n\t}\n\tn2, err := w.Write(d)\n')]),
]

MUTANTS += [
    # ---- second batch: subtler edits that survive the pinned suite
    dict(name='c11-pathsof-prev-zero', props=['C11'],
         desc='PathsOf starts its dedup memory at 0 and compares the first path with it too (undoes part of the repair 6d17ed3): a first key whose path is the root word 0 is dropped',
         edits=[('bmtree/newpath.go', 'prev := ^uint64(0)', 'prev := uint64(0)'),
                ('bmtree/newpath.go', '!dedup || i == 0 || p != prev', '!dedup || i < 0 || p != prev')]),
    dict(name='c20-revert-nan-key-fix', props=['C20'],
         desc='undoes the tenth repair (bd5258a): the values of map entries whose key is NaN are not counted again',
         edits=[('size/sizeof.go', 'if !v.MapIndex(it.Key()).IsValid() {', 'if false && !v.MapIndex(it.Key()).IsValid() {')]),
    dict(name='c11-equiv-tobyte', props=['C11'], expect='silent',
         desc='EQUIVALENT edit: toByte rounded with +8 (the extra byte is shifted out; must stay silent)',
         edits=[('bitmap/fromstr32.go', 'toByte := tobit>>3 + (tobit&7+7)>>3', 'toByte := tobit>>3 + (tobit&7+8)>>3')]),
    dict(name='c14-getw-mask-mod64', props=['C14'],
         desc='Getw masks with Mask[w&63] (width 64 reads 0; widths 4, 8, 16, 64 are never executed by the suite)',
         edits=[('bitmap/get.go', '& Mask[w]', '& Mask[w&63]')]),
    dict(name='c16-countprefixes-ignores-start', props=['C16'],
         desc='SigBits.CountPrefixes slices the differences from 0 instead of keyStart (the suite always starts at key 0)',
         edits=[('sigbits/sigbits_countprefixes.go', 'sb.sigbits[keyStart:keyEnd-1]', 'sb.sigbits[0:keyEnd-1]')]),
    dict(name='c17-equiv-last-key-length', props=['C17'], expect='silent',
         desc='EQUIVALENT edit: ShardByPrefix starts the prefix-length minimum from the last key of the shard instead of the first (every adjacent common prefix is at most either length; must stay silent)',
         edits=[('sigbits/sharding.go', '\t\t\tmin := int32(len(keys[s]))\n\t\t\tfor i := s; i < e-1; i++ {', '\t\t\tmin := int32(len(keys[e-1]))\n\t\t\tfor i := s; i < e-1; i++ {')]),
    dict(name='c20-string-in-array', props=['C20'],
         desc='size.Of counts strings inside arrays by their header only',
         edits=[('size/sizeof.go', '\tcase reflect.Slice, reflect.Array:\n\t\tfor i, n := 0, v.Len(); i < n; i++ {\n\t\t\ts := sizeof(v.Index(i))\n\t\t\tsum += s\n\t\t}\n\n\tcase reflect.String:', '\tcase reflect.Slice, reflect.Array:\n\t\tfor i, n := 0, v.Len(); i < n; i++ {\n\t\t\ts := sizeof(v.Index(i))\n\t\t\tif v.Kind() == reflect.Array && v.Index(i).Kind() == reflect.String {\n\t\t\t\ts = stringsize\n\t\t\t}\n\t\t\tsum += s\n\t\t}\n\n\tcase reflect.String:')]),
    dict(name='c09-cmpupto-le', props=['C09'],
         desc='CmpUpto takes the short-key branch also when the key is exactly as long as the payload (skips the masking of the last byte)',
         edits=[('bitstr/bitstr.go', 'if la < lb-1 {', 'if la <= lb-1 {')]),
]
MUTANTS += [
    # ---- fatal failures of the code under test (cannot be recovered like a panic)
]
MUTANTS += [
    dict(name='c19-lazy-table-published-early', props=['C19'],
         desc='IndexToPath reads its lookup table through a lazily built copy whose ready flag and pointer are published BEFORE it is filled (only a first-use interleaving sees the half-built table; warm code is unaffected)',
         edits=[('bmtree/index.go', 'p2 = (p2 >> 1) | idxToPath[mask&15][index]', 'p2 = (p2 >> 1) | idxTable()[mask&15][index]'),
                ('bmtree/index.go', '', '\nvar (\n\tlazyIdx      [][]uint64\n\tlazyIdxReady bool\n)\n\nfunc idxTable() [][]uint64 {\n\tif !lazyIdxReady {\n\t\tlazyIdxReady = true\n\t\tt := make([][]uint64, len(idxToPath))\n\t\tlazyIdx = t\n\t\tfor i := range idxToPath {\n\t\t\tt[i] = append([]uint64(nil), idxToPath[i]...)\n\t\t}\n\t}\n\treturn lazyIdx\n}\n')]),
]
MUTANTS += [
    dict(name='c19-equiv-parallel-decode', props=['C19', 'C04'], expect='silent',
         desc='CORRECT edit: Decode filters the second half of the paths in a goroutine of its own and joins (no shared writes); the scheduler must let the foreign goroutine run free - must stay silent',
         edits=[('bmtree/decode.go', '\tfor _, p := range paths {\n\t\tidx := PathToIndex(bitmapSize, p)\n\n\t\twordI := idx >> 6\n\n\t\tif int32(len(bm)) > wordI && bm[wordI]&(1<<uint(idx&63)) != 0 {\n\t\t\trst = append(rst, p)\n\t\t}\n\t}\n\treturn rst',
                 '\tfilter := func(ps []uint64) []uint64 {\n\t\tout := make([]uint64, 0)\n\t\tfor _, p := range ps {\n\t\t\tidx := PathToIndex(bitmapSize, p)\n\t\t\twordI := idx >> 6\n\t\t\tif int32(len(bm)) > wordI && bm[wordI]&(1<<uint(idx&63)) != 0 {\n\t\t\t\tout = append(out, p)\n\t\t\t}\n\t\t}\n\t\treturn out\n\t}\n\thalf := len(paths) / 2\n\tdone := make(chan []uint64)\n\tgo func() { done <- filter(paths[half:]) }()\n\trst = append(rst, filter(paths[:half])...)\n\trst = append(rst, <-done...)\n\treturn rst')]),
]
MUTANTS += [
    # ---- visible only on a 32-bit build (uint is 32 bits): found by the GOARCH=386 pass
    dict(name='w32-c01-onescount-uint', props=['C01'],
         desc='IndexRank64 counts with bits.OnesCount(uint(w)): identical on amd64, drops bits 32..63 where uint is 32 bits',
         edits=[('bitmap/rank.go', 'n += int32(bits.OnesCount64(words[i]))', 'n += int32(bits.OnesCount(uint(words[i])))', 0)]),
    dict(name='w32-c13-nextone-trailingzeros-uint', props=['C13'],
         desc='NextOne locates the bit with bits.TrailingZeros(uint(word)): wrong on 32-bit builds when the next 1-bit is in the upper half of its word',
         edits=[('bitmap/next.go', 'nxt = wordIdx<<6 + int32(bits.TrailingZeros64(word))', 'nxt = wordIdx<<6 + int32(bits.TrailingZeros(uint(word)))')]),
    dict(name='w32-c16-firstdiff-leadingzeros-uint', props=['C16'],
         desc='FirstDiffBits uses bits.LeadingZeros(uint(x)) on the 8-byte chunk difference: on 32-bit builds the upper half is cut off',
         edits=[('sigbits/firstdiff.go', 'first := bits.LeadingZeros64(au ^ bu)', 'first := bits.LeadingZeros(uint(au ^ bu))')]),
]
MUTANTS += [
    # ---- reverted repairs of the int32-top defects (visible only on bitmaps of 2^25 words / strings of 2^28 bytes)
    dict(name='c01-revert-rank128-overflow-fix', props=['C01'],
         desc='Rank128 indexes with (i+64)>>7 again: panics for i >= 2^31-64 on a bitmap of 2^25 words',
         edits=[('bitmap/rank.go', 'n := rindex[(wordI+1)>>1]', 'n := rindex[(i+64)>>7]')]),
    dict(name='c12-revert-toarray-int64-fix', props=['C12'],
         desc='ToArray bounds its loop with int32(len(words)*64) again: empty result for a bitmap of 2^25 words',
         edits=[('bitmap/toarray.go', 'l := int64(len(words)) * 64\n\n\tfor i := int64(0); i < l; i++ {', 'l := int64(int32(len(words) * 64))\n\n\tfor i := int64(0); i < l; i++ {')]),
    dict(name='c12-revert-of-int64-fix', props=['C12'],
         desc='Of adds 1 to the last position in int32 again: wraps for the last position MaxInt32',
         edits=[('bitmap/of.go', 'max := int64(bitPositions[len(bitPositions)-1]) + 1', 'max := int64(bitPositions[len(bitPositions)-1] + 1)')]),
    dict(name='c11-revert-fromstr32-bitcount-fix', props=['C11'],
         desc='FromStr32 computes the remaining bit count in int32 again: wraps for strings of 2^28 bytes',
         edits=[('bitmap/fromstr32.go', 'rest := int64(len(s))<<3 - int64(frombit)', 'rest := int64(int32(len(s)<<3) - frombit)')]),
]
MUTANTS += [
    # ---- reverted repair of PathsOf (6d17ed3)
    dict(name='c11-revert-pathsof-first-key-fix', props=['C11'],
         desc='PathsOf compares the first path with the placeholder ^uint64(0) again: a first key of 32 one-bits at height 32 is dropped',
         edits=[('bmtree/newpath.go', 'if !dedup || i == 0 || p != prev {', 'if !dedup || p != prev {'),
                ('bmtree/newpath.go', 'for i, s := range keys {', 'for _, s := range keys {')]),
    # ---- nil special cases ("do not allocate for a nil argument"): the EMPTY input in the form of a nil slice
    dict(name='c02-nilguard-indexselect32r64', props=['C02'],
         desc='IndexSelect32R64 returns (nil, nil) for a nil bitmap: the one-entry rank index is missing',
         edits=[('bitmap/select.go', 'func IndexSelect32R64(words []uint64) ([]int32, []int32) {\n', 'func IndexSelect32R64(words []uint64) ([]int32, []int32) {\n\tif words == nil {\n\t\treturn nil, nil\n\t}\n')]),
    dict(name='c12-nilguard-of', props=['C12'],
         desc='Of returns nil for a nil position list, forgetting the requested size n',
         edits=[('bitmap/of.go', 'func Of(bitPositions []int32, opts ...int32) []uint64 {\n', 'func Of(bitPositions []int32, opts ...int32) []uint64 {\n\tif bitPositions == nil {\n\t\treturn nil\n\t}\n')]),
    dict(name='c12-nilguard-extend', props=['C12'],
         desc='Builder.Extend returns at once for a nil position list, without advancing Offset by size',
         edits=[('bitmap/builder.go', 'func (b *Builder) Extend(bitPositions []int32, size int32) {\n', 'func (b *Builder) Extend(bitPositions []int32, size int32) {\n\tif bitPositions == nil {\n\t\treturn\n\t}\n')]),
    dict(name='c18-nilguard-write', props=['C18'],
         desc='Write(nil) returns (0, nil) even when the cursor is at or beyond the section end',
         edits=[('iohelper/iohelper.go', 'func (s *SectionWriter) Write(p []byte) (n int, err error) {\n', 'func (s *SectionWriter) Write(p []byte) (n int, err error) {\n\tif p == nil {\n\t\treturn 0, nil\n\t}\n')]),
    dict(name='c18-nilguard-writeat', props=['C18'],
         desc='WriteAt(nil, off) returns (0, nil) even when off lies outside the section',
         edits=[('iohelper/iohelper.go', 'func (s *SectionWriter) WriteAt(p []byte, off int64) (n int, err error) {\n', 'func (s *SectionWriter) WriteAt(p []byte, off int64) (n int, err error) {\n\tif p == nil {\n\t\treturn 0, nil\n\t}\n')]),
]
