package props

import (
	"fmt"
	"sort"

	"github.com/openacid/low/bmtree"

	"verif/gen"
	"verif/mc"
	"verif/ref"
)

// C04: AllPaths / Decode against the filtered node list of the pre-order walk.

type c04Case struct {
	Mask int32     `json:"mask"`
	From gen.U64   `json:"from"`
	To   gen.U64   `json:"to"`
	BM   gen.Words `json:"bm,omitempty"`
	// Shape names a generated bitmap over a very tall mask: "all" (every stored node) or "sampled"
	Shape string `json:"shape,omitempty"`
}

func init() {
	mc.Register(&mc.Property{
		ID:       "C04",
		Word32:   true,
		DebugTag: true,
		Level:    "exploration",
		Rule: "E1 bounded-exhaustive enumeration: AllPaths on every level mask of height ≤H × every ordered pair (from,to) of the boundary set {p, p-1, p+1, p with a flipped mask bit, p with a flipped search bit | every node p, stored or not} ∪ {0, 2^32-1, 2^32, 2^63, 2^64-1} (heights above H with the pair set {p, p±1}²), oracle = stored nodes of the recursive walk, sorted, filtered by from ≤ p < to; " +
			"tall sparse masks up to height 30 with narrow windows around a path family, oracle = stored prefixes of the integers in the window (cross-checked against the walk on small heights). " +
			"Decode on every mask with ≤16 stored nodes × every subset × bitmap shapes {exact, no words, extra words, garbage in bits ≥ size}, on masks up to height 8 with empty/full/singleton/pair subsets, and on multi-word masks of heights 7..9 (thorough 11; leaf-only, full, leaf + one level) with singletons and pairs of indexes next to word boundaries at EVERY bitmap length; oracle = i-th stored node of the walk for every set bit i < size; on 9 masks of EVERY height 16..20 (thorough 22; leaf-only, full, leaf + root / middle level / both, every other level, top three levels, full without the root / without the level above the leaves: 10^5..10^7 stored nodes) the bitmap of all stored nodes and a sampled bitmap (first and last 70 indexes, around every 1/16th and every power of two from either end). " +
			"A case is one call; non-trivial when the expected output is neither empty nor the complete node list.",
		Assumptions: []string{
			"complete over (from,to) only on the boundary set; tall masks only with windows that keep the output small",
		},
		Run:   c04Run,
		Judge: mc.JudgeOf(c04Judge),
	})
}

func allPaths(mask int32, from, to uint64) (r []uint64, p string) {
	defer func() {
		if e := recover(); e != nil {
			p = fmt.Sprint("panic: ", e)
		}
	}()
	return bmtree.AllPaths(mask, from, to), ""
}

func decode(mask int32, bm []uint64) (r []uint64, p string) {
	defer func() {
		if e := recover(); e != nil {
			p = fmt.Sprint("panic: ", e)
		}
	}()
	// The bitmap is handed over as a window into a larger, non-zero buffer: "words beyond len(bm)
	// reading as 0" is about the LENGTH; what lies in the spare capacity is not part of the bitmap.
	return bmtree.Decode(mask, gen.DirtyU64(bm, 20)), ""
}

func eqU64(a, b []uint64) bool {
	if len(a) != len(b) {
		return false
	}
	for i := range a {
		if a[i] != b[i] {
			return false
		}
	}
	return true
}

func hexs(a []uint64) string {
	s := "["
	for i, x := range a {
		if i > 0 {
			s += " "
		}
		s += fmt.Sprintf("%#x", x)
	}
	return s + "]"
}

// treeNodes returns all node path words and the stored ones (in walk order).
func treeNodes(mask int32) (all, stored []uint64) {
	ref.Walk(mask, func(path, _ uint64, _ int, _ int32, st bool) {
		all = append(all, path)
		if st {
			stored = append(stored, path)
		}
	})
	return
}

func boundarySet(all []uint64, rich bool) []uint64 {
	seen := map[uint64]bool{}
	var out []uint64
	add := func(v uint64) {
		if !seen[v] {
			seen[v] = true
			out = append(out, v)
		}
	}
	for _, p := range all {
		add(p)
		add(p - 1)
		add(p + 1)
		if rich {
			add(p ^ 1)
			add(p ^ 1<<32)
		}
	}
	if rich {
		for _, v := range []uint64{0, 1<<32 - 1, 1 << 32, 1 << 63, ^uint64(0)} {
			add(v)
		}
	}
	sort.Slice(out, func(i, j int) bool { return out[i] < out[j] })
	return out
}

func filterRange(sorted []uint64, from, to uint64) []uint64 {
	out := []uint64{}
	for _, p := range sorted {
		if p >= from && p < to {
			out = append(out, p)
		}
	}
	return out
}

// windowOracle lists the stored nodes of a (possibly tall) mask inside
// [from,to) from the definition: a node of depth l is the l-bit prefix of some
// full-length search value i, left-aligned; every node in the window has its
// search bits inside [from>>32, to>>32].
func windowOracle(mask int32, from, to uint64) []uint64 {
	h := ref.Height(mask)
	out := []uint64{}
	if from >= to {
		return out
	}
	lo, hi := from>>32, to>>32
	if max := uint64(1)<<uint(h) - 1; hi > max {
		hi = max
	}
	seen := map[uint64]bool{}
	for i := lo; i <= hi; i++ {
		for l := 0; l <= h; l++ {
			if !ref.Stored(mask, l) {
				continue
			}
			p := ref.PathWord(i>>uint(h-l), l, h)
			if p >= from && p < to && !seen[p] {
				seen[p] = true
				out = append(out, p)
			}
		}
		if i == ^uint64(0) {
			break
		}
	}
	sort.Slice(out, func(i, j int) bool { return out[i] < out[j] })
	return out
}

func c04Run(c *mc.Ctx) {
	fullH := c.Pick(5, 6) // complete (from,to) pairs over the rich boundary set
	slimH := c.Pick(6, 8) // pairs over {p, p±1}
	decH := c.Pick(6, 8)  // Decode empty/full/singletons/pairs
	c.Set("allpaths_full_pair_height", fullH)
	c.Set("allpaths_slim_pair_height", slimH)
	c.Set("decode_pair_height", decH)

	// ---- AllPaths, small heights
	type job struct {
		mask int32
		rich bool
	}
	var jobs []job
	for h := 0; h <= slimH; h++ {
		for m := int32(1) << uint(h); m < int32(2)<<uint(h); m++ {
			jobs = append(jobs, job{m, h <= fullH})
		}
	}
	c.Par(len(jobs), func(ji int) {
		if c.TooMany() {
			return
		}
		j := jobs[ji]
		all, stored := treeNodes(j.mask)
		sorted := append([]uint64(nil), stored...)
		sort.Slice(sorted, func(a, b int) bool { return sorted[a] < sorted[b] })
		bs := boundarySet(all, j.rich)
		c.Expect(int64(len(bs)) * int64(len(bs)))
		var evals, nontriv, cross int64
		for fi, from := range bs {
			for ti, to := range bs {
				want := filterRange(sorted, from, to)
				got, p := allPaths(j.mask, from, to)
				if p != "" || !eqU64(got, want) {
					c.Fail(int64(ji)<<32|int64(fi)<<16|int64(ti), "AllPaths", "AllPaths", c04Case{Mask: j.mask, From: gen.U64(from), To: gen.U64(to)}, p+hexs(got), hexs(want))
				}
				evals++
				if len(want) > 0 && len(want) < len(sorted) {
					nontriv++
				}
				// cross-check the window oracle used for tall masks
				if j.rich && (ti-fi <= 6 && fi-ti <= 1) {
					if w2 := windowOracle(j.mask, from, to); !eqU64(w2, want) {
						panic(fmt.Sprintf("harness: window oracle disagrees with the walk: mask=%#x from=%#x to=%#x %v vs %v", j.mask, from, to, hexs(w2), hexs(want)))
					}
					cross++
				}
			}
		}
		c.Count(evals, nontriv)
		c.Add("allpaths_calls", evals)
		c.Add("window_oracle_crosschecks", cross)
		if ji%41 == 3 {
			c.ForceSample(map[string]interface{}{"fn": "AllPaths", "mask": fmt.Sprintf("%#b", j.mask), "boundary_values": len(bs), "pairs": len(bs) * len(bs)})
		}
	})

	// ---- AllPaths, tall sparse masks with narrow windows
	type tjob struct {
		h    int
		mask int32
	}
	var tj []tjob
	for h := 8; h <= 30; h++ {
		top := int32(1) << uint(h)
		ms := []int32{top, top | 1, top | 1<<uint(h/2), top | 1 | 1<<uint(h-1), top | 2 | 1<<uint(h/3)}
		seen := map[int32]bool{}
		for _, m := range ms {
			if !seen[m] {
				seen[m] = true
				tj = append(tj, tjob{h, m})
			}
		}
	}
	deltas := []uint64{0, 1, 1 << 32, 3<<32 + 5}
	c.Par(len(tj), func(ti int) {
		if c.TooMany() {
			return
		}
		t := tj[ti]
		var evals, nontriv int64
		nodes := c03PathFamily(t.h)
		for ni, nd := range nodes {
			p := ref.PathWord(nd.prefix, nd.l, t.h)
			seenW := map[[2]uint64]bool{}
			for ai, a := range deltas {
				for bi, b := range deltas {
					from, to := p-a, p+b
					if from > p {
						from = 0
					}
					if to < p {
						to = ^uint64(0)
					}
					if seenW[[2]uint64{from, to}] {
						continue // clipped windows may coincide; cases stay distinct
					}
					seenW[[2]uint64{from, to}] = true
					c.Expect(1)
					want := windowOracle(t.mask, from, to)
					got, pp := allPaths(t.mask, from, to)
					if pp != "" || !eqU64(got, want) {
						c.Fail(1<<48|int64(ti)<<32|int64(ni)<<8|int64(ai*4+bi), "AllPaths", "AllPaths/tall", c04Case{Mask: t.mask, From: gen.U64(from), To: gen.U64(to)}, pp+hexs(got), hexs(want))
					}
					evals++
					if len(want) > 0 {
						nontriv++
					}
				}
			}
		}
		c.Count(evals, nontriv)
		c.Add("allpaths_tall_calls", evals)
		if t.h == 30 && t.mask&1 == 1 {
			nd := nodes[len(nodes)/3]
			p := ref.PathWord(nd.prefix, nd.l, t.h)
			c.ForceSample(map[string]interface{}{"fn": "AllPaths", "mask": fmt.Sprintf("%#b", t.mask), "from": fmt.Sprintf("%#x", p-1<<32), "to": fmt.Sprintf("%#x", p+3<<32+5), "expected": hexs(windowOracle(t.mask, p-1<<32, p+3<<32+5))})
		}
	})

	// ---- Decode: every subset for masks with ≤16 stored nodes
	var small []int32
	for m := int32(1); m <= 16; m++ {
		small = append(small, m)
	}
	type djob struct {
		mask     int32
		lo, hi   uint32
		subsetsN uint32
	}
	var dj []djob
	for _, m := range small {
		n := uint32(1) << uint(m)
		step := n
		if n > 4096 {
			step = 4096
		}
		for lo := uint32(0); lo < n; lo += step {
			dj = append(dj, djob{m, lo, lo + step, n})
		}
	}
	garbage := uint64(0xdeadbeefcafebabe)
	c.Par(len(dj), func(di int) {
		if c.TooMany() {
			return
		}
		d := dj[di]
		_, stored := treeNodes(d.mask)
		T := uint(d.mask)
		c.Expect(int64(d.hi-d.lo) * 4)
		var evals, nontriv int64
		for s := d.lo; s < d.hi; s++ {
			want := []uint64{}
			for i := uint(0); i < T; i++ {
				if s>>i&1 == 1 {
					want = append(want, stored[i])
				}
			}
			sort.Slice(want, func(a, b int) bool { return want[a] < want[b] })
			shapes := []struct {
				name string
				bm   []uint64
				want []uint64
			}{
				{"exact", []uint64{uint64(s)}, want},
				{"nowords", []uint64{}, []uint64{}},
				{"extra", []uint64{uint64(s), garbage}, want},
				{"garbage", []uint64{uint64(s) | ^uint64(0)<<T, ^uint64(0)}, want},
			}
			for si, sh := range shapes {
				got, p := decode(d.mask, sh.bm)
				if p != "" || !eqU64(got, sh.want) {
					c.Fail(2<<48|int64(di)<<32|int64(s-d.lo)<<4|int64(si), "Decode", "Decode", c04Case{Mask: d.mask, BM: sh.bm}, p+hexs(got), hexs(sh.want))
				}
				evals++
				if len(sh.want) > 0 && len(sh.want) < len(stored) {
					nontriv++
				}
			}
		}
		c.Count(evals, nontriv)
		c.Add("decode_calls", evals)
		if di%7 == 2 {
			s := d.lo + (d.hi-d.lo)/3
			c.ForceSample(map[string]interface{}{"fn": "Decode", "mask": fmt.Sprintf("%#b", d.mask), "bm": []string{fmt.Sprintf("%#x", s)}})
		}
	})

	c04DecodeTall(c, c.Pick(9, 11))
	c04DecodeVeryTall(c, c.Pick(20, 22))
	// ---- Decode: larger masks with empty / full / singletons / pairs (bitmaps of several words)
	var lj []int32
	for h := 4; h <= decH; h++ {
		for m := int32(1) << uint(h); m < int32(2)<<uint(h); m++ {
			if m > 16 {
				lj = append(lj, m)
			}
		}
	}
	c.Par(len(lj), func(li int) {
		if c.TooMany() {
			return
		}
		mask := lj[li]
		_, stored := treeNodes(mask)
		T := int(mask)
		nw := (T + 63) / 64
		var evals, nontriv int64
		c.Expect(2 + int64(T) + int64(T)*int64(T-1)/2)
		run := func(k int, idx []int) {
			bm := make([]uint64, nw)
			for _, i := range idx {
				bm[i>>6] |= 1 << uint(i&63)
			}
			want := make([]uint64, 0, len(idx))
			for _, i := range idx {
				want = append(want, stored[i])
			}
			sort.Slice(want, func(a, b int) bool { return want[a] < want[b] })
			// singletons and pairs alternate between the exact length and a truncated
			// bitmap that stops right after the highest set word
			if len(idx) > 0 && k%2 == 1 {
				bm = bm[:idx[len(idx)-1]>>6+1]
			}
			got, p := decode(mask, bm)
			if p != "" || !eqU64(got, want) {
				c.Fail(3<<48|int64(li)<<32|int64(k), "Decode", "Decode", c04Case{Mask: mask, BM: bm}, p+hexs(got), hexs(want))
			}
			evals++
			if len(idx) > 0 && len(idx) < T {
				nontriv++
			}
		}
		k := 0
		run(k, nil)
		k++
		allIdx := make([]int, T)
		for i := range allIdx {
			allIdx[i] = i
		}
		run(0, allIdx)
		for i := 0; i < T; i++ {
			run(k, []int{i})
			k++
		}
		for i := 0; i < T; i++ {
			for j := i + 1; j < T; j++ {
				run(k, []int{i, j})
				k++
			}
		}
		c.Count(evals, nontriv)
		c.Add("decode_calls", evals)
	})
}

// c04DecodeTall: multi-word masks (heights 7..H): leaf-only, full and leaf+one-level masks ×
// singletons and pairs of indexes next to word boundaries × EVERY bitmap length from "just
// long enough for the highest set bit" to one word more than the mask needs.
func c04DecodeTall(c *mc.Ctx, maxH int) {
	type job struct {
		mask int32
	}
	var jobs []job
	for h := 7; h <= maxH; h++ {
		top := int32(1) << uint(h)
		jobs = append(jobs, job{top}, job{top<<1 - 1})
		for j := 0; j < h; j++ {
			jobs = append(jobs, job{top | 1<<uint(j)})
		}
	}
	c.Par(len(jobs), func(ji int) {
		if c.TooMany() {
			return
		}
		mask := jobs[ji].mask
		_, stored := treeNodes(mask)
		T := int(mask)
		nw := (T + 63) / 64
		var idx []int
		seen := map[int]bool{}
		add := func(i int) {
			if i >= 0 && i < T && !seen[i] {
				seen[i] = true
				idx = append(idx, i)
			}
		}
		add(0)
		add(T - 1)
		for k := 1; k <= nw; k++ {
			add(64*k - 1)
			add(64 * k)
			add(64*k + 1)
		}
		sort.Ints(idx)
		var evals, nontriv int64
		run := func(set []int) {
			hi := set[len(set)-1]
			for l := hi>>6 + 1; l <= nw+1; l++ {
				bm := make([]uint64, l)
				want := make([]uint64, 0, len(set))
				for _, i := range set {
					bm[i>>6] |= 1 << uint(i&63)
					want = append(want, stored[i])
				}
				sort.Slice(want, func(a, b int) bool { return want[a] < want[b] })
				got, p := decode(mask, bm)
				if p != "" || !eqU64(got, want) {
					c.Fail(5<<48|int64(ji)<<32|evals, "Decode", "Decode/tall", c04Case{Mask: mask, BM: bm}, p+hexs(got), hexs(want))
				}
				evals++
				if l < nw {
					nontriv++
				}
			}
		}
		for a, i := range idx {
			run([]int{i})
			for _, j := range idx[a+1:] {
				run([]int{i, j})
			}
		}
		c.Count(evals, nontriv)
		c.Expect(evals)
		c.Add("decode_calls", evals)
		c.Add("decode_tall_calls", evals)
	})
}

// c04VeryTallBitmap: the indexes set in the generated bitmap of the given shape over T stored nodes.
func c04VeryTallIdx(T int, shape string) []int {
	if shape == "all" {
		idx := make([]int, T)
		for i := range idx {
			idx[i] = i
		}
		return idx
	}
	seen := map[int]bool{}
	var idx []int
	add := func(i int) {
		if i >= 0 && i < T && !seen[i] {
			seen[i] = true
			idx = append(idx, i)
		}
	}
	for i := 0; i < 70; i++ {
		add(i)
		add(T - 1 - i)
	}
	for k := 1; k < 16; k++ {
		for d := -2; d <= 2; d++ {
			add(int(int64(T)*int64(k)/16) + d)
		}
	}
	for b := uint(6); 1<<b < T; b++ {
		for d := -2; d <= 1; d++ {
			add(1<<b + d)
			add(T - 1<<b + d)
		}
	}
	sort.Ints(idx)
	return idx
}

// c04VeryTallOne: Decode of one generated bitmap over a mask of height 16..22 (10^5 .. 10^7 stored nodes):
// the tall partial trees on which PathToIndex leaves its small-operand paths.
func c04VeryTallOne(mask int32, shape string) (got, want string) {
	_, stored := treeNodes(mask)
	T := int(mask)
	idx := c04VeryTallIdx(T, shape)
	bm := make([]uint64, (T+63)/64)
	w := make([]uint64, 0, len(idx))
	for _, i := range idx {
		bm[i>>6] |= 1 << uint(i&63)
		w = append(w, stored[i])
	}
	sort.Slice(w, func(a, b int) bool { return w[a] < w[b] })
	g, p := decode(mask, bm)
	if p != "" {
		return p, fmt.Sprintf("%d paths", len(w))
	}
	if len(g) != len(w) {
		return fmt.Sprintf("%d paths", len(g)), fmt.Sprintf("%d paths", len(w))
	}
	for i := range w {
		if g[i] != w[i] {
			return fmt.Sprintf("path %d = %#x", i, g[i]), fmt.Sprintf("path %d = %#x", i, w[i])
		}
	}
	return "as expected", "as expected"
}

func c04DecodeVeryTall(c *mc.Ctx, maxH int) {
	type job struct {
		mask  int32
		shape string
	}
	var jobs []job
	for h := 16; h <= maxH; h++ {
		top := int32(1) << uint(h)
		full := top<<1 - 1
		for _, m := range []int32{top, full, top | 1, top | 1<<uint(h/2), top | 1<<uint(h/2) | 1, full & 0x55555555, top | top>>1 | top>>2, full &^ 1, full &^ (top >> 1)} {
			m |= top
			for _, sh := range []string{"all", "sampled"} {
				jobs = append(jobs, job{m, sh})
			}
		}
	}
	c.Expect(int64(len(jobs)))
	c.Par(len(jobs), func(ji int) {
		if c.TooMany() {
			return
		}
		j := jobs[ji]
		if g, w := c04VeryTallOne(j.mask, j.shape); g != w {
			c.Fail(6<<48|int64(ji), "DecodeVeryTall", "Decode/very-tall", c04Case{Mask: j.mask, Shape: j.shape}, g, w)
		}
		c.Count(1, 1)
		c.Add("decode_calls", 1)
		c.Add("decode_very_tall_calls", 1)
	})
}

func c04Judge(kind string, cs c04Case) (got, want string) {
	if kind == "DecodeVeryTall" {
		return c04VeryTallOne(cs.Mask, cs.Shape)
	}
	h := ref.Height(cs.Mask)
	switch kind {
	case "AllPaths":
		var w []uint64
		if h <= 16 {
			_, stored := treeNodes(cs.Mask)
			sort.Slice(stored, func(a, b int) bool { return stored[a] < stored[b] })
			w = filterRange(stored, uint64(cs.From), uint64(cs.To))
		} else {
			w = windowOracle(cs.Mask, uint64(cs.From), uint64(cs.To))
		}
		g, p := allPaths(cs.Mask, uint64(cs.From), uint64(cs.To))
		return p + hexs(g), hexs(w)
	case "Decode":
		_, stored := treeNodes(cs.Mask)
		w := []uint64{}
		for i := 0; i < int(cs.Mask); i++ {
			if i>>6 < len(cs.BM) && cs.BM[i>>6]>>uint(i&63)&1 == 1 {
				w = append(w, stored[i])
			}
		}
		sort.Slice(w, func(a, b int) bool { return w[a] < w[b] })
		g, p := decode(cs.Mask, []uint64(cs.BM))
		return p + hexs(g), hexs(w)
	}
	return "unknown kind " + kind, ""
}
