package props

import (
	"math"
	"fmt"
	"reflect"
	"strconv"
	"strings"
	"unsafe"
	"verif/gen"

	"github.com/openacid/low/size"

	"verif/mc"
	modelx "verif/props/c20x/model"
	modely "verif/props/c20y/model"
)

// C20: size.Of is the structural sum of a value's parts; Stat's first line agrees.
// Types are generated with reflect from the kind grammar; each value carries
// the size computed bottom-up WHILE BUILDING it from the statement's constants.

type c20Case struct {
	Path  []int  `json:"path"` // index into the deterministic enumeration: [type ordinal, value ordinal]
	Desc  string `json:"desc"`
	Depth int    `json:"depth"`
	Width int    `json:"width"`
}

func init() {
	mc.Register(&mc.Property{
		ID:    "C20",
		Level: "exploration",
		Rule: "E1 bounded-exhaustive enumeration of the kind grammar T ::= scalar | string | [k]T | []T | map[K]T | *T | interface{} | struct{T,…} built with reflect to depth 3 (thorough 4) (every depth-1 type, then W types spread over each level as elements of the next): all 17 scalar kinds (bool, int8..64, int, uint8..64, uint, uintptr, float32/64, complex64/128) at every leaf position of depth-1 composites, a 7-type leaf subset plus 9 types of the previous level for binary structs; arrays of 0 and 2 elements; struct arity 1 and 2; map keys string/int32/uint; " +
			"values per type from a shape alphabet (slices nil/empty/1/2 elements, maps nil/empty/1/2 entries, pointers nil/non-nil, interfaces nil/scalar/string/pointer/struct, strings \"\",\"a\",\"abc\" and 40 bytes; over leaf types also slices of 9, 70 and 1025 elements and maps of 9, 40 and 1000 entries; pointer values are deliberately REUSED in both elements of arrays and both fields of structs, so shared acyclic pointers occur). Oracle: the generator returns (value, size) and computes the size while building (headers 16/24/8/8/16, 8 for int/uint/uintptr; 64-bit platform asserted). size.Of on every value; Stat(v,d,m) for d in {0,1,3}, m in {0,1,10} and the AvgOf form: the number on the first line equals the expected size. " +
			"Plus element structs {A [L]T; B S} (L 0..3, T not scalar, S of 1 / 8 / 16 bytes) inside slices, arrays, maps and behind a pointer. Plus WIDE structs (7..257 fields, the last six a string, a []byte, a pointer, an interface, a map and an array; alone, in slices of 1..3, a [2] array and a map). Plus 34 hand-written values (16 of them deep: linked lists of 999..50001 nodes and interface/pointer chains of 1000..10000 boxes) (among them maps whose struct / array / interface keys differ in structural size) of Go types reflect cannot build (unexported and embedded fields, named types, padding, interior pointers of another type into the object being walked - to its first field or element and further in), and a SEQUENCE of 13 values of distinct types that print alike (seven local types all called props.rec, two package-level types both called model.Rec; in pairs also equal in Size and Kind), measured in order by one goroutine, forward then backward: nothing may be carried from one type to a like-named one; and a SEQUENCE on shared objects in which out-of-domain calls (a chan, a func, an unsafe.Pointer behind pointers: Of and Stat panic, the caller recovers) come between measurements of in-domain values that reach the same pointers: a recovered panic must leave nothing behind. Plus structs of 7..257 fields, element structs with array fields of non-scalar elements, and LONG arrays and slices: 21 lengths 0..4096 (around 8, 16, 32, 64, 128, 256) of uint8 / int8 / bool / uint16 / int64 / string elements by value, behind a pointer, as slice elements, as a struct field by value and behind a pointer, as a map value and as the dynamic value of an interface. Plus 13 ACYCLIC values that reach the same memory more than once (the same pointer / map / slice among siblings; prefix, middle and suffix sub-slices of a sibling and of an ANCESTOR slice with the same data pointer; an arena-allocated tree; shared string bytes): every path counts. Plus 10 maps with keys that are not equal to themselves (NaN in float, complex, struct, array and interface keys; two NaN keys in one map): the value of such an entry counts like any other. A case is one (value, function) pair; non-trivial when the type is composite.",
		Assumptions: []string{
			"64-bit platform (asserted at start)",
			"types deeper than D, struct arity > 2 and cyclic values are not generated (cycles are excluded by the statement)",
		},
		Run:   c20Run,
		Judge: mc.JudgeOf(c20Judge),
	})
}

type c20Val struct {
	v    reflect.Value
	size int
	desc string
}

type c20Type struct {
	t         reflect.Type
	vals      []c20Val
	composite bool
	// sequence: the values are measured in order by one goroutine, and a replayed case is
	// the whole sequence up to its value (state carried between calls is part of the case)
	sequence bool
	// pre[i], if any, runs before vals[i] is measured (sequence families only): it may change an object the
	// value points to and make calls whose outcome is not judged (c20AfterPanic)
	pre map[int]func()
}

var c20Iface = reflect.TypeOf((*interface{})(nil)).Elem()

func c20Scalars() []c20Type {
	mk := func(x interface{}, sz int) c20Type {
		v := reflect.ValueOf(x)
		return c20Type{t: v.Type(), vals: []c20Val{{v, sz, fmt.Sprintf("%s(%v)", v.Type(), x)}}}
	}
	return []c20Type{
		mk(true, 1), mk(int8(-3), 1), mk(int16(300), 2), mk(int32(-70000), 4), mk(int64(1)<<40, 8), mk(int(7), 8),
		mk(uint8(200), 1), mk(uint16(60000), 2), mk(uint32(1)<<31, 4), mk(uint64(1)<<63, 8), mk(uint(9), 8), mk(uintptr(11), 8),
		mk(float32(1.5), 4), mk(float64(2.5), 8), mk(complex64(1+2i), 8), mk(complex128(3+4i), 16),
	}
}

func c20String() c20Type {
	t := c20Type{t: reflect.TypeOf("")}
	for _, s := range []string{"", "a", "abc", "0123456789012345678901234567890123456789"} {
		t.vals = append(t.vals, c20Val{reflect.ValueOf(s), 16 + len(s), fmt.Sprintf("%q", s)})
	}
	return t
}

// c20InterfaceT is interface{} as a component type.
func c20InterfaceT() c20Type {
	t := c20Type{t: c20Iface, composite: true}
	add := func(x interface{}, inner int, d string) {
		v := reflect.New(c20Iface).Elem()
		if x != nil {
			v.Set(reflect.ValueOf(x))
		}
		t.vals = append(t.vals, c20Val{v, 16 + inner, "interface{" + d + "}"})
	}
	add(nil, 0, "nil")
	add(int64(5), 8, "int64(5)")
	add("ab", 16+2, `"ab"`)
	i32 := int32(4)
	add(&i32, 8+4, "&int32(4)")
	add(struct {
		A int8
		B string
	}{1, "xyz"}, 1+16+3, `struct{int8;string "xyz"}`)
	add(uint(3), 8, "uint(3)")
	return t
}

func pick(vals []c20Val) []c20Val {
	if len(vals) <= 2 {
		return vals
	}
	return []c20Val{vals[0], vals[len(vals)-1]}
}

// c20Unary builds every unary composite over elem.
func c20Unary(e c20Type) []c20Type {
	var out []c20Type
	pv := pick(e.vals)
	// arrays [0]T and [2]T
	{
		t := reflect.ArrayOf(0, e.t)
		out = append(out, c20Type{t: t, composite: true, vals: []c20Val{{reflect.New(t).Elem(), 0, "[0]" + e.t.String() + "{}"}}})
		t2 := reflect.ArrayOf(2, e.t)
		ct := c20Type{t: t2, composite: true}
		for _, a := range pv {
			for _, b := range pv {
				v := reflect.New(t2).Elem()
				v.Index(0).Set(a.v)
				v.Index(1).Set(b.v)
				ct.vals = append(ct.vals, c20Val{v, a.size + b.size, "[2]{" + a.desc + "," + b.desc + "}"})
			}
		}
		out = append(out, ct)
	}
	// slices
	{
		t := reflect.SliceOf(e.t)
		ct := c20Type{t: t, composite: true}
		ct.vals = append(ct.vals, c20Val{reflect.Zero(t), 24, "[]" + e.t.String() + "(nil)"})
		ct.vals = append(ct.vals, c20Val{reflect.MakeSlice(t, 0, 0), 24, "[]" + e.t.String() + "{}"})
		v1 := reflect.MakeSlice(t, 1, 3) // spare capacity must not count
		v1.Index(0).Set(pv[0].v)
		ct.vals = append(ct.vals, c20Val{v1, 24 + pv[0].size, "[]{" + pv[0].desc + "}"})
		a, b := pv[0], pv[len(pv)-1]
		v2 := reflect.MakeSlice(t, 2, 2)
		v2.Index(0).Set(a.v)
		v2.Index(1).Set(b.v)
		ct.vals = append(ct.vals, c20Val{v2, 24 + a.size + b.size, "[]{" + a.desc + "," + b.desc + "}"})
		if !e.composite || e.t == c20Iface {
			// long slices over leaf types: 9 and 70 elements cycling through the element values
			for _, n := range []int{9, 70, 1025} {
				v := reflect.MakeSlice(t, n, n)
				sz := 24
				for i := 0; i < n; i++ {
					a := e.vals[i%len(e.vals)]
					v.Index(i).Set(a.v)
					sz += a.size
				}
				ct.vals = append(ct.vals, c20Val{v, sz, fmt.Sprintf("[]%s{%d elements cycling through its values}", e.t, n)})
			}
		}
		out = append(out, ct)
	}
	// maps
	type key struct {
		k1, k2 reflect.Value
		s1, s2 int
	}
	keys := []key{
		{reflect.ValueOf("k1"), reflect.ValueOf("k22"), 18, 19},
		{reflect.ValueOf(int32(1)), reflect.ValueOf(int32(2)), 4, 4},
		{reflect.ValueOf(uint(1)), reflect.ValueOf(uint(2)), 8, 8},
	}
	for _, k := range keys {
		t := reflect.MapOf(k.k1.Type(), e.t)
		ct := c20Type{t: t, composite: true}
		ct.vals = append(ct.vals, c20Val{reflect.Zero(t), 8, t.String() + "(nil)"})
		ct.vals = append(ct.vals, c20Val{reflect.MakeMap(t), 8, t.String() + "{}"})
		a, b := pv[0], pv[len(pv)-1]
		m1 := reflect.MakeMap(t)
		m1.SetMapIndex(k.k1, a.v)
		ct.vals = append(ct.vals, c20Val{m1, 8 + k.s1 + a.size, t.String() + "{k1:" + a.desc + "}"})
		m2 := reflect.MakeMap(t)
		m2.SetMapIndex(k.k1, a.v)
		m2.SetMapIndex(k.k2, b.v)
		ct.vals = append(ct.vals, c20Val{m2, 8 + k.s1 + a.size + k.s2 + b.size, t.String() + "{k1:" + a.desc + ",k2:" + b.desc + "}"})
		if !e.composite || e.t == c20Iface {
			// 9 and 40 entries: beyond one 8-entry bucket of the runtime's map layout
			for _, n := range []int{9, 40, 1000} {
				m := reflect.MakeMap(t)
				sz := 8
				for i := 0; i < n; i++ {
					var kv reflect.Value
					ks := 0
					switch k.k1.Kind() {
					case reflect.String:
						key := fmt.Sprintf("key%04d", i)
						kv, ks = reflect.ValueOf(key), 16+len(key)
					case reflect.Int32:
						kv, ks = reflect.ValueOf(int32(100+i)), 4
					default:
						kv, ks = reflect.ValueOf(uint(100+i)), 8
					}
					av := e.vals[i%len(e.vals)]
					m.SetMapIndex(kv, av.v)
					sz += ks + av.size
				}
				ct.vals = append(ct.vals, c20Val{m, sz, fmt.Sprintf("%s{%d entries}", t, n)})
			}
		}
		out = append(out, ct)
	}
	// pointers
	{
		t := reflect.PtrTo(e.t)
		ct := c20Type{t: t, composite: true}
		ct.vals = append(ct.vals, c20Val{reflect.Zero(t), 8, "(*" + e.t.String() + ")(nil)"})
		for _, a := range pv {
			p := reflect.New(e.t)
			p.Elem().Set(a.v)
			ct.vals = append(ct.vals, c20Val{p, 8 + a.size, "&" + a.desc})
		}
		out = append(out, ct)
	}
	// struct{T}
	out = append(out, c20Struct(e))
	return out
}

func c20Struct(fs ...c20Type) c20Type {
	var sf []reflect.StructField
	for i, f := range fs {
		sf = append(sf, reflect.StructField{Name: fmt.Sprintf("F%d", i), Type: f.t})
	}
	t := reflect.StructOf(sf)
	ct := c20Type{t: t, composite: true}
	var rec func(i int, v reflect.Value, sz int, d string)
	rec = func(i int, v reflect.Value, sz int, d string) {
		if i == len(fs) {
			cp := reflect.New(t).Elem()
			cp.Set(v)
			ct.vals = append(ct.vals, c20Val{cp, sz, "struct{" + d + "}"})
			return
		}
		for _, a := range pick(fs[i].vals) {
			v.Field(i).Set(a.v)
			rec(i+1, v, sz+a.size, d+a.desc+";")
		}
	}
	rec(0, reflect.New(t).Elem(), 0, "")
	return ct
}

// Hand-written Go types the reflect-built grammar cannot produce: unexported and
// embedded fields, named (defined) types, padding between fields ("plain sum of
// the parts": padding does not count).
type c20MyInt int
type c20MyStr string
type c20MyBool bool
type c20Emb struct{ A int32 }
type c20Unexp struct {
	a int8
	b int64
	s c20MyStr
	p *int32
	i interface{}
	m map[c20MyStr]c20MyInt
	l []c20Emb
}

// c20Wide: WIDE structs (reflect.StructOf): W fields of which the first W-6 are int8 and the last six are a
// string, a []byte, a *int32, an interface{}, a map[string]int8 and a [2]string - for W around 8, 16, 32, 64,
// 128 and 256 - alone, as the elements of slices of 1, 2 and 3, of a [2] array and as a map value: a per-type
// plan that keeps one bit or one small counter per field has to survive more fields than it has room for.
func c20Wide() c20Type {
	t := c20Type{t: reflect.TypeOf(struct{ Wide int8 }{}), composite: true}
	i32 := int32(5)
	for _, W := range []int{7, 8, 9, 15, 16, 17, 31, 32, 33, 63, 64, 65, 66, 70, 127, 128, 129, 255, 256, 257} {
		var fs []reflect.StructField
		for i := 0; i < W-6; i++ {
			fs = append(fs, reflect.StructField{Name: fmt.Sprintf("F%d", i), Type: reflect.TypeOf(int8(0))})
		}
		tail := []interface{}{"abc", []byte("hello"), &i32, interface{}(int16(3)), map[string]int8{"k": 1}, [2]string{"x", "yz"}}
		tailSize := (16 + 3) + (24 + 5) + (8 + 4) + (16 + 2) + (8 + 16 + 1 + 1) + (16 + 1 + 16 + 2)
		types := []reflect.Type{reflect.TypeOf(""), reflect.TypeOf([]byte(nil)), reflect.TypeOf(&i32), c20Iface, reflect.TypeOf(map[string]int8(nil)), reflect.TypeOf([2]string{})}
		for i, ty := range types {
			fs = append(fs, reflect.StructField{Name: fmt.Sprintf("T%d", i), Type: ty})
		}
		st := reflect.StructOf(fs)
		mk := func(seed int) reflect.Value {
			v := reflect.New(st).Elem()
			for i := 0; i < W-6; i++ {
				v.Field(i).SetInt(int64((i + seed) % 100))
			}
			for i, x := range tail {
				v.Field(W - 6 + i).Set(reflect.ValueOf(x))
			}
			return v
		}
		one := (W - 6) + tailSize
		t.vals = append(t.vals, c20Val{mk(0), one, fmt.Sprintf("struct of %d fields, the last six not scalar", W)})
		for _, n := range []int{1, 2, 3} {
			sl := reflect.MakeSlice(reflect.SliceOf(st), n, n)
			for i := 0; i < n; i++ {
				sl.Index(i).Set(mk(i))
			}
			t.vals = append(t.vals, c20Val{sl, 24 + n*one, fmt.Sprintf("slice of %d structs of %d fields", n, W)})
		}
		arr := reflect.New(reflect.ArrayOf(2, st)).Elem()
		arr.Index(0).Set(mk(0))
		arr.Index(1).Set(mk(1))
		t.vals = append(t.vals, c20Val{arr, 2 * one, fmt.Sprintf("[2] array of structs of %d fields", W)})
		m := reflect.MakeMap(reflect.MapOf(reflect.TypeOf(int32(0)), st))
		m.SetMapIndex(reflect.ValueOf(int32(1)), mk(0))
		m.SetMapIndex(reflect.ValueOf(int32(2)), mk(1))
		t.vals = append(t.vals, c20Val{m, 8 + 2*(4+one), fmt.Sprintf("map[int32]struct of %d fields, 2 entries", W)})
	}
	return t
}

// c20ArrayFields: element structs {A [L]T; B S} with L in 0..3, T not scalar (string, pointer, interface, []byte,
// map) and S a scalar part of 1, 8 or 16 bytes, as the elements of a slice of 2, a [1] and a [2] array, a map
// value and behind a pointer to a [1] array: a "flat size of the element type" shortcut has to notice the
// non-scalar array field whatever the other field weighs.
func c20ArrayFields() c20Type {
	t := c20Type{t: reflect.TypeOf(struct{ ArrayField int8 }{}), composite: true}
	i32 := int32(9)
	type tv struct {
		x    interface{}
		size int
	}
	ts := []tv{{"abc", 16 + 3}, {&i32, 8 + 4}, {[]byte("hello"), 24 + 5}, {map[string]int8{"k": 1}, 8 + 16 + 1 + 1}}
	ss := []tv{{int8(7), 1}, {int64(7), 8}, {[16]byte{1}, 16}}
	for L := 0; L <= 3; L++ {
		for ti, T := range append(ts, tv{nil, 0}) {
			for _, S := range ss {
				var et reflect.Type
				var one reflect.Value
				esz := 0
				if ti == len(ts) { // interface{} elements holding an int16
					et = c20Iface
					one = reflect.ValueOf(int16(3))
					esz = 16 + 2
				} else {
					et = reflect.TypeOf(T.x)
					one = reflect.ValueOf(T.x)
					esz = T.size
				}
				st := reflect.StructOf([]reflect.StructField{
					{Name: "A", Type: reflect.ArrayOf(L, et)},
					{Name: "B", Type: reflect.TypeOf(S.x)},
				})
				mk := func() reflect.Value {
					v := reflect.New(st).Elem()
					for i := 0; i < L; i++ {
						v.Field(0).Index(i).Set(one)
					}
					v.Field(1).Set(reflect.ValueOf(S.x))
					return v
				}
				el := L*esz + S.size
				d := fmt.Sprintf("struct{A [%d]%v; B %v}", L, et, reflect.TypeOf(S.x))
				sl := reflect.MakeSlice(reflect.SliceOf(st), 2, 2)
				sl.Index(0).Set(mk())
				sl.Index(1).Set(mk())
				t.vals = append(t.vals, c20Val{sl, 24 + 2*el, "[]" + d + " of 2"})
				for _, n := range []int{1, 2} {
					arr := reflect.New(reflect.ArrayOf(n, st)).Elem()
					for i := 0; i < n; i++ {
						arr.Index(i).Set(mk())
					}
					t.vals = append(t.vals, c20Val{arr, n * el, fmt.Sprintf("[%d]%s", n, d)})
					if n == 1 {
						t.vals = append(t.vals, c20Val{arr.Addr(), 8 + el, "*[1]" + d})
					}
				}
				m := reflect.MakeMap(reflect.MapOf(reflect.TypeOf(int32(0)), st))
				m.SetMapIndex(reflect.ValueOf(int32(1)), mk())
				t.vals = append(t.vals, c20Val{m, 8 + 4 + el, "map[int32]" + d})
			}
		}
	}
	return t
}

// c20LongSeqs: arrays and slices of 0..4096 scalar (and string) elements in every position reflect treats
// differently - by value, behind a pointer (addressable), as a slice element, as a struct field by value
// and behind a pointer, as a map value, as the dynamic value of an interface: a bulk path for byte
// buffers, a length threshold, Bytes() / Slice() on addressable arrays.
func c20LongSeqs() c20Type {
	t := c20Type{t: reflect.TypeOf(struct{ LongSeq int8 }{}), composite: true}
	type ev struct {
		x    interface{}
		size int
	}
	es := []ev{{uint8(0xa5), 1}, {int8(-3), 1}, {true, 1}, {uint16(0xbeef), 2}, {int64(-9), 8}, {"ab", 16 + 2}}
	for _, L := range []int{0, 1, 7, 8, 15, 16, 31, 32, 33, 63, 64, 65, 100, 127, 128, 129, 255, 256, 257, 1000, 4096} {
		for _, e := range es {
			et := reflect.TypeOf(e.x)
			at := reflect.ArrayOf(L, et)
			mkArr := func() reflect.Value {
				a := reflect.New(at).Elem()
				for i := 0; i < L; i++ {
					a.Index(i).Set(reflect.ValueOf(e.x))
				}
				return a
			}
			body := L * e.size
			d := fmt.Sprintf("[%d]%v", L, et)
			arr := mkArr()
			t.vals = append(t.vals, c20Val{reflect.ValueOf(arr.Interface()), body, d + " by value"})
			t.vals = append(t.vals, c20Val{arr.Addr(), 8 + body, "*" + d})
			sl := reflect.MakeSlice(reflect.SliceOf(et), L, L)
			reflect.Copy(sl, arr)
			t.vals = append(t.vals, c20Val{sl, 24 + body, "[]" + et.String() + fmt.Sprintf(" of %d", L)})
			ps := reflect.New(sl.Type())
			ps.Elem().Set(sl)
			t.vals = append(t.vals, c20Val{ps, 8 + 24 + body, "*[]" + et.String() + fmt.Sprintf(" of %d", L)})
			s2 := reflect.MakeSlice(reflect.SliceOf(at), 2, 2)
			s2.Index(0).Set(arr)
			s2.Index(1).Set(arr)
			t.vals = append(t.vals, c20Val{s2, 24 + 2*body, "[]" + d + " of 2"})
			st := reflect.StructOf([]reflect.StructField{{Name: "A", Type: at}, {Name: "B", Type: reflect.TypeOf(int8(0))}})
			sv := reflect.New(st)
			sv.Elem().Field(0).Set(arr)
			sv.Elem().Field(1).Set(reflect.ValueOf(int8(5)))
			t.vals = append(t.vals, c20Val{reflect.ValueOf(sv.Elem().Interface()), body + 1, "struct{A " + d + "; B int8} by value"})
			t.vals = append(t.vals, c20Val{sv, 8 + body + 1, "*struct{A " + d + "; B int8}"})
			m := reflect.MakeMap(reflect.MapOf(reflect.TypeOf(int32(0)), at))
			m.SetMapIndex(reflect.ValueOf(int32(1)), arr)
			t.vals = append(t.vals, c20Val{m, 8 + 4 + body, "map[int32]" + d})
			it := reflect.StructOf([]reflect.StructField{{Name: "X", Type: c20Iface}})
			iv := reflect.New(it).Elem()
			iv.Field(0).Set(arr)
			t.vals = append(t.vals, c20Val{iv, 16 + body, "struct{X interface{}} holding " + d})
		}
	}
	return t
}

// c20Node is a tree node whose children live in a shared arena (see c20Shared).
type c20Node struct {
	v    int64
	kids []c20Node
}

// c20Shared: ACYCLIC values in which the same memory is reached more than once - a pointer, a map or a
// slice twice among siblings, sub-slices (prefix, suffix, middle) of a sibling or of an ANCESTOR slice with
// the same data pointer, an arena-allocated tree: the structural sum counts every path; nothing reached
// twice may be mistaken for a cycle or counted once.
func c20Shared() c20Type {
	t := c20Type{t: reflect.TypeOf(struct{ Shared int8 }{}), composite: true}
	add := func(x interface{}, sz int, d string) {
		t.vals = append(t.vals, c20Val{reflect.ValueOf(x), sz, d})
	}
	i64 := int64(5)
	add(struct{ P, Q *int64 }{&i64, &i64}, 2*(8+8), "the same pointer in two fields")
	add([]*int64{&i64, &i64, &i64}, 24+3*16, "the same pointer three times in a slice")
	m := map[string]int8{"k": 1}
	add([]map[string]int8{m, m}, 24+2*(8+16+1+1), "the same map twice in a slice")
	x := []int64{1, 2, 3, 4}
	add(struct{ A, B []int64 }{x, x[:2]}, 24+32+24+16, "a slice and its prefix as siblings")
	add(struct{ A, B []int64 }{x, x[2:]}, 24+32+24+16, "a slice and its suffix as siblings")
	add([][]int64{x, x[:1], x[1:3], x[3:], x}, 24+(24+32)+(24+8)+(24+16)+(24+8)+(24+32), "a slice, its prefix, middle, suffix and itself again")
	// a = [7, [7]]: element 1 holds the prefix a[:1] of its own ancestor - acyclic
	a := []interface{}{int64(7), nil}
	a[1] = a[:1]
	add(a, 24+(16+8)+(16+24+(16+8)), "[]interface{} whose element 1 is the prefix [:1] of itself")
	// b = [[..b[:1]..]]-like with three levels: b[2] = b[:2], b[1] = b[:1]
	b := []interface{}{int64(1), nil, nil}
	b[1] = b[:1]
	b[2] = b[:2]
	e0 := 16 + 8
	e1 := 16 + 24 + e0
	e2 := 16 + 24 + e0 + e1
	add(b, 24+e0+e1+e2, "[]interface{} with b[1] = b[:1], b[2] = b[:2]")
	// arena-allocated tree: root.kids = arena[:3], arena[2].kids = arena[:2], arena[1].kids = arena[:1]
	arena := make([]c20Node, 4)
	for i := range arena {
		arena[i].v = int64(i)
	}
	arena[1].kids = arena[:1]
	arena[2].kids = arena[:2]
	n0 := 8 + 24
	n1 := 8 + 24 + n0
	n2 := 8 + 24 + n0 + n1
	root := c20Node{v: 9, kids: arena[:3]}
	add(root, 8+24+n0+n1+n2, "arena tree: kids are prefixes of the arena the node itself lives in")
	add(&root, 8+8+24+n0+n1+n2, "pointer to the arena tree")
	// the same string (same bytes) in many places
	str := "shared-bytes"
	add([]string{str, str[:6], str[6:], str}, 24+(16+12)+(16+6)+(16+6)+(16+12), "a string, its prefix, suffix and itself again")
	return t
}

// c20NaNKeys: maps with keys that are not equal to themselves (NaN floats, alone and inside complex, struct,
// array and interface keys): such an entry cannot be looked up by its key, only iterated - its value counts
// like any other.
func c20NaNKeys() c20Type {
	t := c20Type{t: reflect.TypeOf(struct{ NaNKey int8 }{}), composite: true}
	add := func(x interface{}, sz int, d string) {
		t.vals = append(t.vals, c20Val{reflect.ValueOf(x), sz, d})
	}
	nan := math.NaN()
	add(map[float64]int64{nan: 1}, 8+8+8, "map[float64]int64 with a NaN key")
	add(map[float64]string{nan: "abcd", 1.5: "xy"}, 8+(8+16+4)+(8+16+2), "map[float64]string with a NaN key and an ordinary one")
	add(map[float32]int8{float32(nan): 1}, 8+4+1, "map[float32]int8 with a NaN key")
	add(map[complex128]int16{complex(nan, 0): 2}, 8+16+2, "map[complex128]int16 with a NaN real part")
	two := map[float64]int32{}
	two[nan] = 1
	two[nan] = 2
	add(two, 8+2*(8+4), "map[float64]int32 with two NaN keys")
	add(map[struct{ F float64 }]int8{{nan}: 1}, 8+8+1, "struct key with a NaN field")
	add(map[[2]float64]int8{{nan, 1}: 1}, 8+16+1, "array key with a NaN element")
	add(map[interface{}]int8{nan: 1}, 8+(16+8)+1, "interface key holding NaN")
	add([]map[float64][]int64{{nan: {1, 2}}}, 24+8+8+(24+16), "NaN-keyed map of slices inside a slice")
	add(&map[float64]*int64{nan: new(int64)}, 8+8+8+(8+8), "pointer to a NaN-keyed map of pointers")
	return t
}

func c20Handwritten() c20Type {
	i32 := int32(7)
	t := c20Type{t: reflect.TypeOf(c20Unexp{}), composite: true}
	add := func(x interface{}, sz int, d string) {
		t.vals = append(t.vals, c20Val{reflect.ValueOf(x), sz, d})
	}
	add(c20MyInt(3), 8, "named int")
	add(c20MyStr("abcd"), 16+4, "named string")
	add([3]c20MyBool{true, false, true}, 3, "array of named bool")
	add(struct {
		a int8
		b int64
	}{1, 2}, 9, "struct{int8;int64} with padding")
	add(struct {
		c20Emb
		B bool
	}{c20Emb{1}, true}, 5, "embedded struct")
	add(c20Unexp{}, 1+8+16+8+16+8+24, "all-unexported struct, zero value")
	add(c20Unexp{a: 1, b: 2, s: "xyz", p: &i32, i: c20MyStr("q"), m: map[c20MyStr]c20MyInt{"k": 1, "kk": 2}, l: []c20Emb{{1}, {2}, {3}}},
		1+8+(16+3)+(8+4)+(16+16+1)+(8+(16+1)+8+(16+2)+8)+(24+12), "all-unexported struct, filled")
	add(&c20Unexp{a: 1}, 8+1+8+16+8+16+8+24, "pointer to unexported struct")
	add([]interface{}{c20MyInt(1), nil, &i32, c20Emb{5}}, 24+(16+8)+16+(16+8+4)+(16+4), "[]interface{} of named values")
	// LARGE containers: the length coordinate at every round-number threshold (an implementation may size
	// long strings, slices, arrays and maps differently: chunks, 16-bit counters, sampling)
	for _, n := range gen.ThresholdSizes(100, 70000) {
		add(strings.Repeat("x", n), 16+n, fmt.Sprintf("string of %d bytes", n))
		add(make([]byte, n), 24+n, fmt.Sprintf("[]byte of %d elements", n))
		add(make([]int32, n), 24+4*n, fmt.Sprintf("[]int32 of %d elements", n))
		add(make([]uint64, n), 24+8*n, fmt.Sprintf("[]uint64 of %d elements", n))
	}
	for _, n := range []int{255, 256, 257, 1000, 4096, 65535, 65536, 65537, 70000} {
		ss := make([]string, n)
		ps := make([]*int32, n)
		hp := make([]c20HostPort, n)
		m := make(map[int32]int8, n)
		ms := make(map[string][]byte, n)
		total, totalMS := 0, 0
		for i := range ss {
			ss[i] = strings.Repeat("y", i%7)
			total += 16 + i%7
			if i%3 == 0 {
				ps[i] = new(int32)
			}
			hp[i] = c20HostPort{ss[i], int32(i)}
			m[int32(i)] = 1
			k := fmt.Sprintf("k%06d", i)
			ms[k] = make([]byte, i%5)
			totalMS += (16 + 7) + (24 + i%5)
		}
		add(ss, 24+total, fmt.Sprintf("[]string of %d strings of 0..6 bytes", n))
		add(ps, 24+8*n+4*((n+2)/3), fmt.Sprintf("[]*int32 of %d pointers, every third non-nil", n))
		add(hp, 24+total+4*n, fmt.Sprintf("[]struct{Host string; Port int32} of %d elements", n))
		add(m, 8+5*n, fmt.Sprintf("map[int32]int8 of %d entries", n))
		add(ms, 8+totalMS, fmt.Sprintf("map[string][]byte of %d entries", n))
	}
	add([65537]int8{}, 65537, "[65537]int8")
	add(&[70000]int16{}, 8+140000, "*[70000]int16")
	add([300]string{}, 300*16, "[300]string of empty strings")
	// embedded structs and blank fields
	add(c20Shadow{c20Base{"abc", 7}, "xy"}, (16+3)+4+(16+2), "embedded struct whose field Name is hidden by an outer field Name")
	add(c20Both{c20Left{1, 2}, c20Right{3, 4}, 5}, (1+4)+(8+1)+1, "two embedded structs with the same field name Tag (ambiguous selector)")
	add(c20Blanks{A: 1, B: 2}, 1+7+8+56, "struct with two blank (_) fields")
	add(struct {
		A int8
		_ int32
	}{A: 1}, 1+4, "struct with one blank field")
	add(c20EmbPtr{&c20Base{"q", 1}, 2}, (8+(16+1)+4)+1, "embedded pointer to a struct")
	add(c20EmbPtr{nil, 2}, 8+1, "embedded nil pointer")
	add(c20EmbIface{c20Err("boom"), 2}, (16+(16+4))+1, "embedded interface holding a named string")
	add(c20EmbIface{nil, 2}, 16+1, "embedded nil interface")
	add(c20EmbNamed{3, "four"}, 8+(16+4), "embedded named int and named string")
	add(c20Deep{c20Shadow{c20Base{"a", 1}, "bb"}, c20Both{c20Left{1, 2}, c20Right{3, 4}, 5}, 9}, ((16+1)+4+(16+2))+((1+4)+(8+1)+1)+2, "two levels of embedding with hidden and ambiguous names, outer field N hiding c20Base.N")
	add([]c20Shadow{{c20Base{"abc", 7}, "xy"}, {}}, 24+((16+3)+4+(16+2))+(16+4+16), "slice of structs with a hidden promoted field")
	add(map[string]c20Both{"k": {c20Left{1, 2}, c20Right{3, 4}, 5}}, 8+(16+1)+((1+4)+(8+1)+1), "map value with ambiguous embedded fields")
	add(&c20Blanks{}, 8+72, "pointer to a struct with two blank fields")
	// maps whose keys are composite and differ in structural size among themselves (a key type's top-level
	// kind says nothing about what the keys hold): struct and array keys with strings inside, interface keys
	add(map[c20HostPort]int8{{"a", 1}: 1, {"hello", 2}: 2, {"a-longer-host", 3}: 3},
		8+((16+1)+4+1)+((16+5)+4+1)+((16+13)+4+1), "map[struct{Host string; Port int32}]int8, 3 keys of different sizes")
	add(map[[2]string]int8{{"a", "bb"}: 1, {"cccc", ""}: 2},
		8+((16+1)+(16+2)+1)+((16+4)+(16+0)+1), "map[[2]string]int8, 2 keys of different sizes")
	add(map[interface{}]int8{"abc": 1, int8(1): 2, [2]string{"x", "yy"}: 3},
		8+(16+(16+3)+1)+(16+1+1)+(16+(16+1)+(16+2)+1), "map[interface{}]int8 with a string, an int8 and a [2]string key")
	add(map[c20HostPort][]string{{"k", 1}: {"v", "ww"}, {"kkkkkkkk", 2}: nil},
		8+((16+1)+4+(24+(16+1)+(16+2)))+((16+8)+4+24), "map[struct{Host string; Port int32}][]string")
	// deep values: linked lists (2 recursion levels per node) and interface/pointer chains (3 per box) of
	// threshold lengths: a recursion that gives up at some depth (as encoding/json does at 10000) counts a
	// deep pointer like a nil one
	for _, n := range []int{999, 1000, 1001, 4999, 5000, 5001, 5002, 9999, 10001, 20000, 50001} {
		var head *c20ListNode
		for i := 0; i < n; i++ {
			head = &c20ListNode{next: head, val: int64(i)}
		}
		add(head, n*(8+8)+8, fmt.Sprintf("linked list of %d nodes struct{next *node; val int64}", n))
	}
	for _, n := range []int{1000, 3333, 3334, 3400, 10000} {
		var x interface{} = int8(1)
		for i := 0; i < n; i++ {
			x = &[1]interface{}{x}
		}
		// the argument itself is the outermost pointer; each box is a pointer (8) to an array of one
		// interface (16 + its dynamic value); the innermost dynamic value is an int8
		add(x, n*(8+16)+1, fmt.Sprintf("chain of %d boxes *[1]interface{} -> *[1]interface{} -> ... -> int8", n))
	}
	// interior pointers: acyclic values in which a pointer of ANOTHER type points into the very
	// object being walked - to its first field or element (same address as the object), or further in
	cur := &c20Cursor{val: 5}
	cur.cur = &cur.val
	add(cur, 8+8+(8+8), "*struct{val int64; cur *int64} with cur = &val (offset 0)")
	ring := &c20Ring{}
	ring.head = &ring.buf[0]
	add(ring, 8+16+(8+4), "*struct{buf [4]int32; head *int32} with head = &buf[0]")
	ring2 := &c20Ring{}
	ring2.head = &ring2.buf[2]
	add(ring2, 8+16+(8+4), "the same with head = &buf[2] (offset 8)")
	nest := &c20Nest{}
	nest.p = &nest.in
	add(nest, 8+(8+1)+(8+8+1), "*struct{in struct{a int64; b bool}; p *in} with p = &in")
	arr := &[3]int64{1, 2, 3}
	add(struct {
		a *[3]int64
		e *int64
	}{arr, &arr[0]}, (8+24)+(8+8), "struct{a *[3]int64; e *int64} with e = &a[0]")
	return t
}

// embedding: promoted fields hidden by a shallower field of the same name, ambiguous (same name at the
// same depth in two embedded structs), blank fields, embedded pointers / interfaces / named scalars -
// every one of them is a PART of the struct whatever the selector rules say about its name
type c20Base struct {
	Name string
	N    int32
}
type c20Shadow struct {
	c20Base
	Name string
}
type c20Left struct {
	Tag int8
	A   int32
}
type c20Right struct {
	Tag int64
	B   int8
}
type c20Both struct {
	c20Left
	c20Right
	X int8
}
type c20Blanks struct {
	A int8
	_ [7]byte
	B int64
	_ [56]byte
}
type c20EmbPtr struct {
	*c20Base
	K int8
}
type c20EmbIface struct {
	error
	K int8
}
type c20EmbNamed struct {
	c20MyInt
	c20MyStr
}
type c20Deep struct {
	c20Shadow
	c20Both
	N int16
}
type c20Err string

func (e c20Err) Error() string { return string(e) }

type c20HostPort struct {
	Host string
	Port int32
}

type c20ListNode struct {
	next *c20ListNode
	val  int64
}

type c20Cursor struct {
	val int64
	cur *int64
}

type c20Ring struct {
	buf  [4]int32
	head *int32
}

type c20NestIn struct {
	a int64
	b bool
}

type c20Nest struct {
	in c20NestIn
	p  *c20NestIn
}

// Distinct types that print alike: reflect.Type.String() is "props.rec" for every
// one of the local types below and "model.Rec" for the two package-level types of
// c20x/model and c20y/model (Name() and, in pairs, Size() and Kind() coincide as
// well). Anything the library keys on a type's name or printed form instead of
// the type itself confuses them.
func c20RecA() (interface{}, interface{}) {
	type rec struct{ a byte }
	return []rec{{1}, {2}}, [4]rec{}
}
func c20RecB() (interface{}, interface{}) {
	type rec struct {
		a [7]uint64
		s string
	}
	return []rec{{s: "xy"}}, [2]rec{}
}
func c20RecC() interface{} {
	type rec struct {
		a int8
		b int64
	}
	return []rec{{1, 2}, {3, 4}}
}
func c20RecD(p *int32) interface{} {
	type rec struct{ p *int32 }
	return []rec{{p}, {nil}}
}
func c20RecE() interface{} {
	type rec uint16
	return []rec{1, 2, 3}
}
func c20RecF() interface{} {
	type rec string
	return []rec{"a", "bcd"}
}
func c20RecG() interface{} {
	type rec struct{ a, b int64 } // Size 16, 2 fields, like c20RecC's rec - but no padding
	return []rec{{1, 2}}
}

// c20SameNamed is measured IN ORDER by one goroutine (forward, then backward):
// state carried from one type to a like-named one shows in one direction or the other.
func c20SameNamed() c20Type {
	i32 := int32(7)
	t := c20Type{t: reflect.TypeOf(modelx.Rec{}), composite: true, sequence: true}
	var vals []c20Val
	add := func(x interface{}, sz int, d string) {
		vals = append(vals, c20Val{reflect.ValueOf(x), sz, d})
	}
	a1, a2 := c20RecA()
	b1, b2 := c20RecB()
	add(a1, 24+2, "[]rec, rec = struct{byte}")
	add(b1, 24+56+16+2, "[]rec, rec = struct{[7]uint64;string}")
	add(a2, 4, "[4]rec, rec = struct{byte}")
	add(b2, 2*(56+16), "[2]rec, rec = struct{[7]uint64;string}")
	add(c20RecC(), 24+2*9, "[]rec, rec = struct{int8;int64}")
	add(c20RecG(), 24+16, "[]rec, rec = struct{int64;int64}")
	add(c20RecD(&i32), 24+(8+4)+8, "[]rec, rec = struct{*int32}")
	add(c20RecE(), 24+6, "[]rec, rec = uint16")
	add(c20RecF(), 24+(16+1)+(16+3), "[]rec, rec = string")
	add([]modelx.Rec{{1}, {2}, {3}}, 24+3, "[]model.Rec of package c20x/model")
	add([]modely.Rec{{S: "q"}}, 24+24+16+1, "[]model.Rec of package c20y/model")
	add(map[string]modelx.Rec{"k": {1}}, 8+16+1+1, "map[string]model.Rec (c20x)")
	add(map[string]modely.Rec{"k": {S: "zz"}}, 8+16+1+24+16+2, "map[string]model.Rec (c20y)")
	n := len(vals)
	t.vals = append(t.vals, vals...)
	for i := n - 1; i >= 0; i-- {
		v := vals[i]
		v.desc += " (again, backward pass)"
		t.vals = append(t.vals, v)
	}
	return t
}

type c20Item struct {
	Name  string
	Extra interface{}
}

type c20Box struct {
	Tag  int32
	Item *c20Item
}

// c20AfterPanic: a SEQUENCE on shared objects in which calls OUTSIDE the domain (a chan, a func, an
// unsafe.Pointer reached through pointers, slices and maps: Of and Stat panic, the caller recovers, as a caller
// that does not control its inputs does) come between measurements of values INSIDE it that reach the same
// pointers. The statement holds for every acyclic value whatever was measured before; a panic must not leave
// anything behind. The outcome of the out-of-domain calls themselves is not judged.
func c20AfterPanic() c20Type {
	t := c20Type{t: reflect.TypeOf(&c20Box{}), composite: true, sequence: true, pre: map[int]func(){}}
	item := &c20Item{Name: "abc"}
	box := &c20Box{Tag: 7, Item: item}
	list := &[]interface{}{int8(1), item}
	m := map[string]*c20Item{"k": item}
	try := func(f func()) {
		defer func() { recover() }()
		f()
	}
	poison := func(bad interface{}, then interface{}) func() {
		return func() {
			item.Extra = bad
			try(func() { size.Of(box) })
			try(func() { size.Stat(box, 3, 10) })
			try(func() { size.Of(list) })
			try(func() { size.Of(m) })
			item.Extra = then
		}
	}
	itemSz := func(extra int) int { return 8 + (16 + 3) + 16 + extra } // *c20Item: pointer, string, interface slot, dynamic value
	add := func(x interface{}, sz int, d string, pre func()) {
		if pre != nil {
			t.pre[len(t.vals)] = pre
		}
		t.vals = append(t.vals, c20Val{reflect.ValueOf(x), sz, d})
	}
	add(box, 8+4+itemSz(0), "box before any panic", nil)
	add(box, 8+4+itemSz(4), "box after Of/Stat panicked on a chan in item.Extra, Extra = int32 now", poison(make(chan int), int32(5)))
	add(item, itemSz(4), "the item alone", nil)
	add(list, 8+24+(16+1)+(16+itemSz(4)), "*[]interface{}{int8, item}", nil)
	add(m, 8+(16+1)+itemSz(4), "map[string]*item", nil)
	add(box, 8+4+itemSz(16+2), "box after a func in item.Extra, Extra = \"zz\" now", poison(func() {}, "zz"))
	add(list, 8+24+(16+1)+(16+itemSz(16+2)), "*[]interface{}{int8, item} after the func", nil)
	var word uint64
	add(m, 8+(16+1)+itemSz(8), "map[string]*item after an unsafe.Pointer in item.Extra, Extra = uint64 now", poison(unsafe.Pointer(&word), uint64(9)))
	add(box, 8+4+itemSz(8), "box after the unsafe.Pointer", nil)
	add(&c20Box{Tag: 7, Item: &c20Item{Name: "abc", Extra: uint64(9)}}, 8+4+itemSz(8), "a fresh box of the same shape", nil)
	add(box, 8+4+itemSz(0), "box after a chan behind a nested pointer, Extra = nil now", poison(&[]interface{}{make(chan bool)}, nil))
	return t
}

// c20Types enumerates the grammar to the given depth, deterministically. width
// bounds how many types of a level are used as elements of the next one (the
// first level is always used completely).
func c20Types(depth, width int) (all []c20Type, perDepth []int) {
	leaves := append(c20Scalars(), c20String(), c20InterfaceT())
	all = append(all, leaves...)
	perDepth = append(perDepth, len(leaves))
	spread := func(ts []c20Type, n int) []c20Type {
		if len(ts) <= n {
			return ts
		}
		var out []c20Type
		for i := 0; i < n; i++ {
			out = append(out, ts[i*len(ts)/n])
		}
		return out
	}
	// leaf subset for binary structs: int8, int64, uint, uintptr, float32, string, interface{}
	subLeaves := []c20Type{leaves[1], leaves[4], leaves[10], leaves[11], leaves[12], leaves[16], leaves[17]}
	prev := leaves
	for d := 1; d <= depth; d++ {
		var cur []c20Type
		for _, e := range prev {
			cur = append(cur, c20Unary(e)...)
		}
		pool := subLeaves
		if d > 1 {
			pool = append(append([]c20Type{}, subLeaves...), spread(prev, 9)...)
		}
		for _, a := range pool {
			for _, b := range pool {
				cur = append(cur, c20Struct(a, b))
			}
		}
		all = append(all, cur...)
		perDepth = append(perDepth, len(cur))
		prev = spread(cur, width)
	}
	return all, perDepth
}

func sizeOf(x interface{}) (r int, p string) {
	defer func() {
		if e := recover(); e != nil {
			p = fmt.Sprint("panic: ", e)
		}
	}()
	return size.Of(x), ""
}

func sizeStat(x interface{}, d, m int, avg bool) (r string, p string) {
	defer func() {
		if e := recover(); e != nil {
			p = fmt.Sprint("panic: ", e)
		}
	}()
	if avg {
		return size.Stat(x, d, m, size.Opt{AvgOf: 3}), ""
	}
	return size.Stat(x, d, m), ""
}

// statNumber extracts the size printed on the first line of Stat's output.
func statNumber(out string, t reflect.Type) (int, bool) {
	line := out
	if i := strings.IndexByte(line, '\n'); i >= 0 {
		line = line[:i]
	}
	rest := line
	if i := strings.LastIndex(line, t.String()); i >= 0 {
		rest = line[i+len(t.String()):]
	}
	// first run of digits
	i := 0
	for i < len(rest) && (rest[i] < '0' || rest[i] > '9') {
		i++
	}
	j := i
	for j < len(rest) && rest[j] >= '0' && rest[j] <= '9' {
		j++
	}
	if i == j {
		return 0, false
	}
	n, err := strconv.Atoi(rest[i:j])
	return n, err == nil
}

var c20StatGrid = [][2]int{{0, 0}, {0, 1}, {0, 10}, {1, 0}, {1, 1}, {1, 10}, {3, 0}, {3, 1}, {3, 10}}

// c20One judges one value: Of, then Stat on the grid; returns the first mismatch.
func c20One(tv c20Val, t reflect.Type, topIface bool) (got, want string, evals int64, unparsed int64) {
	x := tv.v.Interface()
	wantSize := tv.size
	if topIface {
		// an interface-typed value cannot reach Of as such: the argument is its
		// dynamic value (or nil), so the 16-byte header is not part of it
		wantSize -= 16
	}
	g, p := sizeOf(x)
	evals++
	if p != "" || g != wantSize {
		return fmt.Sprintf("Of=%s%d", p, g), fmt.Sprintf("Of=%d", wantSize), evals, 0
	}
	if x == nil {
		return "ok", "ok", evals, 0
	}
	rt := reflect.TypeOf(x)
	for k := 0; k <= len(c20StatGrid); k++ {
		var out, p string
		var d, m int
		if k == len(c20StatGrid) {
			d, m = 1, 1
			out, p = sizeStat(x, 1, 1, true)
		} else {
			d, m = c20StatGrid[k][0], c20StatGrid[k][1]
			out, p = sizeStat(x, d, m, false)
		}
		evals++
		if p != "" {
			return fmt.Sprintf("Stat(d=%d,m=%d)=%s", d, m, p), fmt.Sprintf("Stat first line reports %d", wantSize), evals, unparsed
		}
		n, ok := statNumber(out, rt)
		if !ok {
			unparsed++
			continue
		}
		if n != wantSize {
			return fmt.Sprintf("Stat(d=%d,m=%d) first line %q", d, m, strings.SplitN(out, "\n", 2)[0]), fmt.Sprintf("Stat first line reports %d", wantSize), evals, unparsed
		}
	}
	return "ok", "ok", evals, unparsed
}

func c20Run(c *mc.Ctx) {
	if unsafe.Sizeof(uintptr(0)) != 8 {
		panic("harness: C20 assumes a 64-bit platform")
	}
	D, W := c.Pick(3, 4), 600
	types, per := c20Types(D, W)
	c.Set("types_used_as_elements_per_level", W)
	c.Set("type_depth", D)
	c.Set("types", len(types))
	c.Set("types_per_depth", per)
	types = append(types, c20Handwritten(), c20SameNamed(), c20IfaceSlots(), c20AfterPanic(), c20Wide(), c20ArrayFields(), c20LongSeqs(), c20Shared(), c20NaNKeys())
	nvals := 0
	for _, t := range types {
		nvals += len(t.vals)
	}
	c.Set("values", nvals)
	c.Expect(1) // the nil argument
	if g, p := sizeOf(nil); p != "" || g != 0 {
		c.Fail(0, "Of", "Of/nil", c20Case{Path: []int{-1, 0}, Desc: "nil"}, fmt.Sprintf("Of=%s%d", p, g), "Of=0")
	}
	c.Count(1, 0)
	for _, t := range types {
		for _, v := range t.vals {
			if t.t == c20Iface && !v.v.Elem().IsValid() {
				c.Expect(1)
			} else {
				c.Expect(int64(2 + len(c20StatGrid)))
			}
		}
	}
	c.Par(len(types), func(ti int) {
		if c.TooMany() {
			return
		}
		t := types[ti]
		var evals, nontriv, unparsed int64
		for vi, v := range t.vals {
			if f := t.pre[vi]; f != nil {
				f()
			}
			g, w, e, u := c20One(v, t.t, t.t == c20Iface)
			evals += e
			unparsed += u
			if g != w {
				class := "Of"
				if strings.Contains(g, "unknown kind: uint") {
					class = "Of/uint-uintptr"
				}
				// a failing value stops at its first mismatch: count the cases not run so the cardinality stays comparable
				full := int64(2 + len(c20StatGrid))
				if t.t == c20Iface && !v.v.Elem().IsValid() {
					full = 1
				}
				evals += full - e
				c.Fail(int64(ti)<<16|int64(vi), "value", class, c20Case{Path: []int{ti, vi}, Desc: v.desc, Depth: D, Width: W}, g, w)
			}
			if t.composite {
				nontriv += e
			}
		}
		c.Count(evals, nontriv)
		c.Add("stat_lines_unparsed", unparsed)
		if ti%173 == 60 {
			v := t.vals[len(t.vals)-1]
			c.ForceSample(map[string]interface{}{"type": t.t.String(), "value": v.desc, "expected_size": v.size})
		}
	})
	if c.Int("stat_lines_unparsed") > 0 {
		c.Cap("some Stat first lines could not be parsed for a number; those Stat cases were not judged")
	}
}

func c20Judge(kind string, cs c20Case) (got, want string) {
	if cs.Path[0] < 0 {
		g, p := sizeOf(nil)
		return fmt.Sprintf("Of=%s%d", p, g), "Of=0"
	}
	types, _ := c20Types(cs.Depth, cs.Width)
	types = append(types, c20Handwritten(), c20SameNamed(), c20IfaceSlots(), c20AfterPanic(), c20Wide(), c20ArrayFields(), c20LongSeqs(), c20Shared(), c20NaNKeys())
	if cs.Path[0] >= len(types) || cs.Path[1] >= len(types[cs.Path[0]].vals) {
		return "case does not exist in this enumeration", ""
	}
	t := types[cs.Path[0]]
	v := t.vals[cs.Path[1]]
	if v.desc != cs.Desc {
		return "enumeration changed: value is now " + v.desc, "value " + cs.Desc
	}
	if t.sequence {
		// the case is the whole sequence up to this value, measured in order
		for pi, pv := range t.vals[:cs.Path[1]] {
			if f := t.pre[pi]; f != nil {
				f()
			}
			c20One(pv, t.t, false)
		}
	}
	if f := t.pre[cs.Path[1]]; f != nil {
		f()
	}
	g, w, _, _ := c20One(v, t.t, t.t == c20Iface)
	return g, w
}
