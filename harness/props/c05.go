package props

import (
	"fmt"

	"github.com/openacid/low/bmtree"

	"verif/mc"
	"verif/ref"
)

// C05: IndexToPath over its whole domain against a pre-order successor walk.

type c05Case struct {
	Height int32 `json:"height"`
	Index  int32 `json:"index"`
}

func init() {
	mc.Register(&mc.Property{
		ID:       "C05",
		Word32:   true,
		DebugTag: true,
		Level:    "exploration",
		Rule: "E1 complete enumeration of the whole domain: every height h in [0,30] × every index in [0, 2^(h+1)-1) — 2^32-33 pairs. Oracle: pre-order successor on (prefix,length) walked in index order (shards start from the node found by descending by subtree sizes); the path word is assembled by hand. Before that, in ONE goroutine and with the heights INNERMOST: every index below 2048 at every height that has it, ascending then descending (consecutive calls differ in the height only). " +
			"Both directions are judged against the walk: IndexToPath(h,i) == node_i and PathToIndex(2^(h+1)-1, node_i) == i. A case is one (h,index) pair; non-trivial when h > 4 (not answered from the lookup table alone) and 0 < index.",
		Assumptions: []string{"the successor function is the definition of pre-order on the full tree"},
		Run:         c05Run,
		Judge:       mc.JudgeOf(c05Judge),
	})
}

func i2p(h, i int32) (r uint64, p bool) {
	defer func() {
		if recover() != nil {
			p = true
		}
	}()
	return bmtree.IndexToPath(h, i), false
}

func p2iFast(mask int32, path uint64) (r int32, p bool) {
	defer func() {
		if recover() != nil {
			p = true
		}
	}()
	return bmtree.PathToIndex(mask, path), false
}

// c05Heights lists, ascending then descending, the heights whose full tree has the index.
func c05Heights(index int64) []int {
	var hs []int
	for h := 0; h <= 30; h++ {
		if index < int64(2)<<uint(h)-1 {
			hs = append(hs, h)
		}
	}
	for i := len(hs) - 2; i >= 0; i-- {
		hs = append(hs, hs[i])
	}
	return hs
}

// c05Transposed: ONE goroutine, heights INNERMOST: for every index below 2048, IndexToPath and the way back
// at every height that has the index, ascending then descending. Consecutive calls differ in the height only;
// anything carried from one call to the next under a key that leaves the height out shows here, on every run
// (the main enumeration runs its shards side by side and would meet such a pair by chance only).
func c05Transposed(c *mc.Ctx) {
	var evals int64
	for index := int64(0); index < 2048; index++ {
		for _, h := range c05Heights(index) {
			prefix, l := ref.NodeAt(h, index)
			want := ref.PathWord(prefix, l, h)
			got, p := i2p(int32(h), int32(index))
			if p || got != want {
				c.Fail(1<<60|index<<8|int64(h), "transposed", "IndexToPath/heights-innermost", c05Case{int32(h), int32(index)}, fmt.Sprintf("%#x panic=%v", got, p), fmt.Sprintf("%#x panic=false", want))
			}
			back, p2 := p2iFast(int32(int64(2)<<uint(h)-1), want)
			if p2 || int64(back) != index {
				c.Fail(1<<60|index<<8|int64(h), "transposed", "PathToIndex(full)/heights-innermost", c05Case{int32(h), int32(index)}, fmt.Sprintf("back=%d panic=%v", back, p2), fmt.Sprintf("back=%d panic=false", index))
			}
			evals++
		}
	}
	c.Count(evals, evals)
	c.Expect(evals)
	c.Add("pairs_with_heights_innermost", evals)
}

func c05Run(c *mc.Ctx) {
	c05Transposed(c) // first, alone
	const chunk = int64(1) << 20
	type shard struct {
		h      int
		lo, hi int64
	}
	var shards []shard
	// The build with the openacid/must contracts compiled in (-tags debug, run as a variant pass by
	// mc.Main) is 50 times slower: there the domain is every index for heights 0..22 and, for taller
	// trees, the first two, the middle and the last two chunks of 2^20 indexes.
	reduced := mc.Variant() == "tags-debug"
	for h := 0; h <= 30; h++ {
		n := int64(2)<<uint(h) - 1
		nch := (n + chunk - 1) / chunk
		for lo := int64(0); lo < n; lo += chunk {
			hi := lo + chunk
			if hi > n {
				hi = n
			}
			if k := lo / chunk; reduced && h > 22 && k > 1 && k < nch-2 && k != nch/2 {
				continue
			}
			c.Expect(hi - lo)
			shards = append(shards, shard{h, lo, hi})
		}
	}
	if reduced {
		c.Set("domain", "tags-debug variant: all heights 0..22 × all indexes, heights 23..30 × five chunks of 2^20 indexes each")
	} else {
		c.Set("domain", "all heights 0..30 × all indexes: 2^32-33 = 4294967263 pairs")
	}
	c.Par(len(shards), func(si int) {
		if c.TooMany() {
			return
		}
		if c.Expired() {
			c.Cap("time budget reached before the whole domain was enumerated")
			return
		}
		sh := shards[si]
		h := sh.h
		full := int32(int64(2)<<uint(h) - 1)
		prefix, l := ref.NodeAt(h, sh.lo)
		var nontriv int64
		for i := sh.lo; i < sh.hi; i++ {
			want := ref.PathWord(prefix, l, h)
			got, p := i2p(int32(h), int32(i))
			if p || got != want {
				c.Fail(int64(si)<<32|(i-sh.lo), "IndexToPath", "IndexToPath", c05Case{int32(h), int32(i)}, "", "")
			}
			back, p2 := p2iFast(full, want)
			if p2 || int64(back) != i {
				c.Fail(int64(si)<<32|(i-sh.lo), "PathToIndex(full)", "PathToIndex(full)", c05Case{int32(h), int32(i)}, "", "")
			}
			if h > 4 && i > 0 {
				nontriv++
			}
			var ok bool
			prefix, l, ok = ref.Succ(prefix, l, h)
			if !ok && i != int64(full)-1 {
				panic("harness: successor walk ended early")
			}
		}
		c.Count(sh.hi-sh.lo, nontriv)
		if si%509 == 17 {
			i := sh.lo + (sh.hi-sh.lo)/3
			pf, ll := ref.NodeAt(h, i)
			c.ForceSample(map[string]interface{}{"height": h, "index": i, "node": ref.BitString(pf, ll), "path_word": fmt.Sprintf("%#x", ref.PathWord(pf, ll, h))})
		}
	})
	c.Add("shards", int64(len(shards)))
}

func c05Judge(kind string, cs c05Case) (got, want string) {
	if kind == "transposed" {
		// the case is the sweep over the heights for this index, up to this height
		var g, w string
		for _, h := range c05Heights(int64(cs.Index)) {
			prefix, l := ref.NodeAt(h, int64(cs.Index))
			want := ref.PathWord(prefix, l, h)
			got, p := i2p(int32(h), cs.Index)
			back, p2 := p2iFast(int32(int64(2)<<uint(h)-1), want)
			g = fmt.Sprintf("%#x panic=%v back=%d panic=%v", got, p, back, p2)
			w = fmt.Sprintf("%#x panic=false back=%d panic=false", want, cs.Index)
			if h == int(cs.Height) && g != w {
				break
			}
		}
		return g, w
	}
	h := int(cs.Height)
	// walk from the root for small indexes (pure successor), else descend
	var prefix uint64
	var l int
	if cs.Index < 1<<16 {
		for k := int32(0); k < cs.Index; k++ {
			prefix, l, _ = ref.Succ(prefix, l, h)
		}
	} else {
		prefix, l = ref.NodeAt(h, int64(cs.Index))
	}
	node := ref.PathWord(prefix, l, h)
	switch kind {
	case "IndexToPath":
		g, p := i2p(cs.Height, cs.Index)
		if p {
			return "panic", fmt.Sprintf("%#x (node %q)", node, ref.BitString(prefix, l))
		}
		return fmt.Sprintf("%#x (node %q)", g, bitsOfPath(g, h)), fmt.Sprintf("%#x (node %q)", node, ref.BitString(prefix, l))
	case "PathToIndex(full)":
		g, p := p2iFast(int32(int64(2)<<uint(h)-1), node)
		if p {
			return "panic", fmt.Sprint(cs.Index)
		}
		return fmt.Sprint(g), fmt.Sprint(cs.Index)
	}
	return "unknown kind " + kind, ""
}

// bitsOfPath renders a (possibly malformed) path word for humans.
func bitsOfPath(p uint64, h int) string {
	l := 0
	for m := uint32(p); m != 0; m >>= 1 {
		l += int(m & 1)
	}
	if l > h || l > 32 {
		return fmt.Sprintf("malformed mask %#x", uint32(p))
	}
	return ref.BitString(p>>32>>uint(h-l), l)
}
