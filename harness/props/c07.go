package props

import (
	"bufio"
	"bytes"
	"encoding/binary"
	"encoding/json"
	"errors"
	"fmt"
	"io"
	"os"
	"os/exec"
	"sort"
	"strconv"
	"strings"
	"testing/iotest"

	"github.com/openacid/low/iohelper"
	"github.com/openacid/low/pbcmpl"

	"verif/gen"
	"verif/mc"
)

// C07: pbcmpl reports truncation, write failure and corrupt headers as errors
// (E3 fault enumeration: every cut point, every writer budget, header-field
// alphabet, read-error offsets).

var c07ErrInjected = errors.New("injected fault")

type c07Case struct {
	Frame   *c06Frame `json:"frame,omitempty"`
	Cut     int       `json:"cut,omitempty"`
	Uniform int       `json:"uniform_chunk,omitempty"`
	Choices []int     `json:"choices,omitempty"`
	Budget  int       `json:"budget,omitempty"`
	Mode    string    `json:"mode,omitempty"`
	Index   int       `json:"index,omitempty"` // corrupt-header case number
	Desc    string    `json:"desc,omitempty"`
	Prefix  int       `json:"prefix,omitempty"`
	Fill    int       `json:"fill,omitempty"`
	// Declared: a read-error case on a frame whose header DECLARES this body size (decimal) while only the
	// frame's own body bytes follow (declared > present: the stream cannot be complete)
	Declared string `json:"declared_body_size,omitempty"`
	Empty    int    `json:"empty_every,omitempty"` // > 0: every Empty-th call of the reader returns (0, nil)
}

func init() {
	mc.Register(&mc.Property{
		ID:     "C07",
		Word32: true,
		Level:  "fault_enumeration",
		Rule: "E3 fault enumeration: (truncation) every frame of a 40-frame alphabet (4 message kinds × body lengths 0..200) × EVERY cut point k < len(frame) × reader chunkings {whole, 1 byte at a time, and every chunking with ≤1 (thorough ≤2) extra deviations: short read at any byte, data together with io.EOF, one empty read}, the same cuts through 11 standard-library reader types (bytes.Reader, bytes.Buffer, strings.Reader, bufio.Reader of 16/32/64/4096 bytes, io.LimitedReader, io.SectionReader, iotest.OneByteReader, iotest.DataErrReader - code may special-case a reader's dynamic type), and four frames with bodies of 1..3 MiB × cut points within ±1 of m·2^p (p = 9..22, m = 1..3, measured from the frame and from the body start) × {whole, 4 KiB, 64 KiB chunks}: never success, n = k, cause io.EOF for k=0, io.ErrUnexpectedEOF otherwise, either one for k=32; " +
			"(corrupt header, in a memory-limited worker process) every single-bit flip and every single-byte replacement (01, 80, ff) of the header-size word and of the body-size word of a valid header; header-size field × body-size field alphabets (0, len±1, 2^31, 2^32, 2^40, 2^47, 2^48, 2^62, 2^63-1, 2^63, 2^63+1, 2^64-1 …) × version bytes {ASCII, 0xff, NUL} × {0, 5, all} body bytes present: header size ≠ 32 ⇒ ErrInvalidHeaderSize after exactly 32 bytes; otherwise success iff the declared body is completely present; never a panic, never a dead process; ReadHeader on every prefix 0..40 of arbitrary bytes returns normally; " +
			"(truncation, polling readers) every cut point of frames with bodies of 0 / 33 / 200 / 2048 bytes read through a reader whose every 2nd call returns (0, nil), in pieces of 1 and 16 bytes; (transient read errors) ONE error with Temporary() / Timeout() true after `at` bytes of every strict prefix (every at <= cut) of small frames, the reader carrying on afterwards: never success, a clean io.EOF only when nothing of a frame was consumed; (writer faults) every frame × EVERY byte budget k ≤ len(frame) × {partial write with error, refusal with count 0, full count TOGETHER with the error on the call that ends exactly at the budget (one-shot; later bytes are recorded)}: (corrupt headers also through three readers that are io.Seekers - iohelper.AtToReader and an over-long io.SectionReader, which report more remaining bytes than they can deliver, and bytes.Reader) Marshal returns that error and the count of accepted bytes, which are exactly frame[:count] - also for 18 longer frames (bodies of 4000..70000 bytes and 1 MiB+1) with budgets at both ends and around 512, 4096, 8192, 65536, 2^20 measured from the start, from the body start and from the end; a payload-length sweep (EVERY length 0..600 × 2 kinds × every cut point and every writer budget); (read errors) a non-EOF error injected at every offset, alone or together with the last bytes, under whole and 1-byte chunkings and after every single chunking deviation (short read at any byte, one empty read): no success unless the frame was delivered completely, n = bytes delivered; the same on frames of 1..3 MiB (the incremental read path) at cut points around every power of two, and on streams whose header declares 2^20+1 .. 2^64-1 body bytes while 0, 5 or 70000 follow. A case is one (frame, fault point, mode); non-trivial when the fault point is inside the frame (0 < k < len).",
		Assumptions: []string{
			"for a body-size field ≥ 2^63 (no valid frame can have such a body) only 'returns normally and does not succeed' is required; for smaller declared sizes that exceed the stream the truncation clause applies (n = bytes available)",
			"the worker process runs under `ulimit -v`; a worker that dies is reported for the case it announced before executing it",
		},
		Run:   c07Run,
		Judge: mc.JudgeOf(c07Judge),
	})
	mc.RegisterWorker("c07corrupt", c07Worker)
	mc.RegisterWorker("c07declared", c07DeclaredWorker)
}

func c07Frames() []c06Frame {
	var out []c06Frame
	for _, l := range []int{0, 1, 2, 31, 32, 33, 127, 128, 129, 200} {
		out = append(out,
			c06Frame{Kind: "pb", Payload: l},
			c06Frame{Kind: "legacy", Payload: l},
			c06Frame{Kind: "pbv", Payload: l, Version: "0123456789abcdef"},
			c06Frame{Kind: "legacyv", Payload: l, Version: "7.1"})
	}
	// versions a parser may treat specially: a NUL in the MIDDLE of the 16 bytes, an extension of the
	// default version, 16 bytes without any NUL, a leading NUL
	for _, v := range []string{"1.0.0\x00rc1", "1.0.0-rc1", "\x00x", "a\x00\x00\x00\x00\x00\x00\x00\x00\x00\x00\x00\x00\x00\x00z"} {
		for _, l := range []int{0, 1, 33} {
			out = append(out, c06Frame{Kind: "legacyv", Payload: l, Version: gen.Bytes(v)}, c06Frame{Kind: "pbv", Payload: l, Version: gen.Bytes(v)})
		}
	}
	return out
}

// ---- truncation

func c07Trunc(f c06Frame, k int, env *mc.Env, uniform int) (got, want string) {
	return c07TruncOpt(f, k, env, uniform, 0)
}

// c07TruncOpt: empty > 0 makes every empty-th call of the reader return (0, nil) (a polling source).
func c07TruncOpt(f c06Frame, k int, env *mc.Env, uniform, empty int) (got, want string) {
	defer func() {
		if e := recover(); e != nil {
			if s, ok := e.(string); ok && strings.HasPrefix(s, "mc:") {
				panic(e)
			}
			got += fmt.Sprint(" panic: ", e)
		}
	}()
	wire := c06Wire(f)
	r := &c06Reader{data: wire[:k], env: env, uniform: uniform, empty: empty}
	n, _, err := pbcmpl.Unmarshal(r, c06Empty(f.Kind))
	name := errName(err)
	switch {
	case k == 0:
		want = "n=0 err=EOF"
	case k == 32:
		want = "n=32 err=ErrUnexpectedEOF"
		if name == "EOF" {
			name = "ErrUnexpectedEOF" // either one is tolerated for a cut exactly after the header
		}
	default:
		want = fmt.Sprintf("n=%d err=ErrUnexpectedEOF", k)
	}
	return fmt.Sprintf("n=%d err=%s", n, name), want
}

// ---- standard-library reader types (code may special-case a reader's dynamic type)

var c07StdReaders = []string{"bytes.Reader", "bytes.Buffer", "strings.Reader", "bufio16", "bufio32", "bufio64", "bufio4096", "io.LimitedReader", "io.SectionReader", "iotest.OneByte", "iotest.DataErr"}

func c07StdReader(kind string, data []byte) io.Reader {
	switch kind {
	case "bytes.Reader":
		return bytes.NewReader(data)
	case "bytes.Buffer":
		return bytes.NewBuffer(append([]byte(nil), data...))
	case "strings.Reader":
		return strings.NewReader(string(data))
	case "bufio16":
		return bufio.NewReaderSize(bytes.NewReader(data), 16)
	case "bufio32":
		return bufio.NewReaderSize(bytes.NewReader(data), 32)
	case "bufio64":
		return bufio.NewReaderSize(bytes.NewReader(data), 64)
	case "bufio4096":
		return bufio.NewReaderSize(bytes.NewReader(data), 4096)
	case "io.LimitedReader":
		return io.LimitReader(bytes.NewReader(append(append([]byte(nil), data...), "trailing garbage"...)), int64(len(data)))
	case "io.SectionReader":
		return io.NewSectionReader(bytes.NewReader(append([]byte("xx"), data...)), 2, int64(len(data)))
	case "iotest.OneByte":
		return iotest.OneByteReader(bytes.NewReader(data))
	case "iotest.DataErr":
		return iotest.DataErrReader(bytes.NewReader(data))
	}
	panic("unknown reader kind " + kind)
}

func c07TruncStd(f c06Frame, k int, kind string) (got, want string) {
	defer func() {
		if e := recover(); e != nil {
			got += fmt.Sprint(" panic: ", e)
		}
	}()
	wire := c06Wire(f)
	n, _, err := pbcmpl.Unmarshal(c07StdReader(kind, wire[:k]), c06Empty(f.Kind))
	name := errName(err)
	switch {
	case k == 0:
		want = "n=0 err=EOF"
	case k == 32:
		want = "n=32 err=ErrUnexpectedEOF"
		if name == "EOF" {
			name = "ErrUnexpectedEOF"
		}
	default:
		want = fmt.Sprintf("n=%d err=ErrUnexpectedEOF", k)
	}
	return fmt.Sprintf("n=%d err=%s", n, name), want
}

// ---- writer faults

type c07Writer struct {
	budget int
	mode   string // partial | refuse | fullerr
	got    []byte
	failed bool
	atFail int
}

func (w *c07Writer) Write(p []byte) (int, error) {
	if len(p) == 0 {
		return 0, nil
	}
	if w.mode == "fullerr" {
		// accepts everything; the Write call that ends EXACTLY at the budget returns its full
		// count together with the error (legal for an io.Writer), once; whatever is handed over
		// afterwards is accepted and recorded, so a caller that carries on is seen
		w.got = append(w.got, p...)
		if !w.failed && len(w.got) == w.budget {
			w.failed = true
			w.atFail = len(w.got)
			return len(p), c07ErrInjected
		}
		return len(p), nil
	}
	if len(p) <= w.budget {
		w.budget -= len(p)
		w.got = append(w.got, p...)
		return len(p), nil
	}
	w.failed = true
	if w.mode == "partial" {
		k := w.budget
		w.budget = 0
		w.got = append(w.got, p[:k]...)
		return k, c07ErrInjected
	}
	return 0, c07ErrInjected
}

func c07WriterFault(f c06Frame, budget int, mode string) (got, want string) {
	defer func() {
		if e := recover(); e != nil {
			got += fmt.Sprint(" panic: ", e)
		}
	}()
	wire := c06Wire(f)
	w := &c07Writer{budget: budget, mode: mode}
	n, err := pbcmpl.Marshal(w, c06Msg(f))
	// what the writer accepted is the ground truth for the count; the statement
	// says the call reports it and that those bytes are a prefix of the frame
	accepted := len(w.got)
	we := "nil"
	if w.failed {
		we = "injected"
	}
	if mode == "fullerr" && w.failed {
		// the writer failed after accepting atFail bytes: that count, that error, nothing more emitted
		want = fmt.Sprintf("n=%d err=injected prefix=true emitted=%d", w.atFail, w.atFail)
		return fmt.Sprintf("n=%d err=%s prefix=%v emitted=%d", n, errName(err), bytes.Equal(w.got, wire[:min(accepted, len(wire))]) && accepted <= len(wire), accepted), want
	}
	want = fmt.Sprintf("n=%d err=%s prefix=true", accepted, we)
	return fmt.Sprintf("n=%d err=%s prefix=%v", n, errName(err), bytes.Equal(w.got, wire[:min(accepted, len(wire))]) && accepted <= len(wire)), want
}

// ---- read errors

type c07ErrReader struct {
	data     []byte
	pos      int
	failAt   int
	together bool
	uniform  int
	env      *mc.Env // optional: chunking deviations before the fault (short read at any byte, one empty read)
}

func (r *c07ErrReader) Read(p []byte) (int, error) {
	if len(p) == 0 {
		return 0, nil
	}
	avail := r.failAt - r.pos
	if avail <= 0 {
		return 0, c07ErrInjected
	}
	n := len(p)
	if avail < n {
		n = avail
	}
	if r.uniform > 0 && r.uniform < n {
		n = r.uniform
	}
	if r.env != nil {
		// alternatives: 0 = n bytes; 1..n-1 = only that many; n = one empty read
		c := r.env.Choose(n + 1)
		switch {
		case c == n:
			return 0, nil
		case c > 0:
			n = c
		}
	}
	copy(p, r.data[r.pos:r.pos+n])
	r.pos += n
	if r.together && r.pos == r.failAt {
		return n, c07ErrInjected
	}
	return n, nil
}

func c07ReadErr(f c06Frame, k int, together bool, uniform int) (got, want string) {
	return c07ReadErrEnv(f, k, together, uniform, nil)
}

func c07ReadErrEnv(f c06Frame, k int, together bool, uniform int, env *mc.Env) (got, want string) {
	defer func() {
		if e := recover(); e != nil {
			if s, ok := e.(string); ok && strings.HasPrefix(s, "mc:") {
				panic(e)
			}
			got += fmt.Sprint(" panic: ", e)
		}
	}()
	wire := c06Wire(f)
	r := &c07ErrReader{data: wire, failAt: k, together: together, uniform: uniform, env: env}
	n, _, err := pbcmpl.Unmarshal(r, c06Empty(f.Kind))
	if k >= len(wire) {
		// the frame was delivered completely; success or an error are both acceptable, the count is fixed
		return fmt.Sprintf("n=%d", n), fmt.Sprintf("n=%d", len(wire))
	}
	ok := "error"
	if err == nil {
		ok = "SUCCESS"
	}
	// recorded, not required: whether the cause is the injected error
	return fmt.Sprintf("n=%d %s", n, ok), fmt.Sprintf("n=%d error", k)
}

// c07ReadErrDeclared: a non-EOF read error at offset k of a stream whose header declares `declared` body
// bytes while only the frame's own body follows. The stream is incomplete whatever k is: an error, n = k.
func c07ReadErrDeclared(f c06Frame, declared uint64, k int, together bool, uniform int) (got, want string) {
	defer func() {
		if e := recover(); e != nil {
			got += fmt.Sprint(" panic: ", e)
		}
	}()
	wire := append([]byte(nil), c06Wire(f)...)
	binary.LittleEndian.PutUint64(wire[24:], declared)
	r := &c07ErrReader{data: wire, failAt: k, together: together, uniform: uniform}
	n, _, err := pbcmpl.Unmarshal(r, c06Empty(f.Kind))
	ok := "error"
	if err == nil {
		ok = "SUCCESS"
	}
	return fmt.Sprintf("n=%d %s", n, ok), fmt.Sprintf("n=%d error", k)
}

// c07DeclaredWorker: args = [case JSON]. Executes ONE declared-size read-error case and prints "R <got>".
func c07DeclaredWorker(args []string) int {
	var cs c07Case
	if len(args) != 1 || json.Unmarshal([]byte(args[0]), &cs) != nil || cs.Frame == nil {
		return 2
	}
	d, _ := strconv.ParseUint(cs.Declared, 10, 64)
	g, _ := c07ReadErrDeclared(*cs.Frame, d, cs.Cut, cs.Mode == "together", cs.Uniform)
	b, _ := json.Marshal(g)
	fmt.Printf("R %s\n", b)
	return 0
}

// c07DeclaredIsolated runs one declared-size case in a child under ulimit -v: a library that allocates what
// the header declares (2^40, 2^63 ... bytes) kills the child, not the check, and is reported for this case.
func c07DeclaredIsolated(cs c07Case) (got, want string) {
	want = fmt.Sprintf("n=%d error", cs.Cut)
	self, err := os.Executable()
	if err != nil {
		panic("harness: cannot find own executable: " + err.Error())
	}
	arg, _ := json.Marshal(cs)
	cmd := exec.Command("/bin/sh", "-c", `ulimit -v 4194304; exec "$0" -worker c07declared "$1"`, self, string(arg))
	cmd.Env = append(os.Environ(), "GOGC=50")
	out, runErr := cmd.Output()
	for _, line := range strings.Split(string(out), "\n") {
		if strings.HasPrefix(line, "R ") {
			var g string
			json.Unmarshal([]byte(line[2:]), &g)
			return g, want
		}
	}
	return fmt.Sprintf("PROCESS DIED (%v) while executing this case", runErr), want
}

// c07TempErr is a transient reader error: Temporary() and Timeout() report true (an expired deadline).
type c07TempErr struct{}

func (c07TempErr) Error() string   { return "transient: deadline expired" }
func (c07TempErr) Temporary() bool { return true }
func (c07TempErr) Timeout() bool   { return true }

// c07TransientReader delivers data[:cut]; ONCE, when `at` bytes have been delivered, it answers (0, transient
// error); every later call goes on as if nothing had happened (more data, then io.EOF).
type c07TransientReader struct {
	data    []byte
	pos, at int
	fired   bool
	uniform int
}

func (r *c07TransientReader) Read(p []byte) (int, error) {
	if len(p) == 0 {
		return 0, nil
	}
	if !r.fired && r.pos >= r.at {
		r.fired = true
		return 0, c07TempErr{}
	}
	if r.pos >= len(r.data) {
		return 0, io.EOF
	}
	n := len(r.data) - r.pos
	if !r.fired && r.at-r.pos < n {
		n = r.at - r.pos
	}
	if len(p) < n {
		n = len(p)
	}
	if r.uniform > 0 && r.uniform < n {
		n = r.uniform
	}
	copy(p, r.data[r.pos:r.pos+n])
	r.pos += n
	return n, nil
}

// c07Transient: a strict prefix wire[:cut] read through a reader with ONE transient error after `at` bytes.
// An implementation may give up at the error (count = at, that error) or carry on to the end of the prefix
// (count = cut, io.ErrUnexpectedEOF; io.EOF for cut 0 and tolerated at 32); it must not report success, and
// it must not report a clean io.EOF after having consumed part of a frame.
func c07Transient(f c06Frame, cut, at, uniform int) (got, want string) {
	defer func() {
		if e := recover(); e != nil {
			got += fmt.Sprint(" panic: ", e)
		}
	}()
	wire := c06Wire(f)
	r := &c07TransientReader{data: wire[:cut], at: at, uniform: uniform}
	n, _, err := pbcmpl.Unmarshal(r, c06Empty(f.Kind))
	name := errName(err)
	want = "no success; a clean EOF only with n = 0 (or 32); n = bytes consumed"
	switch {
	case err == nil:
		return fmt.Sprintf("n=%d SUCCESS on a strict prefix", n), want
	case name == "EOF" && n != 0 && n != 32:
		return fmt.Sprintf("n=%d err=EOF: a clean end of stream after %d bytes of a frame", n, n), want
	case int(n) != r.pos:
		return fmt.Sprintf("n=%d err=%s but %d bytes were consumed", n, name, r.pos), want
	}
	return want, want
}

// ---- corrupt headers (worker process)

type c07Corrupt struct {
	HS, BS uint64
	Ver    string
	Avail  int
	Desc   string
	// Reader: "" = the scripted reader (which also reports how many bytes were pulled); otherwise a
	// reader that is an io.Seeker - an implementation may ask it how much is left, and some answer
	// with more than they can deliver (the library's own AtToReader, an over-long io.SectionReader)
	Reader string
}

const c07Body = 7

func c07CorruptCases() []c07Corrupt {
	var out []c07Corrupt
	hss := []uint64{32, 0, 31, 33, 1 << 31, 1 << 63, ^uint64(0)}
	bss := []uint64{0, 1, c07Body - 1, c07Body, c07Body + 1, 1 << 20, 1<<20 + 1, 1 << 31, 1 << 32, 1 << 40, 1 << 47, 1 << 48, 1 << 62, 1<<63 - 1, 1 << 63, 1<<63 + 1, ^uint64(0)}
	vers := []string{"1.0.0", strings.Repeat("\xff", 16), "", "1.0.0\x00rc1", "\x00\x00\x00\x00\x00\x00\x00\x00\x00\x00\x00\x00\x00\x00\x00z"}
	for _, hs := range hss {
		for _, bs := range bss {
			for _, v := range vers {
				for _, av := range []int{0, 5, c07Body} {
					out = append(out, c07Corrupt{hs, bs, v, av, fmt.Sprintf("hs=%d bs=%d ver=%x body_bytes_present=%d", hs, bs, v, av), ""})
				}
			}
		}
	}
	// every SINGLE-BIT and single-byte corruption of the two size words (a valid header with one bit flipped,
	// or one byte replaced by 01 / 80 / ff, anywhere in its 8 bytes): a validation that looks at part of a
	// word only lets some of them through
	seenHS := map[uint64]bool{}
	for _, x := range hss {
		seenHS[x] = true
	}
	var flips []uint64
	for b := uint(0); b < 64; b++ {
		flips = append(flips, 1<<b)
	}
	for by := uint(0); by < 8; by++ {
		for _, v := range []uint64{0x01, 0x80, 0xff} {
			flips = append(flips, v<<(8*by))
		}
	}
	for _, f := range flips {
		for _, hs := range []uint64{32 ^ f, 32&^(0xff<<(8*(bitsLen(f)/8))) | f} {
			if seenHS[hs] {
				continue
			}
			seenHS[hs] = true
			for _, av := range []int{0, c07Body} {
				out = append(out, c07Corrupt{hs, c07Body, "1.0.0", av, fmt.Sprintf("hs=%d bs=%d ver=312e302e30 body_bytes_present=%d", hs, c07Body, av), ""})
			}
		}
	}
	seenBS := map[uint64]bool{}
	for _, x := range bss {
		seenBS[x] = true
	}
	for _, f := range flips {
		for _, bs := range []uint64{c07Body ^ f, c07Body&^(0xff<<(8*(bitsLen(f)/8))) | f} {
			if seenBS[bs] {
				continue
			}
			seenBS[bs] = true
			for _, av := range []int{0, c07Body} {
				out = append(out, c07Corrupt{32, bs, "1.0.0", av, fmt.Sprintf("hs=32 bs=%d ver=312e302e30 body_bytes_present=%d", bs, av), ""})
			}
		}
	}
	// the same declared sizes through readers that are io.Seekers
	for _, rk := range c07SeekReaders {
		for _, bs := range bss {
			for _, av := range []int{0, 5, c07Body} {
				out = append(out, c07Corrupt{32, bs, "1.0.0", av, fmt.Sprintf("hs=32 bs=%d ver=312e302e30 body_bytes_present=%d reader=%s", bs, av, rk), rk})
			}
		}
	}
	// declared sizes beyond the stream with MiB-sized amounts of body actually present
	for _, bs := range []uint64{3 << 20, 1 << 31, 1 << 40, 1<<63 - 1} {
		for _, av := range []int{1<<20 - 1, 1 << 20, 1<<20 + 1, 2 << 20, 2<<20 + 1} {
			out = append(out, c07Corrupt{32, bs, "1.0.0", av, fmt.Sprintf("hs=32 bs=%d ver=312e302e30 body_bytes_present=%d", bs, av), ""})
		}
	}
	return out
}

// bitsLen: index of the highest set bit.
func bitsLen(x uint64) uint {
	n := uint(0)
	for x > 1 {
		x >>= 1
		n++
	}
	return n
}

func c07CorruptBytes(cc c07Corrupt) []byte {
	h := make([]byte, 32)
	copy(h, cc.Ver)
	binary.LittleEndian.PutUint64(h[16:], cc.HS)
	binary.LittleEndian.PutUint64(h[24:], cc.BS)
	if cc.Avail > c07Body {
		return append(h, c06Payload(cc.Avail)...)
	}
	return append(h, c06Payload(c07Body)[:cc.Avail]...)
}

var c07SeekReaders = []string{"iohelper.AtToReader", "io.SectionReader/over-long", "bytes.Reader"}

func c07SeekReader(kind string, data []byte) io.Reader {
	switch kind {
	case "iohelper.AtToReader":
		return iohelper.AtToReader(bytes.NewReader(data), 0)
	case "io.SectionReader/over-long":
		return io.NewSectionReader(bytes.NewReader(data), 0, 1<<62)
	}
	return bytes.NewReader(data)
}

// c07StripPulled drops the "pulled=" part (only the scripted reader can observe it).
func c07StripPulled(s string) string {
	if i := strings.Index(s, " pulled="); i >= 0 {
		return s[:i]
	}
	return s
}

func c07CorruptWant(cc c07Corrupt) string {
	if cc.Reader != "" {
		c2 := cc
		c2.Reader = ""
		return c07StripPulled(c07CorruptWant(c2))
	}
	switch {
	case cc.HS != 32:
		return "n=32 err=ErrInvalidHeaderSize pulled=32"
	case cc.BS >= 1<<63:
		return "no success" // nothing else is required: no valid frame declares such a body
	case cc.BS <= uint64(cc.Avail):
		return fmt.Sprintf("n=%d err=nil payload=%x pulled=%d", 32+cc.BS, c06Payload(c07Body)[:cc.BS], 32+cc.BS)
	case cc.Avail == 0:
		return "n=32 err=ErrUnexpectedEOF pulled=32" // a cut exactly after the header: EOF tolerated
	}
	return fmt.Sprintf("n=%d err=ErrUnexpectedEOF pulled=%d", 32+cc.Avail, 32+cc.Avail)
}

func c07CorruptGot(cc c07Corrupt) (got string) {
	defer func() {
		if e := recover(); e != nil {
			got = fmt.Sprint("panic: ", e)
		}
	}()
	data := c07CorruptBytes(cc)
	r := &c06Reader{data: data, env: mc.NewEnv(nil)}
	m := &c06Legacy{}
	var rd io.Reader = r
	if cc.Reader != "" {
		rd = c07SeekReader(cc.Reader, data)
		defer func() { got = c07StripPulled(got) }()
	}
	n, _, err := pbcmpl.Unmarshal(rd, m)
	name := errName(err)
	if cc.HS == 32 && cc.BS >= 1<<63 {
		if err == nil {
			return "SUCCESS n=" + fmt.Sprint(n)
		}
		return "no success"
	}
	if cc.HS == 32 && cc.Avail == 0 && cc.BS > 0 && name == "EOF" {
		name = "ErrUnexpectedEOF"
	}
	if err == nil {
		return fmt.Sprintf("n=%d err=nil payload=%x pulled=%d", n, m.Data, r.pos)
	}
	return fmt.Sprintf("n=%d err=%s pulled=%d", n, name, r.pos)
}

// c07Worker: args = [from, to). Prints "B i" before and "R i <got>" after each case.
func c07Worker(args []string) int {
	cases := c07CorruptCases()
	from, to := 0, len(cases)
	if len(args) > 0 {
		from, _ = strconv.Atoi(args[0])
	}
	if len(args) > 1 {
		to, _ = strconv.Atoi(args[1])
	}
	out := bufio.NewWriter(os.Stdout)
	for i := from; i < to && i < len(cases); i++ {
		fmt.Fprintf(out, "B %d\n", i)
		out.Flush()
		g := c07CorruptGot(cases[i])
		b, _ := json.Marshal(g)
		fmt.Fprintf(out, "R %d %s\n", i, b)
		out.Flush()
	}
	return 0
}

// c07RunWorker executes cases [from,to) in a child under ulimit -v; returns
// results by index; a case whose worker died is reported as such.
func c07RunWorker(from, to int) map[int]string {
	res := map[int]string{}
	self, err := os.Executable()
	if err != nil {
		panic("harness: cannot find own executable: " + err.Error())
	}
	for from < to {
		cmd := exec.Command("/bin/sh", "-c", `ulimit -v 4194304; exec "$0" -worker c07corrupt "$1" "$2"`, self, strconv.Itoa(from), strconv.Itoa(to))
		cmd.Env = append(os.Environ(), "GOGC=50")
		out, runErr := cmd.Output()
		began := -1
		for _, line := range strings.Split(string(out), "\n") {
			switch {
			case strings.HasPrefix(line, "B "):
				began, _ = strconv.Atoi(line[2:])
			case strings.HasPrefix(line, "R "):
				parts := strings.SplitN(line, " ", 3)
				i, _ := strconv.Atoi(parts[1])
				var g string
				json.Unmarshal([]byte(parts[2]), &g)
				res[i] = g
			}
		}
		if began >= 0 {
			if _, ok := res[began]; !ok {
				res[began] = fmt.Sprintf("PROCESS DIED (%v) while executing this case", runErr)
				from = began + 1
				continue
			}
		}
		if runErr != nil && began < 0 {
			panic(fmt.Sprintf("harness: corrupt-header worker could not start: %v", runErr))
		}
		if began < 0 {
			break
		}
		from = began + 1
	}
	return res
}

func c07ReadHeaderPrefix(prefix, fill int) (got, want string) {
	defer func() {
		if e := recover(); e != nil {
			got = fmt.Sprint("panic: ", e)
		}
	}()
	data := bytes.Repeat([]byte{byte(fill)}, prefix)
	if fill == 'A' {
		for i := range data {
			data[i] = byte('A' + i%26)
		}
	}
	_, h, err := pbcmpl.ReadHeader(bytes.NewReader(data))
	if err == nil && prefix < 32 {
		return fmt.Sprintf("SUCCESS on %d bytes", prefix), "returns normally, no success on a short header"
	}
	_ = h
	return "returns normally, no success on a short header", "returns normally, no success on a short header"
}

func c07Run(c *mc.Ctx) {
	frames := c07Frames()
	c.Set("frames", len(frames))
	// closed form for the enumerated parts (thorough adds a choice-tree part with no closed form)
	for _, f := range frames {
		l := int64(len(c06Wire(f)))
		c.Expect(2 * l)                         // truncation: whole + 1-byte chunking for every k < len
		c.Expect(int64(len(c07StdReaders)) * l) // the same cuts through every standard-library reader type
		c.Expect(3 * (l + 1))                   // writer faults: every budget 0..len × 3 modes
		c.Expect(4 * (l + 1))                   // read errors: every offset 0..len × alone/together × 2 chunkings
	}
	c.Par(len(frames), func(fi int) {
		if c.TooMany() {
			return
		}
		f := frames[fi]
		fc := f
		wire := c06Wire(f)
		var evals, nontriv int64
		for k := 0; k < len(wire); k++ {
			for _, u := range []int{0, 1} {
				var env *mc.Env
				if u == 0 {
					env = mc.NewEnv(nil)
				}
				g, w := c07Trunc(f, k, env, u)
				if g != w {
					c.Fail(int64(fi)<<32|int64(k)<<2|int64(u), "truncation", "truncation", c07Case{Frame: &fc, Cut: k, Uniform: u}, g, w)
				}
				evals++
				if k > 0 {
					nontriv++
				}
			}
			{
				n := int64(0)
				st := mc.ExploreDev(c.Pick(1, 2), func(e *mc.Env) {
					n++
					g, w := c07Trunc(f, k, e, 0)
					if e.Deviations() == 0 {
						return // the default execution was judged above; it only records the choice points
					}
					if g != w {
						c.Fail(1<<48|int64(fi)<<32|int64(k)<<12|n, "truncation", "truncation", c07Case{Frame: &fc, Cut: k, Choices: append([]int(nil), e.Choices...)}, g, w)
					}
				})
				c.Expect(st.Executions - 1)
				evals += st.Executions - 1
				nontriv += st.Executions - 1
				c.Add("truncation_executions_with_extra_deviation", st.Executions-1)
			}
		}
		for k := 0; k < len(wire); k++ {
			for ri, rk := range c07StdReaders {
				g, w := c07TruncStd(f, k, rk)
				if g != w {
					c.Fail(7<<48|int64(fi)<<32|int64(k)<<8|int64(ri), "truncation/std", "truncation/std", c07Case{Frame: &fc, Cut: k, Mode: rk}, g, w)
				}
				evals++
				if k > 0 {
					nontriv++
				}
			}
		}
		c.Add("truncation_cases", evals)
		for k := 0; k <= len(wire); k++ {
			for mi, mode := range []string{"partial", "refuse", "fullerr"} {
				g, w := c07WriterFault(f, k, mode)
				if g != w {
					c.Fail(2<<48|int64(fi)<<32|int64(k)<<2|int64(mi), "writer", "writer", c07Case{Frame: &fc, Budget: k, Mode: mode}, g, w)
				}
				evals++
				if k > 0 && k < len(wire) {
					nontriv++
				}
				c.Add("writer_fault_cases", 1)
			}
			for ti, tog := range []bool{false, true} {
				for _, u := range []int{0, 1} {
					mode := "alone"
					if tog {
						mode = "together"
					}
					g, w := c07ReadErr(f, k, tog, u)
					if g != w {
						c.Fail(3<<48|int64(fi)<<32|int64(k)<<3|int64(ti)<<1|int64(u), "readerror", "readerror", c07Case{Frame: &fc, Cut: k, Mode: mode, Uniform: u}, g, w)
					}
					evals++
					if k > 0 && k < len(wire) {
						nontriv++
					}
					c.Add("read_error_cases", 1)
				}
				// the same fault after every single chunking deviation
				mode := "alone"
				if tog {
					mode = "together"
				}
				n := int64(0)
				st := mc.ExploreDev(1, func(e *mc.Env) {
					n++
					g, w := c07ReadErrEnv(f, k, tog, 0, e)
					if e.Deviations() == 0 {
						return
					}
					if g != w {
						c.Fail(8<<48|int64(fi)<<32|int64(k)<<16|int64(ti)<<15|n, "readerror", "readerror/chunked", c07Case{Frame: &fc, Cut: k, Mode: mode, Choices: append([]int(nil), e.Choices...)}, g, w)
					}
				})
				c.Expect(st.Executions - 1)
				evals += st.Executions - 1
				nontriv += st.Executions - 1
				c.Add("read_error_cases_with_chunking_deviation", st.Executions-1)
			}
		}
		c.Count(evals, nontriv)
		if fi == 13 {
			c.ForceSample(c07Case{Frame: &fc, Cut: 40, Uniform: 1, Desc: "truncation"})
			c.ForceSample(c07Case{Frame: &fc, Budget: 33, Mode: "partial", Desc: "writer fault"})
		}
	})
	// large frames: bodies beyond 1 MiB (where an implementation is likely to switch from an eager
	// to an incremental read) with cut points around every power of two and every MiB boundary
	bigs := []c06Frame{{Kind: "legacy", Payload: 1<<20 + 1}, {Kind: "legacy", Payload: 2<<20 + 5}, {Kind: "pb", Payload: 1<<20 - 3}, {Kind: "pbv", Payload: 3 << 20, Version: "9.9.9"}}
	// and frames whose body is exactly 2^20-1, 2^20, 2^20+1 bytes: the last eager and the first incremental read
	for l := 1<<20 - 16; l <= 1<<20+2; l++ {
		f := c06Frame{Kind: "legacy", Payload: l}
		if b := len(c06Wire(f)) - 32; b >= 1<<20-1 && b <= 1<<20+1 {
			bigs = append(bigs, f)
		}
	}
	type bigJob struct {
		f   c06Frame
		cut int
		uni int
	}
	var bj []bigJob
	for _, f := range bigs {
		l := len(c06Wire(f))
		seen := map[int]bool{}
		add := func(k int) {
			if k >= 0 && k < l && !seen[k] {
				seen[k] = true
				for _, u := range []int{0, 4096, 1 << 16} {
					bj = append(bj, bigJob{f, k, u})
				}
			}
		}
		for _, k := range []int{0, 1, 31, 32, 33, l - 1, l - 2} {
			add(k)
		}
		for p := uint(9); p <= 22; p++ {
			for m := 1; m <= 3; m++ {
				for d := -1; d <= 1; d++ {
					add(32 + m<<p + d) // measured from the start of the body
					add(m<<p + d)      // measured from the start of the frame
				}
			}
		}
	}
	c.Expect(int64(len(bj)))
	c.Par(len(bj), func(i int) {
		j := bj[i]
		fc := j.f
		var env *mc.Env
		if j.uni == 0 {
			env = mc.NewEnv(nil)
		}
		g, w := c07Trunc(j.f, j.cut, env, j.uni)
		if g != w {
			c.Fail(6<<48|int64(i), "truncation", "truncation/large", c07Case{Frame: &fc, Cut: j.cut, Uniform: j.uni}, g, w)
		}
		c.Count(1, 1)
		c.Add("large_frame_truncation_cases", 1)
	})
	// truncation under POLLING readers (every 2nd call returns (0, nil), pieces of 1 or 16 bytes): every cut
	// point of frames with bodies of 0, 33, 200 and 2048 bytes - hundreds of empty reads before the end
	{
		type pj struct {
			f        c06Frame
			k, chunk int
		}
		var pjs []pj
		for _, l := range []int{0, 33, 200, 2048} {
			for _, kf := range []c06Frame{{Kind: "pb"}, {Kind: "legacyv", Version: gen.Bytes("3.1")}} {
				f := kf
				f.Payload = l
				for k := 0; k < len(c06Wire(f)); k++ {
					pjs = append(pjs, pj{f, k, 1}, pj{f, k, 16})
				}
			}
		}
		c.Expect(int64(len(pjs)))
		c.Par(len(pjs), func(i int) {
			j := pjs[i]
			fc := j.f
			if g, w := c07TruncOpt(j.f, j.k, nil, j.chunk, 2); g != w {
				c.Fail(14<<48|int64(i), "truncation", "truncation/polling-reader", c07Case{Frame: &fc, Cut: j.k, Uniform: j.chunk, Empty: 2}, g, w)
			}
			c.Count(1, 1)
			c.Add("polling_reader_truncation_cases", 1)
		})
	}
	// TRANSIENT reader errors (Temporary() / Timeout() true, one-shot, the reader carries on afterwards): at
	// every offset at <= cut of every strict prefix of frames with bodies of 0, 5 and 40 bytes
	{
		type tj struct {
			f            c06Frame
			cut, at, uni int
		}
		var tjs []tj
		for _, l := range []int{0, 5, 40} {
			for _, kf := range []c06Frame{{Kind: "pb"}, {Kind: "legacyv", Version: gen.Bytes("3.1")}} {
				f := kf
				f.Payload = l
				for cut := 0; cut < len(c06Wire(f)); cut++ {
					for at := 0; at <= cut; at++ {
						tjs = append(tjs, tj{f, cut, at, 0})
					}
					tjs = append(tjs, tj{f, cut, cut, 1})
				}
			}
		}
		c.Expect(int64(len(tjs)))
		c.Par(len(tjs), func(i int) {
			j := tjs[i]
			fc := j.f
			if g, w := c07Transient(j.f, j.cut, j.at, j.uni); g != w {
				c.Fail(15<<48|int64(i), "transient", "transient-read-error", c07Case{Frame: &fc, Cut: j.cut, Budget: j.at, Uniform: j.uni}, g, w)
			}
			c.Count(1, 1)
			c.Add("transient_read_error_cases", 1)
		})
	}
	// READ ERRORS on the large frames (the incremental read path above 1 MiB): a non-EOF error at the same
	// cut points, alone and together with the last bytes, whole and in 4 KiB pieces; and on streams whose
	// header DECLARES 2^20+1, 2^40, 2^63 or 2^64-1 body bytes while 0, 5 or 70000 follow (the untrusted-size
	// path whatever is present): never success, n = bytes delivered
	{
		type rj struct {
			f        c06Frame
			k, uni   int
			tog      bool
			declared uint64
		}
		var rjs []rj
		for _, j := range bj {
			if j.uni == 1<<16 {
				continue
			}
			rjs = append(rjs, rj{j.f, j.cut, j.uni, false, 0}, rj{j.f, j.cut, j.uni, true, 0})
		}
		for _, body := range []int{0, 5, 70000} {
			f := c06Frame{Kind: "legacy", Payload: body}
			l := len(c06Wire(f))
			for _, d := range []uint64{1<<20 + 1, 1 << 40, 1 << 63, ^uint64(0)} {
				for _, k := range []int{32, 33, 36, 37, l - 1, l, 32 + 4096, 32 + 65536} {
					if k < 32 || k > l {
						continue
					}
					for _, uni := range []int{0, 7} {
						rjs = append(rjs, rj{f, k, uni, false, d}, rj{f, k, uni, true, d})
					}
				}
			}
		}
		c.Expect(int64(len(rjs)))
		c.Par(len(rjs), func(i int) {
			j := rjs[i]
			fc := j.f
			mode := "alone"
			if j.tog {
				mode = "together"
			}
			var g, w string
			cs := c07Case{Frame: &fc, Cut: j.k, Mode: mode, Uniform: j.uni}
			if j.declared != 0 {
				cs.Declared = fmt.Sprint(j.declared)
				g, w = c07DeclaredIsolated(cs)
			} else {
				g, w = c07ReadErr(j.f, j.k, j.tog, j.uni)
			}
			if g != w {
				c.Fail(13<<48|int64(i), "readerror", "readerror/large", cs, g, w)
			}
			c.Count(1, 1)
			c.Add("large_frame_read_error_cases", 1)
		})
	}
	// writer faults on LONGER frames: a Marshal that buffers (bufio's 4096 bytes, 8192, 64 KiB, 1 MiB)
	// must still report what the writer accepted. Frames whose total length lies around those sizes ×
	// budgets at both ends, around every such size and around "length minus such a size" × 3 writer modes.
	{
		type wj struct {
			f      c06Frame
			budget int
			mode   string
		}
		var wjs []wj
		for _, body := range []int{4000, 4064, 4065, 5000, 8161, 10000, 65536, 70000, 1<<20 + 1} {
			for _, kind := range []string{"legacy", "pbv"} {
				f := c06Frame{Kind: kind, Payload: body}
				if kind == "pbv" {
					f.Version = "1.2.3"
				}
				l := len(c06Wire(f))
				seen := map[int]bool{}
				for _, b := range []int{0, 1, 31, 32, 33, l - 2, l - 1, l} {
					seen[b] = true
				}
				for _, t := range []int{512, 4096, 8192, 65536, 1 << 20} {
					for d := -1; d <= 1; d++ {
						seen[t+d] = true
						seen[l-t+d] = true
						seen[32+t+d] = true
					}
				}
				var budgets []int
				for b := range seen {
					budgets = append(budgets, b)
				}
				sort.Ints(budgets)
				for _, b := range budgets {
					if b < 0 || b > l {
						continue
					}
					for _, mode := range []string{"partial", "refuse", "fullerr"} {
						wjs = append(wjs, wj{f, b, mode})
					}
				}
			}
		}
		c.Expect(int64(len(wjs)))
		c.Par(len(wjs), func(i int) {
			j := wjs[i]
			fc := j.f
			if g, w := c07WriterFault(j.f, j.budget, j.mode); g != w {
				c.Fail(8<<48|int64(j.f.Payload)<<24|int64(j.budget)<<2|int64(i&3), "writer", "writer/long-frame", c07Case{Frame: &fc, Budget: j.budget, Mode: j.mode}, g, w)
			}
			c.Count(1, 1)
			c.Add("writer_fault_cases_long_frames", 1)
		})
	}
	// payload-length sweep: EVERY payload length 0..600 × 2 message kinds × EVERY cut point (whole-chunk
	// reader) and EVERY writer budget (partial write with an error): an implementation may treat frames
	// below or above some length differently
	{
		type sj struct {
			f c06Frame
		}
		var sjs []sj
		for l := 0; l <= 600; l++ {
			sjs = append(sjs, sj{c06Frame{Kind: "legacy", Payload: l}}, sj{c06Frame{Kind: "pb", Payload: l}})
		}
		for _, j := range sjs {
			c.Expect(int64(2*len(c06Wire(j.f)) + 1))
		}
		c.Par(len(sjs), func(i int) {
			f := sjs[i].f
			fc := f
			n := len(c06Wire(f))
			for k := 0; k < n; k++ {
				if g, w := c07Trunc(f, k, nil, 1<<20); g != w {
					c.Fail(9<<48|int64(i)<<24|int64(k)<<1, "truncation", "truncation/length-sweep", c07Case{Frame: &fc, Cut: k, Uniform: 1 << 20}, g, w)
				}
			}
			for k := 0; k <= n; k++ {
				if g, w := c07WriterFault(f, k, "partial"); g != w {
					c.Fail(9<<48|int64(i)<<24|int64(k)<<1|1, "writer", "writer/length-sweep", c07Case{Frame: &fc, Budget: k, Mode: "partial"}, g, w)
				}
			}
			c.Count(int64(2*n+1), int64(2*n+1))
			c.Add("payload_length_sweep_cases", int64(2*n+1))
		})
	}
	// ReadHeader on arbitrary prefixes
	for _, fill := range []int{'A', 0xff, 0x00} {
		for p := 0; p <= 40; p++ {
			g, w := c07ReadHeaderPrefix(p, fill)
			if g != w {
				c.Fail(4<<48|int64(fill)<<8|int64(p), "readheader", "readheader", c07Case{Prefix: p, Fill: fill}, g, w)
			}
			c.Count(1, 1)
			c.Expect(1)
		}
	}
	// corrupt headers in the worker
	cases := c07CorruptCases()
	c.Expect(int64(len(cases)))
	// cases that may allocate by the declared size get a fresh process each, so that
	// the outcome of one cannot depend on memory retained by another
	res := map[int]string{}
	var solo []int
	lo := 0
	flush := func(hi int) {
		if hi > lo {
			for k, v := range c07RunWorker(lo, hi) {
				res[k] = v
			}
		}
	}
	for i, cc := range cases {
		if cc.HS == 32 && cc.BS > 1<<16 {
			flush(i)
			lo = i + 1
			solo = append(solo, i)
		}
	}
	flush(len(cases))
	soloRes := make([]map[int]string, len(solo))
	c.Par(len(solo), func(k int) { soloRes[k] = c07RunWorker(solo[k], solo[k]+1) })
	for _, m := range soloRes {
		for k, v := range m {
			res[k] = v
		}
	}
	c.Set("corrupt_cases_in_own_process", len(solo))
	died := 0
	for i, cc := range cases {
		g, ok := res[i]
		if !ok {
			panic(fmt.Sprintf("harness: corrupt-header worker returned no result for case %d", i))
		}
		w := c07CorruptWant(cc)
		if g != w {
			class := "corrupt"
			if cc.HS == 32 && cc.BS > 1<<20 && (strings.HasPrefix(g, "panic") || strings.HasPrefix(g, "PROCESS DIED")) {
				class = "corrupt/huge-body-size"
			}
			if strings.HasPrefix(g, "PROCESS DIED") {
				died++
			}
			c.Fail(5<<48|int64(i), "corrupt", class, c07Case{Index: i, Desc: cc.Desc}, g, w)
		}
		nt := int64(0)
		if cc.HS == 32 || cc.Avail > 0 {
			nt = 1
		}
		c.Count(1, nt)
	}
	c.Set("corrupt_header_cases", len(cases))
	c.Set("worker_deaths", died)
	c.ForceSample(c07Case{Index: len(cases) / 2, Desc: cases[len(cases)/2].Desc})
}

func c07Judge(kind string, cs c07Case) (got, want string) {
	switch kind {
	case "truncation":
		var env *mc.Env
		if cs.Uniform == 0 {
			env = mc.NewEnv(cs.Choices)
		}
		return c07TruncOpt(*cs.Frame, cs.Cut, env, cs.Uniform, cs.Empty)
	case "transient":
		return c07Transient(*cs.Frame, cs.Cut, cs.Budget, cs.Uniform)
	case "truncation/std":
		return c07TruncStd(*cs.Frame, cs.Cut, cs.Mode)
	case "writer":
		return c07WriterFault(*cs.Frame, cs.Budget, cs.Mode)
	case "readerror":
		if cs.Declared != "" {
			return c07DeclaredIsolated(cs)
		}
		if len(cs.Choices) > 0 {
			return c07ReadErrEnv(*cs.Frame, cs.Cut, cs.Mode == "together", 0, mc.NewEnv(cs.Choices))
		}
		return c07ReadErr(*cs.Frame, cs.Cut, cs.Mode == "together", cs.Uniform)
	case "readheader":
		return c07ReadHeaderPrefix(cs.Prefix, cs.Fill)
	case "corrupt":
		cases := c07CorruptCases()
		if cs.Index < 0 || cs.Index >= len(cases) {
			return "case does not exist", ""
		}
		res := c07RunWorker(cs.Index, cs.Index+1)
		return res[cs.Index], c07CorruptWant(cases[cs.Index])
	}
	return "unknown kind " + kind, ""
}

var _ = gen.Core
var _ io.Reader = (*c07ErrReader)(nil)
