package props

import (
	"fmt"
	mbits "math/bits"
	"runtime/debug"
	"strings"

	"github.com/openacid/low/bitmap"

	"verif/gen"
	"verif/mc"
)

// C02: Select32 / Select32R64 and their indexes against a naive scan.

type c02Case struct {
	Words gen.Words `json:"words"`
	I     int32     `json:"i"`
	Then  gen.Words `json:"then,omitempty"` // "retained": the bitmap indexed afterwards
	// long bitmaps are named by (length, pattern) of the sweep generator instead of being listed
	Len     int `json:"len,omitempty"`
	Pattern int `json:"pattern,omitempty"`
	// the EMPTY bitmap handed over in form EmptyForm-1 of gen.EmptyU64 (nil, non-nil, spare capacity, tail)
	EmptyForm int    `json:"empty_form,omitempty"`
	FormName  string `json:"empty_form_name,omitempty"`
}

func init() {
	mc.Register(&mc.Property{
		ID:     "C02",
		Word32: true,
		Level:  "exploration",
		Rule: "POPULATION CLASSES: the same ~9000 single words as C01/C12 alone, behind an all-ones word, between an empty and a sparse word and repeated 33 times: both indexes and both selects for every 1-bit; then E1 bounded-exhaustive enumeration: every bitmap of B(n,0) ∪ B1(m) (as C01) plus long sparse bitmaps (exactly L words, all zero except ≤2-3 islands from a 10-word island alphabet of popcounts 1,2,31,32,33,63,64 at every combination of positions, L up to 70, thorough 130) a length sweep (every length 0..N words × 4 patterns, with every returned index re-checked after the next bitmap has been indexed) and the byte-lane sweep (every byte value in every lane under every 0x00/0xff configuration of the other lanes, deduplicated, embedded as [w], [0,w] and [^0,w,0,1]) " +
			"× {IndexSelect32, IndexSelect32R64} and × every i in [0, ones) × {Select32, Select32R64}; oracle = list of 1-positions from a bit-by-bit scan. " +
			"A case is one (bitmap, i, function) or (bitmap, index function); non-trivial when the bitmap has ≥2 ones and at least one 0. i ≥ ones is outside the statement and not called.",
		Assumptions: []string{
			"64-bit words outside the alphabets and the lane sweep, and bitmaps longer than the bound, are not enumerated",
			"the reference (bit-by-bit scan) is correct",
		},
		Run:   c02Run,
		Judge: mc.JudgeOf(c02Judge),
	})
}

func idxSel32(w []uint64) (r []int32, p string) {
	defer func() {
		if e := recover(); e != nil {
			p = fmt.Sprint("panic: ", e)
		}
	}()
	return bitmap.IndexSelect32(w), ""
}

func idxSel32R64(w []uint64) (s, r []int32, p string) {
	defer func() {
		if e := recover(); e != nil {
			p = fmt.Sprint("panic: ", e)
		}
	}()
	s, r = bitmap.IndexSelect32R64(w)
	return s, r, ""
}

func sel32(w []uint64, idx []int32, i int32) (a, b int32, p bool) {
	defer func() {
		if recover() != nil {
			p = true
		}
	}()
	a, b = bitmap.Select32(w, idx, i)
	return
}

func sel32r64(w []uint64, sidx, ridx []int32, i int32) (a, b int32, p bool) {
	defer func() {
		if recover() != nil {
			p = true
		}
	}()
	a, b = bitmap.Select32R64(w, sidx, ridx, i)
	return
}

// laneWords is the deduplicated byte-lane sweep, without members of Core/Wide.
func laneWords() []uint64 {
	seen := map[uint64]bool{}
	for _, w := range gen.Core {
		seen[w] = true
	}
	for _, w := range gen.Wide {
		seen[w] = true
	}
	var out []uint64
	for lane := 0; lane < 8; lane++ {
		for bg := 0; bg < 128; bg++ {
			for b := 0; b < 256; b++ {
				w := gen.LaneWord(uint8(b), lane, uint8(bg))
				if !seen[w] {
					seen[w] = true
					out = append(out, w)
				}
			}
		}
	}
	return out
}

func onesOf(w []uint64, buf []int32) []int32 {
	buf = buf[:0]
	for k, x := range w {
		if x == 0 {
			continue
		}
		for j := 0; j < 64; j++ {
			if x>>uint(j)&1 == 1 {
				buf = append(buf, int32(k*64+j))
			}
		}
	}
	return buf
}

func c02Space(c *mc.Ctx) gen.BMSpace {
	if c.Thorough {
		return gen.BMSpace{MaxCore: 7, MaxWide: 5}
	}
	return gen.BMSpace{MaxCore: 6, MaxWide: 4}
}

// c02Sparse lists the long sparse families per tier.
func c02Sparse(c *mc.Ctx) []gen.SparseSpace {
	if c.Thorough {
		var out []gen.SparseSpace
		for _, l := range []int{18, 19, 20, 21, 22, 24, 33, 34, 40} {
			out = append(out, gen.SparseSpace{Len: l, MaxIslands: 3})
		}
		for _, l := range []int{48, 64, 65, 66, 70, 100, 130} {
			out = append(out, gen.SparseSpace{Len: l, MaxIslands: 2})
		}
		return out
	}
	return []gen.SparseSpace{{Len: 20, MaxIslands: 3}, {Len: 40, MaxIslands: 2}, {Len: 70, MaxIslands: 2}}
}

func popSum(ws []uint64) int64 {
	var s int64
	for _, w := range ws {
		s += int64(naivePop(w))
	}
	return s
}

// c02One judges one bitmap completely; returns (cases, ones).
func c02One(c *mc.Ctx, order int64, w []uint64, ones []int32) (evals, nontriv int64, _ []int32) {
	return c02OneNamed(c, order, w, ones, 0, 0)
}

func c02OneNamed(c *mc.Ctx, order int64, w []uint64, ones []int32, nameLen, namePat int) (evals, nontriv int64, _ []int32) {
	ones = onesOf(w, ones)
	n := int32(len(ones))
	nt := n >= 2 && int(n) < 64*len(w)
	cs := func(i int32) c02Case {
		if nameLen > 0 {
			return c02Case{I: i, Len: nameLen, Pattern: namePat}
		}
		return c02Case{Words: append(gen.Words(nil), w...), I: i}
	}
	short := func(a []int32) string {
		if len(a) > 40 {
			return fmt.Sprintf("%d entries %v…", len(a), a[:8])
		}
		return fmt.Sprint(a)
	}
	_ = short
	var wantS []int32
	for k := 0; k < len(ones); k += 32 {
		wantS = append(wantS, ones[k])
	}
	s1, p1 := idxSel32(w)
	if p1 != "" || !eqI32(s1, wantS) {
		c.Fail(order, "IndexSelect32", "IndexSelect32", cs(0), p1+short(s1), short(wantS))
	}
	s2, r2, p2 := idxSel32R64(w)
	wantR := make([]int32, 0, len(w)+1)
	{
		run := int32(0)
		for _, x := range w {
			wantR = append(wantR, run)
			if x != 0 {
				run += naivePop(x)
			}
		}
		wantR = append(wantR, run)
	}
	if p2 != "" || !eqI32(s2, wantS) || !eqI32(r2, wantR) {
		c.Fail(order, "IndexSelect32R64", "IndexSelect32R64", cs(0), p2+short(s2)+short(r2), short(wantS)+short(wantR))
	}
	evals += 2
	end := int32(64 * len(w))
	// 64*len = 2^31 is not an int32: what "the next 1-bit" of the LAST 1-bit of a 2^25-word
	// bitmap is cannot be stated, so it is not compared
	endUnrepresentable := int64(64)*int64(len(w)) > 1<<31-1
	if p1 == "" && p2 == "" {
		bad := 0
		for i := int32(0); i < n && bad < 4; i++ {
			wa := ones[i]
			wb := end
			if i+1 < n {
				wb = ones[i+1]
			}
			skipB := endUnrepresentable && i+1 == n
			if a, b, p := sel32(w, s1, i); p || a != wa || (b != wb && !skipB) {
				c.Fail(order, "Select32", "Select32", cs(i), "", "")
				bad++
			}
			if a, b, p := sel32r64(w, s2, r2, i); p || a != wa || (b != wb && !skipB) {
				c.Fail(order, "Select32R64", "Select32R64", cs(i), "", "")
				bad++
			}
		}
	}
	evals += 2 * int64(n)
	if nt {
		nontriv = evals
	}
	return evals, nontriv, ones
}

func c02Run(c *mc.Ctx) {
	// POPULATION CLASSES of one word (c12PopWords: every word with one or two 0-bits, 0-runs cut at boundary
	// positions, complements, every popcount): alone, behind an all-ones word, between an empty word and a
	// sparse one, and repeated 33 times (samples inside dense words) - an implementation may select inside
	// dense, ordinary and sparse words differently
	{
		pw := c12PopWords()
		for _, x := range pw {
			// per bitmap 2 index cases + 2 selects per 1-bit; the four bitmaps hold pop, 64+pop, pop+1, 33·pop ones
			c.Expect(8 + 2*(36*int64(naivePop(x))+65))
		}
		c.Par(len(pw), func(i int) {
			var ev, nt int64
			rep := make([]uint64, 33)
			for k := range rep {
				rep[k] = pw[i]
			}
			for v, w := range [][]uint64{{pw[i]}, {^uint64(0), pw[i]}, {0, pw[i], 1 << 40}, rep} {
				e, n, _ := c02One(c, 21<<50|int64(i)<<2|int64(v), w, nil)
				ev += e
				nt += n
			}
			c.Count(ev, nt)
			c.Add("population_class_bitmaps", 4)
		})
	}
	// the EMPTY bitmap in every form a caller can hand it over: both index builders owe the empty select
	// index and (R64) the one-entry rank index for each of them
	for f := 0; f < gen.EmptyForms; f++ {
		cs := c02Case{EmptyForm: f + 1, FormName: gen.EmptyFormName(f)}
		for _, k := range []string{"IndexSelect32", "IndexSelect32R64"} {
			if g, w := c02Judge(k, cs); g != w {
				c.Fail(int64(7)<<56|int64(f), k+"/empty-"+gen.EmptyFormName(f), k, cs, g, w)
			}
		}
		c.Count(2, 0)
	}
	c.Expect(2 * gen.EmptyForms)
	sp := c02Space(c)
	shards := sp.Shards()
	lanes := laneWords()
	c.Set("bitmap_space", fmt.Sprintf("B(%d,0) ∪ B1(%d): %d bitmaps; lane sweep: %d distinct words x 3 embeddings", sp.MaxCore, sp.MaxWide, sp.Card(), len(lanes)))
	// closed form: Σ over bitmaps of 2 + 2·ones
	{
		nc, nw := int64(len(gen.Core)), int64(len(gen.Wide))
		sc, sw := popSum(gen.Core), popSum(gen.Wide)
		var exp int64
		for l := 0; l <= sp.MaxCore; l++ {
			cnt := gen.PowInt(int(nc), l)
			var ones int64
			if l > 0 {
				ones = int64(l) * gen.PowInt(int(nc), l-1) * sc
			}
			exp += 2*cnt + 2*ones
		}
		for l := 1; l <= sp.MaxWide; l++ {
			cnt := int64(l) * nw * gen.PowInt(int(nc), l-1)
			ones := int64(l) * gen.PowInt(int(nc), l-1) * sw
			if l > 1 {
				ones += int64(l) * nw * int64(l-1) * gen.PowInt(int(nc), l-2) * sc
			}
			exp += 2*cnt + 2*ones
		}
		sl := popSum(lanes)
		nl := int64(len(lanes))
		exp += 3*2*nl + 2*(3*sl+nl*65)
		c.Expect(exp)
	}
	c.Par(len(shards), func(si int) {
		if c.TooMany() {
			return
		}
		var evals, nontriv, bitmaps, seq int64
		var ones []int32
		shards[si].Each(func(w []uint64) {
			seq++
			order := int64(si)<<32 | seq
			bitmaps++
			var e, n int64
			e, n, ones = c02One(c, order, w, ones)
			evals += e
			nontriv += n
			if c.WantSample(order) {
				c.ForceSample(map[string]interface{}{"words": append(gen.Words(nil), w...), "ones": len(ones), "selects_checked": 2 * len(ones)})
			}
		})
		c.Count(evals, nontriv)
		c.Add("bitmaps", bitmaps)
	})
	// long sparse bitmaps: long runs of empty words between islands
	for _, ss := range c02Sparse(c) {
		ss := ss
		c.Expect(2*ss.Card() + 2*ss.OnesSum(func(w uint64) int64 { return int64(naivePop(w)) }))
		c.Par(ss.Shards(), func(sh int) {
			if c.TooMany() {
				return
			}
			var evals, nontriv, bitmaps int64
			var ones []int32
			ss.Each(sh, func(w []uint64) {
				bitmaps++
				order := int64(1)<<56 | int64(ss.Len)<<40 | int64(sh)<<28 | bitmaps
				var e, n int64
				e, n, ones = c02One(c, order, w, ones)
				evals += e
				nontriv += n
				if bitmaps == 777 && sh == 3 {
					c.ForceSample(map[string]interface{}{"sparse_words": ss.Len, "islands": ss.MaxIslands, "words": append(gen.Words(nil), w...), "ones": len(ones)})
				}
			})
			c.Count(evals, nontriv)
			c.Add("bitmaps", bitmaps)
			c.Add("sparse_long_bitmaps", bitmaps)
		})
	}
	// length sweep: every length 0..N × 4 patterns, one goroutine, collector off; every returned
	// index is compared once more after the NEXT bitmap has been indexed
	{
		maxLen := c.Pick(520, 2100)
		c.Set("length_sweep_max_words", maxLen)
		func() {
			defer debug.SetGCPercent(debug.SetGCPercent(-1))
			type kept struct {
				w          []uint64
				s1, s2, r2 []int32
				ws, wr     []int32
			}
			var prev *kept
			var evals int64
			var ones []int32
			for l := 0; l <= maxLen && !c.TooMany(); l++ {
				for p := 0; p < 4; p++ {
					w := c01SweepBitmap(l, p)
					order := int64(2)<<56 | int64(l)<<8 | int64(p)
					var e int64
					e, _, ones = c02One(c, order, w, ones)
					evals += e
					c.Expect(e)
					// keep what the library returned for this bitmap
					cur := &kept{w: w}
					cur.s1, _ = idxSel32(w)
					cur.s2, cur.r2, _ = idxSel32R64(w)
					for k := 0; k < len(ones); k += 32 {
						cur.ws = append(cur.ws, ones[k])
					}
					run := int32(0)
					for _, x := range w {
						cur.wr = append(cur.wr, run)
						run += naivePop(x)
					}
					cur.wr = append(cur.wr, run)
					if prev != nil {
						if !eqI32(prev.s1, prev.ws) || !eqI32(prev.s2, prev.ws) || !eqI32(prev.r2, prev.wr) {
							c.Fail(order, "retained", "retained", c02Case{Words: append(gen.Words(nil), prev.w...), Then: append(gen.Words(nil), w...)}, "", "")
							prev.s1, prev.s2, prev.r2 = prev.ws, prev.ws, prev.wr
						}
						evals++
						c.Expect(1)
					}
					prev = cur
				}
			}
			c.Count(evals, evals)
			c.Add("length_sweep_bitmaps", int64(4*(maxLen+1)))
		}()
	}
	// lengths around powers of two up to 2^16 words (size thresholds)
	{
		type job struct{ l, p int }
		var jobs []job
		for _, l := range gen.SizesAround(10, 16, []int{-1, 0, 1, 2, 3, 5, 7, 8, 9}) {
			for _, pat := range []int{1, 2, 3} {
				jobs = append(jobs, job{l, pat})
			}
		}
		// and EVERY length between the sequential sweep (0..520, thorough 2100) and 2^10
		for l := 521; l <= 1022; l++ {
			jobs = append(jobs, job{l, 1}, job{l, 3})
		}
		// a GAP of 2^16 .. 2^26 bits between consecutive select samples (pattern 11), also on 32-bit builds
		for _, l := range []int{1<<11 + 1, 1<<15 + 3, 1<<19 + 1, 1<<21 + 3} {
			jobs = append(jobs, job{l, 11})
		}
		if mbits.UintSize == 64 {
			// the top of the int32 position range: 2^25-1 and 2^25 words (64-bit builds)
			jobs = append([]job{{1<<25 - 1, 10}, {1 << 25, 10}, {1 << 25, 9}, {1 << 25, 11}}, jobs...) // first: they take longest
			c.Add("bitmaps_of_2^31_bits", 2)
		}
		c.Par(len(jobs), func(ji int) {
			if c.TooMany() {
				return
			}
			j := jobs[ji]
			w := c01SweepBitmap(j.l, j.p)
			e, n, _ := c02OneNamed(c, int64(3)<<56|int64(j.l)<<8|int64(j.p), w, nil, j.l, j.p)
			c.Count(e, n)
			c.Expect(e)
			c.Add("bitmaps", 1)
			c.Add("power_of_two_length_bitmaps", 1)
		})
	}
	// lane sweep
	const chunk = 4096
	nch := (len(lanes) + chunk - 1) / chunk
	base := int64(len(shards)) << 32
	c.Par(nch, func(ci int) {
		if c.TooMany() {
			return
		}
		var evals, nontriv, bitmaps int64
		var ones []int32
		hi := (ci + 1) * chunk
		if hi > len(lanes) {
			hi = len(lanes)
		}
		for k := ci * chunk; k < hi; k++ {
			lw := lanes[k]
			for emb, w := range [][]uint64{{lw}, {0, lw}, {^uint64(0), lw, 0, 1}} {
				order := base + int64(k)*3 + int64(emb)
				var e, n int64
				e, n, ones = c02One(c, order, w, ones)
				evals += e
				nontriv += n
				bitmaps++
				if c.WantSample(order) {
					c.ForceSample(map[string]interface{}{"words": gen.Words(w), "ones": len(ones), "lane_sweep": true})
				}
			}
		}
		c.Count(evals, nontriv)
		c.Add("bitmaps", bitmaps)
		c.Add("lane_sweep_bitmaps", bitmaps)
	})
}

func c02Judge(kind string, cs c02Case) (got, want string) {
	w := []uint64(cs.Words)
	if cs.Len > 0 {
		w = c01SweepBitmap(cs.Len, cs.Pattern)
	}
	if cs.EmptyForm > 0 {
		w = gen.EmptyU64(cs.EmptyForm - 1)
		if i := strings.Index(kind, "/empty-"); i >= 0 {
			kind = kind[:i]
		}
	}
	ones := onesOf(w, nil)
	var wantS []int32
	for k := 0; k < len(ones); k += 32 {
		wantS = append(wantS, ones[k])
	}
	wantR := []int32{}
	run := int32(0)
	for _, x := range w {
		wantR = append(wantR, run)
		run += naivePop(x)
	}
	wantR = append(wantR, run)
	switch kind {
	case "retained":
		defer debug.SetGCPercent(debug.SetGCPercent(-1))
		a1, _ := idxSel32(w)
		a2, a3, _ := idxSel32R64(w)
		idxSel32([]uint64(cs.Then))
		idxSel32R64([]uint64(cs.Then))
		return fmt.Sprint("after indexing another bitmap: ", a1, a2, a3), fmt.Sprint("after indexing another bitmap: ", wantS, wantS, wantR)
	case "IndexSelect32":
		s, p := idxSel32(w)
		return p + fmt.Sprint(s), fmt.Sprint(wantS)
	case "IndexSelect32R64":
		s, r, p := idxSel32R64(w)
		if cs.Len >= 1<<20 {
			// too long to print: name the first differing entry
			if p == "" && eqI32(s, wantS) && eqI32(r, wantR) {
				return "indexes match", "indexes match"
			}
			if p == "" && len(r) == len(wantR) {
				for k := range r {
					if r[k] != wantR[k] {
						return fmt.Sprintf("select index %v, rank entry %d = %d", s, k, r[k]), fmt.Sprintf("select index %v, rank entry %d = %d", wantS, k, wantR[k])
					}
				}
			}
			return fmt.Sprintf("%sselect index %v, %d rank entries", p, s, len(r)), fmt.Sprintf("select index %v, %d rank entries", wantS, len(wantR))
		}
		return p + fmt.Sprint(s, r), fmt.Sprint(wantS, wantR)
	}
	i := cs.I
	if int(i) >= len(ones) || i < 0 {
		return "case outside the statement (i >= number of ones)", "case outside the statement (i >= number of ones)"
	}
	wb := int32(64 * len(w))
	if int(i)+1 < len(ones) {
		wb = ones[i+1]
	}
	want = fmt.Sprintf("(%d,%d)", ones[i], wb)
	skipB := int64(64)*int64(len(w)) > 1<<31-1 && int(i)+1 == len(ones)
	if skipB {
		want = fmt.Sprintf("(%d,not representable)", ones[i])
	}
	var a, b int32
	var p bool
	switch kind {
	case "Select32":
		s, _ := idxSel32(w)
		a, b, p = sel32(w, s, i)
	case "Select32R64":
		s, r, _ := idxSel32R64(w)
		a, b, p = sel32r64(w, s, r, i)
	default:
		return "unknown kind " + kind, ""
	}
	if p {
		return "panic", want
	}
	if skipB {
		return fmt.Sprintf("(%d,not representable)", a), want
	}
	return fmt.Sprintf("(%d,%d)", a, b), want
}
