package props

import (
	"crypto/sha1"
	"encoding/json"
	"fmt"
	"os"
	"os/exec"
	"reflect"
	"runtime/debug"
	"strings"
	"sync"
	"syscall"
	"time"
	"unsafe"

	"github.com/openacid/low/bitmap"
	"github.com/openacid/low/bitstr"
	"github.com/openacid/low/bitword"
	"github.com/openacid/low/bmtree"
	"github.com/openacid/low/sigbits"

	"verif/mc"
	rf "verif/ref"
)

// C19: query and codec functions are pure and safe for concurrent readers (E4).
//
// This file is build-tag free: the function alphabet, the shared inputs, the
// exact argument write-footprint oracle (read-only mapped arguments) and the
// orchestration. The package-state snapshot and the schedule explorer need the
// instrumented build (c19_sched.go, tag verifsched); the free-running pass needs
// the -race build. Both run as worker processes of specially built binaries.

type c19Case struct {
	Call    string   `json:"call,omitempty"`
	Variant int      `json:"variant,omitempty"`
	Input   int      `json:"input_set"`
	Threads []string `json:"threads,omitempty"` // "call#variant"
	Choices []int    `json:"schedule,omitempty"`
	Bound   int      `json:"bound,omitempty"`
	Note    string   `json:"note,omitempty"`
	// Observed carries the race detector's report for cases of the (sampling)
	// free-running pass: such a report is a recorded fact, not a re-derivable one.
	Observed string `json:"observed,omitempty"`
}

func init() {
	mc.Register(&mc.Property{
		ID:    "C19",
		Level: "model_checking",
		Rule: "E4: (schedules) every unordered pair of the function alphabet (one entry per exported query/codec function of bitmap, bmtree, bitstr, bitword, sigbits + TailBitmap.Get/Get1) as a 2-thread program on SHARED inputs, all schedules with ≤P preemptions, and every triple over a 16-entry sub-alphabet with ≤P-1 preemptions; scheduling points are inserted automatically (vinstr, from the current working tree) before every statement that mentions a package-level variable, a method receiver or an alias of either; oracle: per-thread results equal the sequential results, exactly one outcome per program, package state unchanged; plus a COLD-START exploration in which every schedule of every same-function pair (thorough: and of every pair of the sub-alphabet) runs in a fresh process with inputs built by reference code, so that first-use windows of lazily initialised state are inside the schedules. " +
			"(footprint, no scheduling) every alphabet entry × every variant of its parameter grid × 4 input sets with all slice/string arguments in read-only mmap'ed memory (any store faults), package-state deep hash unchanged by every call after a full warm-up pass, results identical in forward and reverse order and identical between the plain and the instrumented binary; every returned value is kept (the value itself, not a copy) and rendered again after the whole pass, after one element was appended to every returned slice, and - on fresh arguments - after every argument buffer was overwritten as a caller reusing its buffers does (a result must not be a view of argument memory); and every element of every returned slice is overwritten in place, (first with a tag of its own per returned value, which each must still hold after all the others were filled: results must not share memory with each other), after which every call is made once more on the same arguments and must give what it gave before (a result must not be memory the library reads again: a table, a cache, an argument); and every call once more with every argument in a mapping of its own that ends in an inaccessible page - a string's last byte, a slice's last element of capacity is the last accessible byte - so that a read of even one byte beyond an argument faults, and once more with the inaccessible page right BEFORE every argument. (race pass, supplementary) the same bodies free-running under -race in a fresh process. " +
			"states = distinct schedules (choice-tree nodes), transitions = scheduling points executed; non-trivial schedules are those with at least one preemption.",
		Assumptions: []string{
			"preemption only at instrumented statements, at statement granularity, sequentially consistent memory; unsynchronised accesses elsewhere are left to the exact argument footprint and the (sampling) race pass",
			"inputs × schedules are bounded products (4 input sets for the footprint oracles, input set 0 for schedules)",
			"a thread that blocks outside the scheduler ends that program's exploration with exhaustive:false, never with a violation",
		},
		Run:   c19Run,
		Judge: c19Judge,
	})
	mc.RegisterWorker("c19race", c19RaceWorker)
}

// ---- inputs shared by all threads

type c19In struct {
	W                          []uint64
	RI64, RI64T, RI128, SI, RI []int32
	Ones                       int
	Keys                       []string
	KeySets                    [][]string
	DupKeys                    []string // a sorted list with REPEATED keys, each occurrence in memory of its own
	S                          string
	Strs                       []string
	Plains                     [][]byte
	Encs                       [][]byte
	Vals                       []uint64
	BMs                        [][]uint64
	Mask                       int32
	Nodes, Stored              []uint64
	WordLists                  [][]byte         // bitword words of the plain strings, complete and cut short
	WordWidths                 []int            // the width WordLists[i] is to be read with
	WordComplete               int              // the first WordComplete lists fill their last byte
	SB                         *sigbits.SigBits // built once from Keys, shared
	LongStrs                   []string         // 4100 short strings
	LongWords                  [][]byte         // their 2-bit words
	TB                         *bitmap.TailBitmap
	Longs                      [][]uint64 // bitmaps whose lengths sit around powers of two (index builders)
	Sparse                     [][]uint64 // long bitmaps that are all zero except two islands (range scans)
	SparseRI, SparseSI         [][]int32  // their rank (with trailing entry) and select indexes, built by reference code
	SparseR128                 [][]int32
	SparseOnes                 []int
	Pos                        []int32
	Subs                       [][]int32
	Sizes                      []int32
}

var c19Widths = []int{1, 2, 4, 8}

// alloc abstracts where argument memory comes from.
type alloc interface {
	u64s([]uint64) []uint64
	i32s([]int32) []int32
	bytes([]byte) []byte
	str(string) string
	strs([]string) []string
}

// Every argument slice gets SPARE CAPACITY (c19Spare elements beyond its length)
// filled with a canary: code that appends to, or reslices, an argument writes
// into memory the caller still owns. On the heap the canaries are verified after
// a pass; in the read-only arena the store faults.
const c19Spare = 3

const c19Canary = 0xC5

type heapAlloc struct {
	checks *[]func() string
	pokes  *[]func()
}

func newHeapAlloc() heapAlloc { return heapAlloc{checks: new([]func() string), pokes: new([]func())} }

func (h heapAlloc) onPoke(f func()) {
	if h.pokes != nil {
		*h.pokes = append(*h.pokes, f)
	}
}

// overwriteArguments does what a caller reusing its buffers does after the calls
// have returned: every element of every argument slice handed out is overwritten
// (strings themselves are immutable; the elements of a []string are replaced).
func (h heapAlloc) overwriteArguments() {
	if h.pokes == nil {
		return
	}
	for _, f := range *h.pokes {
		f()
	}
}

func (h heapAlloc) watch(f func() string) {
	if h.checks != nil {
		*h.checks = append(*h.checks, f)
	}
}

// spareIntact reports the first argument slice whose spare capacity was written to.
func (h heapAlloc) spareIntact() string {
	if h.checks == nil {
		return ""
	}
	for _, f := range *h.checks {
		if s := f(); s != "" {
			return s
		}
	}
	return ""
}

func (h heapAlloc) u64s(s []uint64) []uint64 {
	r := make([]uint64, len(s)+c19Spare)
	copy(r, s)
	for i := len(s); i < len(r); i++ {
		r[i] = 0xC5C5C5C5C5C5C5C5
	}
	n := len(s)
	h.onPoke(func() {
		for i := range r {
			r[i] = ^r[i] ^ 0x5a5a5a5a5a5a5a5a
		}
	})
	h.watch(func() string {
		for i := n; i < len(r); i++ {
			if r[i] != 0xC5C5C5C5C5C5C5C5 {
				return fmt.Sprintf("spare capacity of a []uint64 argument of length %d was written to (element %d beyond its length now %#x)", n, i-n, r[i])
			}
		}
		return ""
	})
	return r[:n]
}
func (h heapAlloc) i32s(s []int32) []int32 {
	r := make([]int32, len(s)+c19Spare)
	copy(r, s)
	for i := len(s); i < len(r); i++ {
		r[i] = -0x3a3a3a3b
	}
	n := len(s)
	h.onPoke(func() {
		for i := range r {
			r[i] = ^r[i] ^ 0x5a5a5a5a
		}
	})
	h.watch(func() string {
		for i := n; i < len(r); i++ {
			if r[i] != -0x3a3a3a3b {
				return fmt.Sprintf("spare capacity of a []int32 argument of length %d was written to", n)
			}
		}
		return ""
	})
	return r[:n]
}
func (h heapAlloc) bytes(s []byte) []byte {
	r := make([]byte, len(s)+c19Spare)
	copy(r, s)
	for i := len(s); i < len(r); i++ {
		r[i] = c19Canary
	}
	n := len(s)
	h.onPoke(func() {
		for i := range r {
			r[i] = ^r[i] ^ 0x5a
		}
	})
	h.watch(func() string {
		for i := n; i < len(r); i++ {
			if r[i] != c19Canary {
				return fmt.Sprintf("spare capacity of a []byte argument of length %d was written to", n)
			}
		}
		return ""
	})
	return r[:n]
}
func (heapAlloc) str(s string) string { return string(append([]byte{}, s...)) }
func (h heapAlloc) strs(s []string) []string {
	r := make([]string, len(s)+c19Spare)
	for i, x := range s {
		r[i] = string(append([]byte{}, x...))
	}
	for i := len(s); i < len(r); i++ {
		r[i] = "\xc5canary"
	}
	n := len(s)
	h.onPoke(func() {
		for i := range r {
			r[i] = "\x5aoverwritten by the caller"
		}
	})
	h.watch(func() string {
		for i := n; i < len(r); i++ {
			if r[i] != "\xc5canary" {
				return fmt.Sprintf("spare capacity of a []string argument of length %d was written to", n)
			}
		}
		return ""
	})
	return r[:n]
}

// arena hands out memory from one anonymous mapping that is later made read-only.
type arena struct {
	mem []byte
	off int
}

func newArena(size int) *arena {
	m, err := syscall.Mmap(-1, 0, size, syscall.PROT_READ|syscall.PROT_WRITE, syscall.MAP_ANON|syscall.MAP_PRIVATE)
	if err != nil {
		panic("harness: mmap: " + err.Error())
	}
	return &arena{mem: m}
}

func (a *arena) take(n int) unsafe.Pointer {
	a.off = (a.off + 15) &^ 15
	if n == 0 {
		n = 16 // empty slices still get a distinct, in-arena base
	}
	if a.off+n > len(a.mem) {
		panic("harness: arena too small")
	}
	p := unsafe.Pointer(&a.mem[a.off])
	a.off += n
	return p
}

func (a *arena) u64s(s []uint64) []uint64 {
	r := unsafe.Slice((*uint64)(a.take(8*(len(s)+c19Spare))), len(s)+c19Spare)
	copy(r, s)
	return r[:len(s)] // spare capacity lies inside the read-only mapping too
}
func (a *arena) i32s(s []int32) []int32 {
	r := unsafe.Slice((*int32)(a.take(4*(len(s)+c19Spare))), len(s)+c19Spare)
	copy(r, s)
	return r[:len(s)]
}
func (a *arena) bytes(s []byte) []byte {
	r := unsafe.Slice((*byte)(a.take(len(s)+c19Spare)), len(s)+c19Spare)
	copy(r, s)
	return r[:len(s)]
}
func (a *arena) str(s string) string {
	b := a.bytes([]byte(s))
	return unsafe.String(unsafe.SliceData(b), len(s))
}
func (a *arena) strs(s []string) []string {
	r := unsafe.Slice((*string)(a.take(16*(len(s)+c19Spare))), len(s)+c19Spare)
	for i, x := range s {
		r[i] = a.str(x)
	}
	return r[:len(s)]
}
func (a *arena) protect() {
	if err := syscall.Mprotect(a.mem, syscall.PROT_READ); err != nil {
		panic("harness: mprotect: " + err.Error())
	}
}
func (a *arena) free() {
	syscall.Mprotect(a.mem, syscall.PROT_READ|syscall.PROT_WRITE)
	syscall.Munmap(a.mem)
}

// guardAlloc gives every argument a mapping of its own that ends in an inaccessible
// page: a slice's capacity (a string's length) ends exactly where the guard page
// begins, so a read of even one byte beyond an argument faults - as does, once
// protect() was called, any write to it.
type guardAlloc struct {
	maps  [][]byte
	sizes []int
	// before: the inaccessible page lies BEFORE the argument, which starts at a page boundary
	// (a read of even one byte in front of an argument faults)
	before bool
}

func (g *guardAlloc) take(n int) unsafe.Pointer {
	page := syscall.Getpagesize()
	size := (n + page - 1) / page * page
	if size == 0 {
		size = page
	}
	if g.before {
		m, err := syscall.Mmap(-1, 0, size+page, syscall.PROT_READ|syscall.PROT_WRITE, syscall.MAP_ANON|syscall.MAP_PRIVATE)
		if err != nil {
			panic("harness: mmap: " + err.Error())
		}
		if err := syscall.Mprotect(m[:page], syscall.PROT_NONE); err != nil {
			panic("harness: mprotect: " + err.Error())
		}
		g.maps = append(g.maps, m)
		g.sizes = append(g.sizes, size)
		return unsafe.Pointer(&m[page])
	}
	m, err := syscall.Mmap(-1, 0, size+page, syscall.PROT_READ|syscall.PROT_WRITE, syscall.MAP_ANON|syscall.MAP_PRIVATE)
	if err != nil {
		panic("harness: mmap: " + err.Error())
	}
	if err := syscall.Mprotect(m[size:], syscall.PROT_NONE); err != nil {
		panic("harness: mprotect: " + err.Error())
	}
	g.maps = append(g.maps, m)
	g.sizes = append(g.sizes, size)
	if n == 0 {
		return unsafe.Pointer(&m[size-16]) // an empty argument still gets a distinct base
	}
	return unsafe.Pointer(&m[size-n])
}

func (g *guardAlloc) u64s(s []uint64) []uint64 {
	r := unsafe.Slice((*uint64)(g.take(8*(len(s)+c19Spare))), len(s)+c19Spare)
	copy(r, s)
	for i := len(s); i < len(r); i++ {
		r[i] = 0xC5C5C5C5C5C5C5C5
	}
	return r[:len(s)]
}
func (g *guardAlloc) i32s(s []int32) []int32 {
	r := unsafe.Slice((*int32)(g.take(4*(len(s)+c19Spare))), len(s)+c19Spare)
	copy(r, s)
	for i := len(s); i < len(r); i++ {
		r[i] = -0x3a3a3a3b
	}
	return r[:len(s)]
}
func (g *guardAlloc) bytes(s []byte) []byte {
	r := unsafe.Slice((*byte)(g.take(len(s)+c19Spare)), len(s)+c19Spare)
	copy(r, s)
	for i := len(s); i < len(r); i++ {
		r[i] = c19Canary
	}
	return r[:len(s)]
}
func (g *guardAlloc) str(s string) string {
	if len(s) == 0 {
		return ""
	}
	b := unsafe.Slice((*byte)(g.take(len(s))), len(s)) // no spare: the string ends at the guard page
	copy(b, s)
	return unsafe.String(unsafe.SliceData(b), len(s))
}
func (g *guardAlloc) strs(s []string) []string {
	r := unsafe.Slice((*string)(g.take(16*(len(s)+c19Spare))), len(s)+c19Spare)
	for i, x := range s {
		r[i] = g.str(x)
	}
	for i := len(s); i < len(r); i++ {
		r[i] = "\xc5canary"
	}
	return r[:len(s)]
}
func (g *guardAlloc) protect() {
	for i, m := range g.maps {
		acc := m[:g.sizes[i]]
		if g.before {
			acc = m[len(m)-g.sizes[i]:]
		}
		if err := syscall.Mprotect(acc, syscall.PROT_READ); err != nil {
			panic("harness: mprotect: " + err.Error())
		}
	}
}
func (g *guardAlloc) free() {
	for _, m := range g.maps {
		syscall.Munmap(m)
	}
	g.maps, g.sizes = nil, nil
}

const c19InputSets = 4

// c19Build builds input set number k with argument memory from al. Everything
// handed to a library function as a slice or string comes from al.
func c19Build(k int, al alloc) *c19In {
	ws := [][]uint64{
		{0xdeadbeefcafebabe, 0, 0x8000000000000001, ^uint64(0)},
		{^uint64(0), ^uint64(0), 0x00ff00ff00ff00ff, 1},
		{1 << 63, 0xAAAAAAAAAAAAAAAA, 0, 0x0101010101010101},
		{0x5555555555555555, 1, ^uint64(0), 1 << 31},
	}
	keysets := [][]string{
		{"abcdefgh1", "abcdefgh2", "abd", "b", "b\x00", "b\x00\x01", "zz"},
		{"", "\x00", "\x00\x00", "a", "a\xff", "stemSTEMs", "stemSTEMt", "\xff"},
		{"k", "k1", "k12", "k123", "k1234", "k12345", "k123456", "k1234567", "k12345678", "k123456789"},
		{"\x01", "\x02", "\x7f", "\x80", "\x80\x80", "\xfe\xff", "\xff\xff\xff"},
	}
	ss := []string{"abc\xa5\x5a\x00\xffxyz", "\xff\x00\xff\x00\xa5", "stemSTEMstemSTEM\x80\x01", "a"}
	in := &c19In{}
	w := ws[k%len(ws)]
	in.W = al.u64s(w)
	// indexes, node lists and word lists are built by REFERENCE code, not by the library: building
	// the inputs must not warm up (lazily initialise) the functions a cold-start exploration is about
	{
		var pre []int32
		var sel []int32
		n := int32(0)
		for wi, x := range w {
			pre = append(pre, n)
			for b := 0; b < 64; b++ {
				if x>>uint(b)&1 == 1 {
					if n%32 == 0 {
						sel = append(sel, int32(64*wi+b))
					}
					n++
				}
			}
		}
		in.Ones = int(n)
		in.RI64 = al.i32s(pre)
		in.RI64T = al.i32s(append(append([]int32{}, pre...), n))
		in.RI128 = al.i32s(ref128(pre, n, len(w)))
		in.SI = al.i32s(sel)
		in.RI = al.i32s(append(append([]int32{}, pre...), n))
	}
	keys := keysets[k%len(keysets)]
	in.Keys = al.strs(keys)
	in.KeySets = [][]string{al.strs(keys[:1]), al.strs(keys[:2]), al.strs(keys[1:]), al.strs(keys)}
	in.DupKeys = al.strs([]string{"", "", "a", "a", "ab", "b\x00", "b\x00", "b\x00", keys[len(keys)-1], keys[len(keys)-1]})
	s := ss[k%len(ss)]
	in.S = al.str(s)
	plain := []string{"", "a", s, s[:len(s)/2], "stemSTEM", "stemSTEMs", keys[len(keys)-1], "\xff\xff"}
	in.Strs = al.strs(plain)
	for _, p := range plain {
		in.Plains = append(in.Plains, al.bytes([]byte(p)))
	}
	n8 := int32(8 * len(s))
	for _, r := range [][2]int32{{0, 0}, {0, 3}, {0, 8}, {0, 9}, {8, 8}, {8, 21}, {5, n8}, {0, n8}, {16, n8 - 3}, {n8, n8}} {
		if r[0] <= r[1] && r[1] <= n8 && r[0] <= n8 {
			in.Encs = append(in.Encs, al.bytes(bitstr.New(s, r[0], r[1])))
		}
	}
	in.Encs = append(in.Encs, al.bytes(bitstr.New("stemSTEMstem", 0, 77)), al.bytes(bitstr.New("stemSTEMs", 0, 72)))
	// encodings that bitstr.New does NOT produce (a 1-bit in the last payload byte outside the trailing mask,
	// a trailing byte that is no mask, a lone trailing byte): purity is promised for every slice passed in,
	// not only for canonical ones, and every oracle here is differential (same result in every order and
	// schedule, no store into the argument), so no reference value is needed for them
	for _, e := range [][]byte{{0x61, 0x6f, 0xf0}, {0xff, 0xff, 0x80}, {0x61, 0x62, 0x63, 0xff, 0xc0}, {0x61, 0x55}, {0x80}, {0xff}, {0x00, 0x00},
		{'s', 't', 'e', 'm', 'S', 'T', 'E', 'M', 0xff, 0xe0}, {'s', 't', 'e', 'm', 'S', 'T', 'E', 0xff, 0xfe}} {
		in.Encs = append(in.Encs, al.bytes(e))
	}
	in.Vals = al.u64s([]uint64{0, 1, ^uint64(0), 0xa5a5a5a5a5a5a5a5, 1 << 63, uint64(k) + 2, 0x0f0f})
	in.Mask = []int32{0x2d, 0x3f, 0x20, 0x35}[k%4]
	ref := int32(in.Mask)
	var nodes, stored []uint64 // all nodes of the height-5 tree, and the stored ones, in pre-order
	rf.Walk(0x3f, func(path, _ uint64, _ int, _ int32, _ bool) { nodes = append(nodes, path) })
	rf.Walk(ref, func(path, _ uint64, _ int, _ int32, st bool) {
		if st {
			stored = append(stored, path)
		}
	})
	in.Nodes = al.u64s(nodes)
	in.Stored = al.u64s(stored)
	for b := uint64(0); b < 1<<13; b += 257 + uint64(k) {
		in.BMs = append(in.BMs, al.u64s([]uint64{b * 0x9e3779b97f4a7c15}))
	}
	in.BMs = append(in.BMs, al.u64s([]uint64{}), al.u64s([]uint64{^uint64(0), ^uint64(0)}))
	for i, p := range plain {
		in.WordLists = append(in.WordLists, al.bytes(refWords(p, c19Widths[i%4])))
		in.WordWidths = append(in.WordWidths, c19Widths[i%4])
	}
	// a list long enough for any chunked / parallel element-wise conversion (4100 > 4096)
	{
		var ls []string
		var lw [][]byte
		for i := 0; i < 4100; i++ {
			x := string([]byte{byte(i), byte(i >> 8), byte(k)})
			ls = append(ls, x[:1+i%3])
			lw = append(lw, al.bytes(refWords(x[:1+i%3], 2)))
		}
		in.LongStrs = al.strs(ls)
		in.LongWords = lw
	}
	in.SB = sigbits.New(in.Keys)
	in.WordComplete = len(in.WordLists)
	// word lists that do NOT fill their last byte (ToStr has to pad): every width < 8, 1..3 words short
	for i, p := range plain {
		w := c19Widths[i%3]
		full := refWords(p, w)
		for cut := 1; cut <= 3 && cut < len(full); cut++ {
			in.WordLists = append(in.WordLists, al.bytes(full[:len(full)-cut]))
			in.WordWidths = append(in.WordWidths, w)
		}
	}
	// word lists with OUT-OF-RANGE words (>= 2^width): ToStr's result for them is not specified, its purity is
	for _, w := range []int{1, 2, 4} {
		in.WordLists = append(in.WordLists, al.bytes([]byte{0xff, 1, 0x80, 3, 0x7f, 0, 0xa5, 1, 2}))
		in.WordWidths = append(in.WordWidths, w)
	}
	for _, l := range []int{1, 2, 3, 63, 64, 65, 126, 127, 128, 129, 254, 255, 256, 257, 510, 511, 512, 513, 1022, 1023, 1024, 1025} {
		lw := make([]uint64, l)
		for i := range lw {
			lw[i] = w[(i+k+l)%len(w)] ^ uint64(i+7*l)*0x9e3779b97f4a7c15 // differs per length: a reused buffer shows
		}
		in.Longs = append(in.Longs, al.u64s(lw))
	}
	// long SPARSE bitmaps for the functions that scan a range (NextOne, PrevOne, ToArray, Slice): 18..1030
	// words, all zero except one island near the start and one three words before the end, so a scan crosses
	// long runs of empty words and the range ends in empty words (a sentinel planted there would be a store)
	for _, l := range []int{18, 24, 40, 70, 130, 1030, 25, 32} {
		sp := make([]uint64, l)
		sp[(k+l)%2] = 1<<63 | uint64(k+1)
		sp[l-3] = 0x8000000000000001
		if l == 25 || l == 32 {
			// two words that cancel when ADDED (1<<63 twice) three words apart, twice: whatever 64-byte line
			// the data starts in, one pair shares a line in one of the allocations (heap, arena, guard page)
			sp[l-3] = 0
			sp[5], sp[8], sp[14], sp[17] = 1<<63, 1<<63, 1<<63, 1<<63
		}
		in.Sparse = append(in.Sparse, al.u64s(sp))
		var pre, sel []int32
		cnt := int32(0)
		for wi, x := range sp {
			pre = append(pre, cnt)
			for b := 0; b < 64; b++ {
				if x>>uint(b)&1 == 1 {
					if cnt%32 == 0 {
						sel = append(sel, int32(64*wi+b))
					}
					cnt++
				}
			}
		}
		in.SparseRI = append(in.SparseRI, al.i32s(append(append([]int32{}, pre...), cnt)))
		in.SparseSI = append(in.SparseSI, al.i32s(sel))
		in.SparseR128 = append(in.SparseR128, al.i32s(ref128(pre, cnt, len(sp))))
		in.SparseOnes = append(in.SparseOnes, int(cnt))
	}
	in.Pos = al.i32s([]int32{0, 1, 63, 64, 65, int32(100 + k), 191})
	in.Subs = [][]int32{al.i32s([]int32{0, 63}), al.i32s([]int32{}), al.i32s([]int32{1, 64, int32(65 + k)})}
	in.Sizes = al.i32s([]int32{64, 3, 130})
	tb := bitmap.NewTailBitmap(64)
	for _, j := range []int64{64, 65, 66, 130, 191, 200, 300, 5} {
		tb.Set(j + int64(k))
	}
	for j := int64(64); j < 128; j++ {
		tb.Set(j)
	}
	tb.Words = al.u64s(tb.Words)
	in.TB = tb
	return in
}

// ---- the function alphabet

type c19Call struct {
	Name string
	N    func(in *c19In) int
	Do   func(in *c19In, k int) interface{}
	Tri  bool // member of the sub-alphabet used for triples
}

func nb(in *c19In) int { return 64 * len(in.W) }

func c19Alphabet() []c19Call {
	longs := func(in *c19In) int { return 1 + len(in.Longs) }
	long := func(in *c19In, k int) []uint64 {
		if k == 0 {
			return in.W
		}
		return in.Longs[k-1]
	}
	bits := func(in *c19In) int { return nb(in) }
	pr := func(a ...interface{}) interface{} {
		if len(a) == 1 {
			return a[0]
		}
		return a
	}
	return []c19Call{
		{"bitmap.Rank64", bits, func(in *c19In, k int) interface{} { a, b := bitmap.Rank64(in.W, in.RI64, int32(k)); return pr(a, b) }, true},
		{"bitmap.Rank64/trailing", bits, func(in *c19In, k int) interface{} { a, b := bitmap.Rank64(in.W, in.RI64T, int32(k)); return pr(a, b) }, false},
		{"bitmap.Rank128", bits, func(in *c19In, k int) interface{} { a, b := bitmap.Rank128(in.W, in.RI128, int32(k)); return pr(a, b) }, false},
		{"bitmap.Select32", func(in *c19In) int { return in.Ones }, func(in *c19In, k int) interface{} { a, b := bitmap.Select32(in.W, in.SI, int32(k)); return pr(a, b) }, true},
		{"bitmap.Select32R64", func(in *c19In) int { return in.Ones }, func(in *c19In, k int) interface{} {
			a, b := bitmap.Select32R64(in.W, in.SI, in.RI, int32(k))
			return pr(a, b)
		}, true},
		{"bitmap.NextOne", bits, func(in *c19In, k int) interface{} { return pr(bitmap.NextOne(in.W, int32(k), int32(nb(in)-k%7))) }, true},
		{"bitmap.PrevOne", bits, func(in *c19In, k int) interface{} { return pr(bitmap.PrevOne(in.W, int32(k%5), int32(k+1))) }, true},
		{"bitmap.NextOne/sparse", func(in *c19In) int { return len(in.Sparse) * 30 }, func(in *c19In, k int) interface{} {
			bm := in.Sparse[k/30]
			n := int32(64 * len(bm))
			i := []int32{0, 1, 63, 64, 65, 130}[k%30/5]
			end := []int32{n, n - 1, n - 64, n - 65, n / 2}[k%5]
			return pr(bitmap.NextOne(bm, i, end))
		}, false},
		{"bitmap.PrevOne/sparse", func(in *c19In) int { return len(in.Sparse) * 30 }, func(in *c19In, k int) interface{} {
			bm := in.Sparse[k/30]
			n := int32(64 * len(bm))
			i := []int32{0, 1, 63, 64, 65, 130}[k%30/5]
			end := []int32{n, n - 1, n - 64, n - 65, n / 2}[k%5]
			return pr(bitmap.PrevOne(bm, i, end))
		}, false},
		// rank and select across LONG RUNS of empty words (the island near the end is hundreds of words past
		// the sampled 1-bit): every 1-bit of every sparse bitmap, and ranks at both ends of every island
		{"bitmap.Select32R64/sparse", func(in *c19In) int { return len(in.Sparse) * 8 }, func(in *c19In, k int) interface{} {
			j := k / 8
			i := int32(k % 8 * (in.SparseOnes[j] - 1) / 7)
			a, b := bitmap.Select32R64(in.Sparse[j], in.SparseSI[j], in.SparseRI[j], i)
			return pr(a, b)
		}, false},
		{"bitmap.Select32/sparse", func(in *c19In) int { return len(in.Sparse) * 8 }, func(in *c19In, k int) interface{} {
			j := k / 8
			i := int32(k % 8 * (in.SparseOnes[j] - 1) / 7)
			a, b := bitmap.Select32(in.Sparse[j], in.SparseSI[j], i)
			return pr(a, b)
		}, false},
		{"bitmap.Rank64+Rank128/sparse", func(in *c19In) int { return len(in.Sparse) * 6 }, func(in *c19In, k int) interface{} {
			j := k / 6
			n := int32(64 * len(in.Sparse[j]))
			i := []int32{0, 63, 129, n - 193, n - 129, n - 1}[k%6]
			a, b := bitmap.Rank64(in.Sparse[j], in.SparseRI[j], i)
			c, d := bitmap.Rank128(in.Sparse[j], in.SparseR128[j], i)
			return pr(a, b, c, d)
		}, false},
		{"bitmap.ToArray/sparse", func(in *c19In) int { return len(in.Sparse) }, func(in *c19In, k int) interface{} { return pr(bitmap.ToArray(in.Sparse[k])) }, false},
		{"bitmap.Slice/sparse", func(in *c19In) int { return len(in.Sparse) * 3 }, func(in *c19In, k int) interface{} {
			bm := in.Sparse[k/3]
			n := int32(64 * len(bm))
			return pr(bitmap.Slice(bm, []int32{0, 65, 130}[k%3], n-int32(k%3)*63))
		}, false},
		{"bitmap.Slice", func(in *c19In) int { return nb(in) / 5 }, func(in *c19In, k int) interface{} {
			to := 5*k + 70
			if to > nb(in) {
				to = nb(in)
			}
			return pr(bitmap.Slice(in.W, int32(5*k), int32(to)))
		}, false},
		{"bitmap.ToArray", func(in *c19In) int { return len(in.W) }, func(in *c19In, k int) interface{} { return pr(bitmap.ToArray(in.W[:k+1])) }, false},
		{"bitmap.Get", bits, func(in *c19In, k int) interface{} { return pr(bitmap.Get(in.W, int32(k))) }, true},
		{"bitmap.Get1", bits, func(in *c19In, k int) interface{} { return pr(bitmap.Get1(in.W, int32(k))) }, false},
		{"bitmap.Getw", func(in *c19In) int { return nb(in) / 4 }, func(in *c19In, k int) interface{} { return pr(bitmap.Getw(in.W, int32(k), 4)) }, false},
		{"bitmap.SafeGet", func(in *c19In) int { return nb(in) + 140 }, func(in *c19In, k int) interface{} {
			return pr(bitmap.SafeGet(in.W, int32(k-70)), bitmap.SafeGet1(in.W, int32(k-70)))
		}, false},
		{"bitmap.FromStr32", func(in *c19In) int { return 8*len(in.S) + 9 }, func(in *c19In, k int) interface{} {
			a, b := bitmap.FromStr32(in.S, int32(k), int32(k+(k*7)%33))
			return pr(a, b)
		}, true},
		{"bitmap.IndexRank64", longs, func(in *c19In, k int) interface{} { return pr(bitmap.IndexRank64(long(in, k), true)) }, false},
		{"bitmap.IndexRank128", longs, func(in *c19In, k int) interface{} { return pr(bitmap.IndexRank128(long(in, k))) }, false},
		{"bitmap.IndexSelect32", longs, func(in *c19In, k int) interface{} { return pr(bitmap.IndexSelect32(long(in, k))) }, false},
		{"bitmap.IndexSelect32R64", longs, func(in *c19In, k int) interface{} { a, b := bitmap.IndexSelect32R64(long(in, k)); return pr(a, b) }, false},
		{"bitmap.Join", func(*c19In) int { return 7 }, func(in *c19In, k int) interface{} { return pr(bitmap.Join(in.Vals, int32(1)<<uint(k))) }, false},
		{"bitmap.Fmt", func(in *c19In) int { return len(in.W) }, func(in *c19In, k int) interface{} { return bitmap.Fmt(in.W[:k+1]) }, false},
		{"bitmap.Of", func(in *c19In) int { return len(in.Pos) }, func(in *c19In, k int) interface{} { return pr(bitmap.Of(in.Pos[:k+1], int32(70*k))) }, false},
		{"bitmap.OfMany", func(*c19In) int { return 3 }, func(in *c19In, k int) interface{} { return pr(bitmap.OfMany(in.Subs[:k+1], in.Sizes[:k+1])) }, false},
		{"bmtree.Height/PathLen/PathHeight/PathBits/PathMask", func(in *c19In) int { return len(in.Nodes) }, func(in *c19In, k int) interface{} {
			p := in.Nodes[k]
			return pr(bmtree.Height(in.Mask), bmtree.PathLen(p), bmtree.PathHeight(p), bmtree.PathBits(p), bmtree.PathMask(p))
		}, false},
		{"bmtree.PathToIndex", func(in *c19In) int { return len(in.Stored) }, func(in *c19In, k int) interface{} { return pr(bmtree.PathToIndex(in.Mask, in.Stored[k])) }, true},
		{"bmtree.PathToIndexLoose", func(in *c19In) int { return len(in.Nodes) }, func(in *c19In, k int) interface{} {
			a, b := bmtree.PathToIndexLoose(in.Mask, in.Nodes[k])
			return pr(a, b)
		}, false},
		{"bmtree.IndexToPath/h3", func(*c19In) int { return 15 }, func(in *c19In, k int) interface{} { return pr(bmtree.IndexToPath(3, int32(k))) }, true},
		{"bmtree.IndexToPath/h7", func(*c19In) int { return 255 }, func(in *c19In, k int) interface{} { return pr(bmtree.IndexToPath(7, int32(k))) }, true},
		{"bmtree.AllPaths", func(in *c19In) int { return len(in.Nodes) }, func(in *c19In, k int) interface{} {
			to := k + 9
			if to >= len(in.Nodes) {
				to = len(in.Nodes) - 1
			}
			return pr(bmtree.AllPaths(in.Mask, in.Nodes[k], in.Nodes[to]+1))
		}, true},
		{"bmtree.AllPaths/whole-small-trees", func(*c19In) int { return 12 }, func(in *c19In, k int) interface{} {
			// every node of the full trees of height 0..5 and of six partial ones: the ranges Decode asks for
			masks := []int32{1, 3, 7, 15, 31, 63, 2, 4, 5, 6, 0xa, 0x19}
			return pr(bmtree.AllPaths(masks[k], 0, 1<<63))
		}, false},
		{"bmtree.Decode", func(in *c19In) int { return len(in.BMs) }, func(in *c19In, k int) interface{} {
			if k%2 == 0 {
				return pr(bmtree.Decode(in.Mask&0x3|0x4, in.BMs[k])) // height 2: short enough for schedule exploration
			}
			return pr(bmtree.Decode(in.Mask&0x1f|0x10, in.BMs[k]))
		}, false},
		{"bmtree.NewPath", func(*c19In) int { return 30 }, func(in *c19In, k int) interface{} { return pr(bmtree.NewPath(uint64(k)<<2, int32(k%8), 9)) }, false},
		{"bmtree.PathOf", func(in *c19In) int { return 8 * len(in.S) }, func(in *c19In, k int) interface{} { return pr(bmtree.PathOf(in.S, int32(k), 12)) }, false},
		{"bmtree.PathsOf", func(*c19In) int { return 16 }, func(in *c19In, k int) interface{} { return pr(bmtree.PathsOf(in.Keys, int32(k), 9, k&1 == 1)) }, false},
		{"bmtree.PathStr", func(in *c19In) int { return len(in.Nodes) }, func(in *c19In, k int) interface{} { return bmtree.PathStr(in.Nodes[k]) }, false},
		{"bitstr.New", func(*c19In) int { return 64 }, func(in *c19In, k int) interface{} {
			from := int32(k%5) * 3
			to := from + int32(k%17)
			if to > int32(8*len(in.S)) {
				to = int32(8 * len(in.S))
			}
			if from > to {
				from = to
			}
			return pr(bitstr.New(in.S, from, to))
		}, true},
		{"bitstr.Cmp", func(in *c19In) int { return len(in.Encs) * len(in.Encs) }, func(in *c19In, k int) interface{} {
			return pr(bitstr.Cmp(in.Encs[k/len(in.Encs)], in.Encs[k%len(in.Encs)]))
		}, false},
		{"bitstr.CmpUpto", func(in *c19In) int { return len(in.Plains) * len(in.Encs) }, func(in *c19In, k int) interface{} {
			return pr(bitstr.CmpUpto(in.Plains[k/len(in.Encs)], in.Encs[k%len(in.Encs)]))
		}, false},
		{"bitstr.StrCmpUpto", func(in *c19In) int { return len(in.Strs) * len(in.Encs) }, func(in *c19In, k int) interface{} {
			return pr(bitstr.StrCmpUpto(in.Strs[k/len(in.Encs)], in.Encs[k%len(in.Encs)]))
		}, false},
		{"bitstr.Len", func(in *c19In) int { return len(in.Encs) }, func(in *c19In, k int) interface{} { return pr(bitstr.Len(in.Encs[k])) }, false},
		{"bitword.FromStr", func(in *c19In) int { return 4 * len(in.Strs) }, func(in *c19In, k int) interface{} {
			return pr(bitword.BitWord[c19Widths[k%4]].FromStr(in.Strs[k/4]))
		}, true},
		{"bitword.ToStr", func(in *c19In) int { return in.WordComplete }, func(in *c19In, k int) interface{} {
			return c19Hex(bitword.BitWord[in.WordWidths[k]].ToStr(in.WordLists[k])) // the string itself: re-read after the pass
		}, false},
		{"bitword.ToStr/partial-last-byte", func(in *c19In) int { return len(in.WordLists) - in.WordComplete }, func(in *c19In, k int) interface{} {
			k += in.WordComplete
			return c19Hex(bitword.BitWord[in.WordWidths[k]].ToStr(in.WordLists[k]))
		}, false},
		{"bitword.Get", func(in *c19In) int { return 4 * len(in.S) }, func(in *c19In, k int) interface{} {
			w := c19Widths[k%4]
			return pr(bitword.BitWord[w].Get(in.S, (k/4)%(8*len(in.S)/w)))
		}, true},
		{"bitword.FirstDiff", func(in *c19In) int { return 4 * len(in.Strs) * len(in.Strs) }, func(in *c19In, k int) interface{} {
			n := len(in.Strs)
			return pr(bitword.BitWord[c19Widths[k%4]].FirstDiff(in.Strs[(k/4)/n], in.Strs[(k/4)%n], 0, -1))
		}, false},
		{"bitword.FromStrs/ToStrs", func(*c19In) int { return 8 }, func(in *c19In, k int) interface{} {
			bw := bitword.BitWord[c19Widths[k%4]]
			if k >= 4 {
				return c19HexList(bw.ToStrs(bw.FromStrs(in.Strs[:2]))) // short: for schedule exploration
			}
			return c19HexList(bw.ToStrs(bw.FromStrs(in.Strs)))
		}, false},
		{"bitword.ToStrs", func(*c19In) int { return 8 }, func(in *c19In, k int) interface{} {
			var lists [][]byte
			for i := range in.WordLists { // the word lists of width c19Widths[k%4]: the complete ones, or (k >= 4) two cut short
				if in.WordWidths[i] != c19Widths[k%4] {
					continue
				}
				if (k < 4 && i < in.WordComplete) || (k >= 4 && i >= in.WordComplete && len(lists) < 2) {
					lists = append(lists, in.WordLists[i])
				}
			}
			return c19HexList(bitword.BitWord[c19Widths[k%4]].ToStrs(lists))
		}, false},
		{"bitword.FromStrs/ToStrs/long-list", func(*c19In) int {
			if c19Instrumented {
				return 1 // the long variants stay out of the schedule explorers
			}
			return 3
		}, func(in *c19In, k int) interface{} {
			// variant 0 is short (the schedule explorer picks it); 1 and 2 convert 4100 elements: a conversion
			// that splits long lists into chunks (and runs them side by side) is reached by the order,
			// footprint, retained and race passes
			switch k {
			case 1:
				r := bitword.BitWord[4].FromStrs(in.LongStrs)
				h := sha1.New()
				for _, x := range r {
					h.Write(x)
					h.Write([]byte{0xff})
				}
				return fmt.Sprintf("%d elements, sha1 %x", len(r), h.Sum(nil)[:8])
			case 2:
				r := bitword.BitWord[2].ToStrs(in.LongWords)
				h := sha1.New()
				for _, x := range r {
					h.Write([]byte(x))
					h.Write([]byte{0xff})
				}
				return fmt.Sprintf("%d elements, sha1 %x", len(r), h.Sum(nil)[:8])
			}
			return c19HexList(bitword.BitWord[8].ToStrs(bitword.BitWord[8].FromStrs(in.Strs[:2])))
		}, false},
		{"bitword.FromStrs", func(*c19In) int { return 4 }, func(in *c19In, k int) interface{} {
			return bitword.BitWord[c19Widths[k%4]].FromStrs(in.Strs[:3]) // the slices themselves: re-read and poked after the pass
		}, false},
		{"sigbits.FirstDiffBits", func(in *c19In) int { return len(in.KeySets) }, func(in *c19In, k int) interface{} { return pr(sigbits.FirstDiffBits(in.KeySets[k])) }, true},
		{"sigbits.FirstDiffBits/repeated-keys", func(*c19In) int { return 1 }, func(in *c19In, k int) interface{} { return pr(sigbits.FirstDiffBits(in.DupKeys)) }, false},
		{"sigbits.New/repeated-keys", func(*c19In) int { return 3 }, func(in *c19In, k int) interface{} {
			// equal neighbours are legal input for New and FirstDiffBits (purity is promised for every list)
			sb := sigbits.New(in.DupKeys)
			a, b := sb.CountPrefixes(0, int32(len(in.DupKeys)-2*k), int32(2+k))
			return pr(a, b)
		}, false},
		{"sigbits.New+CountPrefixes", func(in *c19In) int { return len(in.Keys) - 1 }, func(in *c19In, k int) interface{} {
			sb := sigbits.New(in.Keys)
			a, b := sb.CountPrefixes(int32(k%2), int32(k+2), int32(1+k%9))
			return pr(a, b)
		}, false},
		{"sigbits.CountPrefixes/shared-object", func(*c19In) int { return 12 }, func(in *c19In, k int) interface{} {
			// ONE SigBits object shared by all callers, queried with wide and narrow counter lists in turn:
			// a query is a function of (keys, s, e, m), not of the queries that came before it
			ms := []int32{9, 2, 12, 1, 7, 3, 16, 2, 5, 11, 1, 8}
			e := int32(len(in.Keys) - k%3)
			a, b := in.SB.CountPrefixes(int32(k%2), e, ms[k])
			return pr(a, b)
		}, true},
		{"sigbits.CountPrefixes/shared-object/single-key-and-empty-ranges", func(in *c19In) int { return 2 * len(in.Keys) }, func(in *c19In, k int) interface{} {
			// ranges of ONE key (and of none) in between the others: whatever such a call returns, it is a query
			// on the shared object - the wide ranges queried before and after it must not notice
			s := int32(k / 2)
			a, b := in.SB.CountPrefixes(s, s+int32(k%2), 4)
			c, d := in.SB.CountPrefixes(0, int32(len(in.Keys)), 6)
			return pr(a, b, c, d)
		}, false},
		{"sigbits.ShardByPrefix", func(in *c19In) int { return len(in.Keys) + 1 }, func(in *c19In, k int) interface{} {
			a, b := sigbits.ShardByPrefix(in.Keys, int32(k+1))
			return pr(a, b)
		}, false},
		{"TailBitmap.Get", func(*c19In) int { return 200 }, func(in *c19In, k int) interface{} { return pr(in.TB.Get(int64(k)), in.TB.Get1(int64(k))) }, true},
	}
}

// c19Safe runs one call and turns a panic into a result string.
func c19Safe(cl *c19Call, in *c19In, k int) string {
	_, s := c19SafeV(cl, in, k)
	return s
}

// c19SafeV also returns the value itself, so that a later pass can see whether a
// returned slice was modified behind the caller's back.
func c19SafeV(cl *c19Call, in *c19In, k int) (v interface{}, r string) {
	defer func() {
		if e := recover(); e != nil {
			v, r = nil, fmt.Sprint("PANIC: ", e)
		}
	}()
	v = cl.Do(in, k)
	return v, c19Str(v)
}

// c19AppendPoke writes one zero element into the spare capacity of every slice
// reachable from a returned value (what append does when cap > len).
func c19AppendPoke(v reflect.Value, depth int) {
	if !v.IsValid() || depth > 3 {
		return
	}
	switch v.Kind() {
	case reflect.Interface:
		c19AppendPoke(v.Elem(), depth+1)
	case reflect.Slice:
		for i := 0; i < v.Len(); i++ {
			if k := v.Index(i).Kind(); k == reflect.Slice || k == reflect.Interface {
				c19AppendPoke(v.Index(i), depth+1)
			}
		}
		if v.Cap() > v.Len() {
			ext := v.Slice(0, v.Len()+1)
			e := ext.Index(v.Len())
			if e.CanSet() {
				switch e.Kind() {
				case reflect.Uint8, reflect.Uint16, reflect.Uint32, reflect.Uint64, reflect.Uint:
					e.SetUint(0xEE)
				case reflect.Int8, reflect.Int16, reflect.Int32, reflect.Int64, reflect.Int:
					e.SetInt(-18)
				}
			}
		}
	}
}

// c19OverwritePoke overwrites, in place, every element of every slice reachable from
// a returned value: the caller owns what a function returns and may filter, sort or
// clear it. It returns the number of elements written.
func c19OverwritePoke(v reflect.Value, depth int) (n int) {
	if !v.IsValid() || depth > 3 {
		return 0
	}
	switch v.Kind() {
	case reflect.Interface:
		return c19OverwritePoke(v.Elem(), depth+1)
	case reflect.Slice:
		for i := 0; i < v.Len(); i++ {
			e := v.Index(i)
			switch e.Kind() {
			case reflect.Slice, reflect.Interface:
				n += c19OverwritePoke(e, depth+1)
			case reflect.Uint8, reflect.Uint16, reflect.Uint32, reflect.Uint64, reflect.Uint:
				if e.CanSet() {
					e.SetUint(^e.Uint() ^ 0x5a)
					n++
				}
			case reflect.Int8, reflect.Int16, reflect.Int32, reflect.Int64, reflect.Int:
				if e.CanSet() {
					e.SetInt(^e.Int() ^ 0x5a)
					n++
				}
			case reflect.String:
				if e.CanSet() {
					e.SetString("\x5aoverwritten by the caller")
					n++
				}
			}
		}
	}
	return n
}

// c19TagFill writes tag into every element of every slice reachable from a returned
// value; c19TagCheck tells whether every such element still holds it. Filling every
// returned value with a tag of its own and checking all of them afterwards shows
// results that share memory WITH EACH OTHER (one buffer handed out twice).
func c19TagFill(v reflect.Value, tag int64, depth int) {
	if !v.IsValid() || depth > 3 {
		return
	}
	switch v.Kind() {
	case reflect.Interface:
		c19TagFill(v.Elem(), tag, depth+1)
	case reflect.Slice:
		for i := 0; i < v.Len(); i++ {
			e := v.Index(i)
			switch e.Kind() {
			case reflect.Slice, reflect.Interface:
				c19TagFill(e, tag, depth+1)
			case reflect.Uint8, reflect.Uint16, reflect.Uint32, reflect.Uint64, reflect.Uint:
				if e.CanSet() {
					e.SetUint(uint64(tag))
				}
			case reflect.Int8, reflect.Int16, reflect.Int32, reflect.Int64, reflect.Int:
				if e.CanSet() {
					e.SetInt(tag)
				}
			}
		}
	}
}

func c19TagCheck(v reflect.Value, tag int64, depth int) bool {
	if !v.IsValid() || depth > 3 {
		return true
	}
	switch v.Kind() {
	case reflect.Interface:
		return c19TagCheck(v.Elem(), tag, depth+1)
	case reflect.Slice:
		for i := 0; i < v.Len(); i++ {
			e := v.Index(i)
			switch e.Kind() {
			case reflect.Slice, reflect.Interface:
				if !c19TagCheck(e, tag, depth+1) {
					return false
				}
			case reflect.Uint8, reflect.Uint16, reflect.Uint32, reflect.Uint64, reflect.Uint:
				if e.CanSet() && e.Uint() != uint64(tag) {
					return false
				}
			case reflect.Int8, reflect.Int16, reflect.Int32, reflect.Int64, reflect.Int:
				if e.CanSet() && e.Int() != tag {
					return false
				}
			}
		}
	}
	return true
}

// c19ResultPoke: a forward pass whose results are rendered, then overwritten in place
// by the caller, then the same pass once more on the same arguments. The second
// pass must give what the first gave: a result must not be (a view of) memory the
// library reads again - a package-level table, a cache, an argument.
func c19ResultPoke(alpha []c19Call, in *c19In) (bad []c19Retained, poked int) {
	defer debug.SetGCPercent(debug.SetGCPercent(-1))
	first := make([][]string, len(alpha))
	vals := make([][]interface{}, len(alpha))
	for ci := range alpha {
		n := alpha[ci].N(in)
		first[ci] = make([]string, n)
		vals[ci] = make([]interface{}, n)
		for k := 0; k < n; k++ {
			vals[ci][k], first[ci][k] = c19SafeV(&alpha[ci], in, k)
		}
	}
	// every returned value gets a tag of its own (1..120: fits every element type) ...
	tagOf := func(ci, k int) int64 { return int64((ci*37+k*11)%120 + 1) }
	for ci := range alpha {
		for k, v := range vals[ci] {
			c19TagFill(reflect.ValueOf(v), tagOf(ci, k), 0)
		}
	}
	// ... and must still hold it after all the others were filled: two results that are one buffer do not
	for ci := range alpha {
		for k, v := range vals[ci] {
			if !c19TagCheck(reflect.ValueOf(v), tagOf(ci, k), 0) {
				bad = append(bad, c19Retained{ci, k, first[ci][k], "this result shares memory with another returned value: filled with its own tag, it reads " + clipS(c19Str(v)) + " after the other results were filled with theirs"})
			}
		}
	}
	for ci := range alpha {
		for _, v := range vals[ci] {
			poked += c19OverwritePoke(reflect.ValueOf(v), 0)
		}
	}
	for ci := range alpha {
		for k := range first[ci] {
			if now := c19Safe(&alpha[ci], in, k); now != first[ci][k] {
				bad = append(bad, c19Retained{ci, k, first[ci][k], now})
			}
		}
	}
	return bad, poked
}

// c19Hex / c19HexList: a returned string (list) kept AS RETURNED - not copied - and
// printed in hex.
type c19Hex string
type c19HexList []string

// c19Str renders a returned value. The rendering never shares memory with the
// value (a returned string is copied), so that it can be compared with a later
// rendering of the same value.
func c19Str(v interface{}) string {
	switch x := v.(type) {
	case string:
		return strings.Clone(x)
	case c19Hex:
		return fmt.Sprintf("%x", string(x))
	case c19HexList:
		return fmt.Sprintf("%x", []string(x))
	}
	return fmt.Sprintf("%v", v)
}

// c19Forward runs every call × variant on one input set and returns the results.
func c19Forward(alpha []c19Call, in *c19In) [][]string {
	out, _ := c19ForwardKeep(alpha, in)
	return out
}

// c19Retained names a returned value that no longer prints as it did when it
// was returned: some later call wrote into memory the library had handed out.
type c19Retained struct {
	Call, Variant int
	Then, Now     string
}

const c19OverwriteTag = "after the caller overwrote its argument buffers: "

// c19ForwardKeep keeps every returned value until the end of the pass and then
// prints it again.
func c19ForwardKeep(alpha []c19Call, in *c19In, overwriteArgs ...func()) ([][]string, []c19Retained) {
	// no garbage collection during the pass: what a sync.Pool hands back must not
	// depend on when the collector happens to run (the pass allocates a few MB)
	defer debug.SetGCPercent(debug.SetGCPercent(-1))
	out := make([][]string, len(alpha))
	vals := make([][]interface{}, len(alpha))
	for ci := range alpha {
		n := alpha[ci].N(in)
		out[ci] = make([]string, n)
		vals[ci] = make([]interface{}, n)
		for k := 0; k < n; k++ {
			vals[ci][k], out[ci][k] = c19SafeV(&alpha[ci], in, k)
		}
	}
	var bad []c19Retained
	recheck := func(tag string) {
		for ci := range alpha {
			for k, v := range vals[ci] {
				if v == nil {
					continue
				}
				if now := c19Str(v); now != out[ci][k] {
					bad = append(bad, c19Retained{ci, k, out[ci][k], tag + now})
					out[ci][k] = now // report each change once
				}
			}
		}
	}
	recheck("")
	// then: append one element to every returned slice (result discarded, as a caller building
	// on a returned slice would do). Spare capacity of a result must not be memory that another
	// result, an argument or the library still uses.
	for ci := range alpha {
		for _, v := range vals[ci] {
			c19AppendPoke(reflect.ValueOf(v), 0)
		}
	}
	fresh := make([][]string, len(out))
	for i := range out {
		fresh[i] = append([]string(nil), out[i]...)
	}
	recheck("after appending to every returned slice: ")
	// last: the caller reuses its own buffers. A returned value (a string above all: Go strings
	// are immutable) must not be a view of argument memory.
	for _, f := range overwriteArgs {
		f()
		recheck(c19OverwriteTag)
	}
	return fresh, bad
}

func c19Digest(res [][][]string) string {
	h := sha1.New()
	for _, a := range res {
		for _, b := range a {
			for _, s := range b {
				h.Write([]byte(s))
				h.Write([]byte{0})
			}
		}
	}
	return fmt.Sprintf("%x", h.Sum(nil)[:10])
}

// c19Footprint is the exact argument write-footprint oracle plus the
// order-independence check, in the plain binary.
func c19Footprint(c *mc.Ctx) (digest string) {
	alpha := c19Alphabet()
	debug.SetPanicOnFault(true)
	var all [][][]string
	for set := 0; set < c19InputSets; set++ {
		ha := newHeapAlloc()
		heap := c19Build(set, ha)
		fwd, retained := c19ForwardKeep(alpha, heap)
		if sp := ha.spareIntact(); sp != "" {
			c.Fail(5<<50|int64(set)<<40, "spare", "spare", c19Case{Input: set, Note: "forward pass over the whole alphabet"}, sp, "spare capacity of every argument untouched")
		}
		// the digest is compared with the instrumented binary's, which does not have the long variants
		dig := make([][]string, len(fwd))
		for ci := range fwd {
			dig[ci] = fwd[ci]
			if strings.HasSuffix(alpha[ci].Name, "/long-list") && len(dig[ci]) > 1 {
				dig[ci] = dig[ci][:1]
			}
		}
		all = append(all, dig)
		for _, r := range retained {
			c.Fail(3<<50|int64(set)<<40|int64(r.Call)<<20|int64(r.Variant), "retained", "retained", c19Case{Call: alpha[r.Call].Name, Variant: r.Variant, Input: set}, "value returned earlier now reads "+clipS(r.Now), "value as returned: "+clipS(r.Then))
		}
		c.Add("returned_values_rechecked_after_the_pass", int64(len(alpha)))
		// (1) results do not depend on call order: reverse pass on the same inputs
		for ci := len(alpha) - 1; ci >= 0; ci-- {
			for k := len(fwd[ci]) - 1; k >= 0; k-- {
				if r := c19Safe(&alpha[ci], heap, k); r != fwd[ci][k] {
					c.Fail(int64(set)<<40|int64(ci)<<20|int64(k), "order", "order", c19Case{Call: alpha[ci].Name, Variant: k, Input: set}, r, fwd[ci][k])
				}
				c.Count(1, 1)
				c.Expect(1)
			}
		}
		// (2) no store into any argument: same calls on read-only mapped arguments
		ar := newArena(1 << 20)
		prot := c19Build(set, ar)
		ar.protect()
		for ci := range alpha {
			for k := range fwd[ci] {
				if r := c19Safe(&alpha[ci], prot, k); r != fwd[ci][k] {
					class := "footprint"
					if strings.Contains(r, "fault") {
						class = "footprint/write-to-argument"
					}
					c.Fail(1<<50|int64(set)<<40|int64(ci)<<20|int64(k), "footprint", class, c19Case{Call: alpha[ci].Name, Variant: k, Input: set}, r, fwd[ci][k])
				}
				c.Count(1, 1)
				c.Expect(1)
				c.Add("footprint_calls_on_readonly_arguments", 1)
			}
		}
		ar.free()
		// (3) no returned value is a view of argument memory: on fresh arguments, keep every
		// result, then overwrite every argument buffer as a caller reusing its buffers does
		ha2 := newHeapAlloc()
		_, kept := c19ForwardKeep(alpha, c19Build(set, ha2), ha2.overwriteArguments)
		for _, r := range kept {
			if strings.HasPrefix(r.Now, c19OverwriteTag) {
				c.Fail(6<<50|int64(set)<<40|int64(r.Call)<<20|int64(r.Variant), "argview", "argview", c19Case{Call: alpha[r.Call].Name, Variant: r.Variant, Input: set}, "value returned earlier now reads "+clipS(r.Now), "value as returned: "+clipS(r.Then))
			}
		}
		for ci := range alpha {
			c.Count(int64(len(fwd[ci])), int64(len(fwd[ci])))
			c.Expect(int64(len(fwd[ci])))
			c.Add("returned_values_rechecked_after_overwriting_the_arguments", int64(len(fwd[ci])))
		}
		// (5) no access beyond an argument: every argument in a mapping of its own that ends in an
		// inaccessible page (and is read-only): reading one byte past a key or a bitmap faults
		for _, before := range []bool{false, true} {
			ga := &guardAlloc{before: before}
			gin := c19Build(set, ga)
			ga.protect()
			note := "inaccessible page right after every argument"
			if before {
				note = "inaccessible page right before every argument"
			}
			for ci := range alpha {
				for k := range fwd[ci] {
					if r := c19Safe(&alpha[ci], gin, k); r != fwd[ci][k] {
						class := "guardpage"
						if strings.Contains(r, "fault") || strings.Contains(r, "invalid memory address") {
							class = "guardpage/access-beyond-argument"
						}
						c.Fail(8<<50|int64(set)<<40|int64(ci)<<20|int64(k)<<1|int64(len(note)&1), "guardpage", class, c19Case{Call: alpha[ci].Name, Variant: k, Input: set, Note: note}, r, fwd[ci][k])
					}
					c.Count(1, 1)
					c.Expect(1)
					c.Add("calls_on_guard_page_arguments", 1)
				}
			}
			c.Add("guard_page_mappings", int64(len(ga.maps)))
			ga.free()
		}
		// (4) no returned slice is memory the library reads again: overwrite every returned slice in
		// place (the caller owns it), then every call once more on the same arguments
		ha3 := newHeapAlloc()
		bad, poked := c19ResultPoke(alpha, c19Build(set, ha3))
		for _, r := range bad {
			c.Fail(7<<50|int64(set)<<40|int64(r.Call)<<20|int64(r.Variant), "resultpoke", "resultpoke", c19Case{Call: alpha[r.Call].Name, Variant: r.Variant, Input: set}, "after the caller overwrote every returned slice in place: "+clipS(r.Now), "as before: "+clipS(r.Then))
		}
		for ci := range alpha {
			c.Count(int64(len(fwd[ci])), int64(len(fwd[ci])))
			c.Expect(int64(len(fwd[ci])))
		}
		c.Add("elements_of_returned_slices_overwritten", int64(poked))
	}
	debug.SetPanicOnFault(false)
	c.ForceSample(c19Case{Call: alpha[3].Name, Variant: 5, Input: 1, Note: "footprint: arguments mapped read-only"})
	return c19Digest(all)
}

// ---- programs for the schedule explorer

type c19Thread struct {
	Call    int
	Variant int
}

type c19Program struct {
	Threads []c19Thread
	Bound   int
}

// c19Programs lists the programs; pick(call, slot) chooses the variant a thread
// in the given slot runs (the instrumented worker picks by measured solo length).
func c19Programs(thorough bool, pick func(ci, slot int) int) []c19Program {
	alpha := c19Alphabet()
	pb, tb := 2, 1
	if thorough {
		pb, tb = 3, 2
	}
	var out []c19Program
	for a := range alpha {
		for b := a; b < len(alpha); b++ {
			out = append(out, c19Program{[]c19Thread{{a, pick(a, 0)}, {b, pick(b, 1)}}, pb})
		}
	}
	var tri []int
	for i, cl := range alpha {
		if cl.Tri {
			tri = append(tri, i)
		}
	}
	for x := 0; x < len(tri); x++ {
		for y := x; y < len(tri); y++ {
			for z := y; z < len(tri); z++ {
				a, b, d := tri[x], tri[y], tri[z]
				out = append(out, c19Program{[]c19Thread{{a, pick(a, 0)}, {b, pick(b, 1)}, {d, pick(d, 2)}}, tb})
			}
		}
	}
	return out
}

func (p c19Program) names(alpha []c19Call) []string {
	var s []string
	for _, t := range p.Threads {
		s = append(s, fmt.Sprintf("%s#%d", alpha[t.Call].Name, t.Variant))
	}
	return s
}

// ---- orchestration

type c19WorkerOut struct {
	Programs, Schedules, Points, Preempted int64
	MaxPoints                              int
	MaxOutcomes                            int
	MultiOutcome, Diverged                 int64
	Stuck                                  []string
	Globals                                int
	GlobalCalls                            int64
	Digest                                 string
	Viols                                  []mc.Viol
	Sample                                 *c19Case
	Err                                    string
}

func c19Run(c *mc.Ctx) {
	c.NoExpect()
	phase := map[string]float64{}
	t0 := time.Now()
	lap := func(name string) {
		phase[name] = time.Since(t0).Seconds()
		t0 = time.Now()
		c.Set("phase_seconds", phase)
	}
	digest := c19Footprint(c)
	lap("footprint_oracles")
	c.Set("plain_results_digest", digest)

	c.Set("programs_declared", len(c19Programs(c.Thorough, func(int, int) int { return 0 })))
	bin := os.Getenv("VERIF_SCHED_BIN")
	if bin == "" {
		c.Cap("no instrumented binary (VERIF_SCHED_BIN unset or the overlay build failed: " + os.Getenv("VERIF_SCHED_ERR") + "): schedules and the package-state snapshot were not explored; footprint and race passes only")
	} else {
		// package-state pass (one process), then schedules sharded over processes
		var gw c19WorkerOut
		if err := c19Spawn(bin, &gw, "c19sched", "globals", c.Tier); err != nil {
			panic("harness: instrumented worker failed: " + err.Error())
		}
		c.Set("package_variables_registered", gw.Globals)
		c.Add("package_state_checks", gw.GlobalCalls)
		c.Count(gw.GlobalCalls, gw.GlobalCalls)
		c.Set("instrumented_results_digest", gw.Digest)
		if gw.Digest != digest {
			// an internal error of the machinery unless the mismatch is itself caused by impure code
			c.Set("instrumented_binary_agrees_with_plain", false)
			if c.Failed() == 0 && len(gw.Viols) == 0 {
				panic("harness: the instrumented binary gives different sequential results than the plain binary")
			}
		} else {
			c.Set("instrumented_binary_agrees_with_plain", true)
		}
		c19Merge(c, &gw, 2<<50)
		lap("package_state")
		const shards = 16
		outs := make([]c19WorkerOut, shards)
		var wg sync.WaitGroup
		for s := 0; s < shards; s++ {
			wg.Add(1)
			go func(s int) {
				defer wg.Done()
				if err := c19Spawn(bin, &outs[s], "c19sched", "schedules", c.Tier, fmt.Sprint(s), fmt.Sprint(shards)); err != nil {
					outs[s].Err = err.Error()
				}
			}(s)
		}
		wg.Wait()
		var multi int64
		for s := range outs {
			o := &outs[s]
			if o.Err != "" {
				panic("harness: schedule worker failed: " + o.Err)
			}
			c.Add("programs", o.Programs)
			c.Add("schedules", o.Schedules)
			c.Add("states", o.Schedules)
			c.Add("transitions", o.Points)
			c.Add("traces_validated_against_impl", o.Schedules)
			c.Add("schedules_with_preemption", o.Preempted)
			c.Max("max_points_per_execution", int64(o.MaxPoints))
			c.Max("max_distinct_outcomes_per_program", int64(o.MaxOutcomes))
			multi += o.MultiOutcome
			c.Add("programs_with_diverging_replay", o.Diverged)
			c.Count(o.Schedules, o.Preempted)
			for _, st := range o.Stuck {
				c.Cap("a thread blocked outside the scheduler in program " + st + "; that program's exploration was abandoned")
			}
			c19Merge(c, o, 3<<50|int64(s)<<40)
			if o.Sample != nil && s%5 == 0 {
				c.ForceSample(o.Sample)
			}
		}
		c.Set("programs_with_more_than_one_outcome", multi)
		lap("schedules")
		// cold-start exploration: one fresh process per schedule (first-use windows of lazily
		// initialised state), same-function pairs (thorough: also all pairs of the sub-alphabet)
		couts := make([]c19WorkerOut, shards)
		for s := 0; s < shards; s++ {
			wg.Add(1)
			go func(s int) {
				defer wg.Done()
				if err := c19Spawn(bin, &couts[s], "c19sched", "cold", c.Tier, fmt.Sprint(s), fmt.Sprint(shards)); err != nil {
					couts[s].Err = err.Error()
				}
			}(s)
		}
		wg.Wait()
		for s := range couts {
			o := &couts[s]
			if o.Err != "" {
				panic("harness: cold-start worker failed: " + o.Err)
			}
			c.Add("cold_programs", o.Programs)
			c.Add("cold_schedules", o.Schedules)
			c.Add("states", o.Schedules)
			c.Add("transitions", o.Points)
			c.Add("traces_validated_against_impl", o.Schedules)
			c.Count(o.Schedules, o.Schedules)
			for _, st := range o.Stuck {
				c.Cap("cold start: a thread blocked outside the scheduler (or the child failed) in program " + st)
			}
			c19Merge(c, o, 6<<50|int64(s)<<40)
		}
	}
	lap("cold_start")
	defer lap("race_pass")
	// supplementary free-running race pass
	if rb := os.Getenv("VERIF_RACE_BIN"); rb != "" {
		out, err := exec.Command(rb, "-worker", "c19race", c.Tier).CombinedOutput()
		txt := string(out)
		races := strings.Count(txt, "WARNING: DATA RACE")
		c.Set("race_pass", map[string]interface{}{"ran": true, "data_races_reported": races, "exit_error": fmt.Sprint(err), "note": "supplementary (sampling): same bodies, 16 goroutines x 200 rounds, fresh process"})
		if races > 0 {
			first := txt
			if i := strings.Index(txt, "WARNING: DATA RACE"); i >= 0 {
				first = txt[i:]
			}
			if len(first) > 1500 {
				first = first[:1500]
			}
			c.Fail(4<<50, "race", "race", c19Case{Note: "free-running -race pass", Observed: first}, "data race reported:\n"+first, "no data race")
		} else if strings.Contains(txt, "MISMATCH") {
			c.Fail(4<<50, "race", "race", c19Case{Note: "free-running -race pass"}, "concurrent results differ from sequential: "+clipS(txt), "same results")
		} else if err != nil && !strings.Contains(txt, "c19race done") {
			c.Cap("the -race worker did not finish: " + fmt.Sprint(err))
		}
	} else {
		c.Set("race_pass", map[string]interface{}{"ran": false})
	}
}

func c19Merge(c *mc.Ctx, o *c19WorkerOut, base int64) {
	for _, v := range o.Viols {
		var cs c19Case
		json.Unmarshal(v.Case, &cs)
		c.Fail(base|v.Order&(1<<40-1), v.Kind, v.Class, cs, v.Got, v.Want)
	}
}

func c19Spawn(bin string, out *c19WorkerOut, args ...string) error {
	cmd := exec.Command(bin, append([]string{"-worker"}, args...)...)
	cmd.Env = append(os.Environ(), "GOMAXPROCS=1")
	cmd.Stderr = os.Stderr
	b, err := cmd.Output()
	if err != nil {
		return fmt.Errorf("%v: %s", err, clipS(string(b)))
	}
	return json.Unmarshal(b, out)
}

func c19Judge(kind string, raw json.RawMessage) (string, string, error) {
	var cs c19Case
	if err := json.Unmarshal(raw, &cs); err != nil {
		return "", "", err
	}
	alpha := c19Alphabet()
	find := func(name string) int {
		for i := range alpha {
			if alpha[i].Name == name {
				return i
			}
		}
		return -1
	}
	switch kind {
	case "spare":
		ha := newHeapAlloc()
		c19ForwardKeep(alpha, c19Build(cs.Input, ha))
		if sp := ha.spareIntact(); sp != "" {
			return sp, "spare capacity of every argument untouched", nil
		}
		return "spare capacity of every argument untouched", "spare capacity of every argument untouched", nil
	case "retained":
		ci := find(cs.Call)
		if ci < 0 {
			return "", "", fmt.Errorf("unknown call %q", cs.Call)
		}
		heap := c19Build(cs.Input, heapAlloc{})
		fwd, retained := c19ForwardKeep(alpha, heap)
		for _, r := range retained {
			if r.Call == ci && r.Variant == cs.Variant {
				return "value returned earlier now reads " + clipS(r.Now), "value as returned: " + clipS(r.Then), nil
			}
		}
		return "value as returned: " + clipS(fwd[ci][cs.Variant]), "value as returned: " + clipS(fwd[ci][cs.Variant]), nil
	case "guardpage":
		ci := find(cs.Call)
		if ci < 0 {
			return "", "", fmt.Errorf("unknown call %q", cs.Call)
		}
		want := c19Forward(alpha, c19Build(cs.Input, heapAlloc{}))[ci][cs.Variant]
		debug.SetPanicOnFault(true)
		defer debug.SetPanicOnFault(false)
		ga := &guardAlloc{before: strings.Contains(cs.Note, "before")}
		gin := c19Build(cs.Input, ga)
		ga.protect()
		defer ga.free()
		return c19Safe(&alpha[ci], gin, cs.Variant), want, nil
	case "resultpoke":
		ci := find(cs.Call)
		if ci < 0 {
			return "", "", fmt.Errorf("unknown call %q", cs.Call)
		}
		bad, _ := c19ResultPoke(alpha, c19Build(cs.Input, newHeapAlloc()))
		for _, r := range bad {
			if r.Call == ci && r.Variant == cs.Variant {
				return "after the caller overwrote every returned slice in place: " + clipS(r.Now), "as before: " + clipS(r.Then), nil
			}
		}
		return "as before", "as before", nil
	case "argview":
		ci := find(cs.Call)
		if ci < 0 {
			return "", "", fmt.Errorf("unknown call %q", cs.Call)
		}
		ha := newHeapAlloc()
		fwd, kept := c19ForwardKeep(alpha, c19Build(cs.Input, ha), ha.overwriteArguments)
		for _, r := range kept {
			if r.Call == ci && r.Variant == cs.Variant && strings.HasPrefix(r.Now, c19OverwriteTag) {
				return "value returned earlier now reads " + clipS(r.Now), "value as returned: " + clipS(r.Then), nil
			}
		}
		return "value as returned: " + clipS(fwd[ci][cs.Variant]), "value as returned: " + clipS(fwd[ci][cs.Variant]), nil
	case "order", "footprint":
		ci := find(cs.Call)
		if ci < 0 {
			return "", "", fmt.Errorf("unknown call %q", cs.Call)
		}
		heap := c19Build(cs.Input, heapAlloc{})
		// the reference result comes from a fresh forward pass up to this call
		fwd := c19Forward(alpha, heap)
		want := fwd[ci][cs.Variant]
		if kind == "order" {
			for x := len(alpha) - 1; x >= ci; x-- {
				lo := 0
				if x == ci {
					lo = cs.Variant
				}
				for k := len(fwd[x]) - 1; k >= lo; k-- {
					r := c19Safe(&alpha[x], heap, k)
					if x == ci && k == cs.Variant {
						return r, want, nil
					}
				}
			}
		}
		debug.SetPanicOnFault(true)
		defer debug.SetPanicOnFault(false)
		ar := newArena(1 << 20)
		prot := c19Build(cs.Input, ar)
		ar.protect()
		defer ar.free()
		return c19Safe(&alpha[ci], prot, cs.Variant), want, nil
	case "race":
		if cs.Observed != "" {
			// the race pass samples schedules of the Go runtime; its report is kept as recorded
			return "data race reported:\n" + cs.Observed, "no data race", nil
		}
		rb := os.Getenv("VERIF_RACE_BIN")
		if rb == "" {
			return "", "", fmt.Errorf("this case needs the -race binary (VERIF_RACE_BIN); use /verif/check.sh replay")
		}
		out, _ := exec.Command(rb, "-worker", "c19race", "quick").CombinedOutput()
		if strings.Contains(string(out), "WARNING: DATA RACE") {
			return "data race reported", "no data race", nil
		}
		if strings.Contains(string(out), "MISMATCH") {
			return "concurrent results differ from sequential", "same results", nil
		}
		return "no data race", "no data race", nil
	case "globals", "schedule", "cold":
		bin := os.Getenv("VERIF_SCHED_BIN")
		if bin == "" {
			return "", "", fmt.Errorf("this case needs the instrumented binary (VERIF_SCHED_BIN); use /verif/check.sh replay")
		}
		out, err := exec.Command(bin, "-worker", "c19sched", "judge", kind, string(raw)).Output()
		if err != nil {
			return "", "", fmt.Errorf("instrumented judge: %v", err)
		}
		var gw [2]string
		if err := json.Unmarshal(out, &gw); err != nil {
			return "", "", err
		}
		return gw[0], gw[1], nil
	}
	return "", "", fmt.Errorf("unknown kind %q", kind)
}

// c19RaceWorker: the same bodies, free running, to be run in a -race binary.
// The concurrent phase comes first (so first-use initialisation of anything lazy
// is inside the window); the sequential reference is computed afterwards.
func c19RaceWorker(args []string) int {
	alpha := c19Alphabet()
	in := c19Build(0, heapAlloc{})
	ns := make([]int, len(alpha))
	for i := range alpha {
		ns[i] = alpha[i].N(in)
	}
	type obs struct {
		ci, k int
		got   string
	}
	const G, rounds = 16, 200
	seen := make([][]obs, G)
	var wg sync.WaitGroup
	for g := 0; g < G; g++ {
		wg.Add(1)
		go func(g int) {
			defer wg.Done()
			for r := 0; r < rounds; r++ {
				ci := (g*7 + r*13) % len(alpha)
				if ns[ci] == 0 {
					continue
				}
				k := (g + r*5) % ns[ci]
				seen[g] = append(seen[g], obs{ci, k, c19Safe(&alpha[ci], in, k)})
			}
		}(g)
	}
	wg.Wait()
	// every call from four goroutines at the same time
	for ci := range alpha {
		if ns[ci] == 0 {
			continue
		}
		var w2 sync.WaitGroup
		for g := 0; g < 4; g++ {
			w2.Add(1)
			go func(g, ci int) {
				defer w2.Done()
				k := (g * 3) % ns[ci]
				r := c19Safe(&alpha[ci], in, k)
				_ = r
			}(g, ci)
		}
		w2.Wait()
	}
	want := c19Forward(alpha, in)
	bad := 0
	for _, l := range seen {
		for _, o := range l {
			if o.got != want[o.ci][o.k] {
				if bad < 5 {
					fmt.Printf("MISMATCH %s#%d: %s vs %s\n", alpha[o.ci].Name, o.k, o.got, want[o.ci][o.k])
				}
				bad++
			}
		}
	}
	fmt.Println("c19race done")
	return 0
}
