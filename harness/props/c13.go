package props

import (
	"fmt"
	mbits "math/bits"

	"github.com/openacid/low/bitmap"

	"verif/gen"
	"verif/mc"
)

// C13: NextOne / PrevOne against a linear scan.

type c13Case struct {
	Words gen.Words `json:"words,omitempty"`
	I     int32     `json:"i"`
	End   int32     `json:"end"`
	// big bitmaps are named by (length, pattern) instead of being listed
	Len     int `json:"len,omitempty"`
	Pattern int `json:"pattern,omitempty"`
}

func init() {
	mc.Register(&mc.Property{
		ID:     "C13",
		Word32: true,
		Level:  "exploration",
		Rule: "POPULATION CLASSES: the same ~9000 single words as C01/C12 alone with every (i, end) and between two empty words with every i in the word × every end from the word on; then E1 bounded-exhaustive enumeration: every bitmap of 1..N words over {0, 1, 1<<63, 1|1<<63, 1<<31, ^0, 3<<62} × every range 0 ≤ i ≤ end ≤ 64·len with i inside the bitmap: NextOne; and PrevOne for end ≥ 1. plus long sparse bitmaps (24/33 words, thorough 40/70; all zero except ≤2 islands at every pair of positions) × every range whose ends lie within 1 of a word boundary or half-word; and nearly empty bitmaps within 9 words of every power of two from 2^10 to 2^14 words with ranges spanning almost everything; oracle: linear scan over [i,end). " +
			"Plus a length sweep: EVERY bitmap length 1..1100 words × 2 sparse patterns × ranges with both ends in {0, 1, 63, 64, middle, last word ± 1, end}. Plus, on 64-bit builds, a sparse bitmap of 2^25 words (2^31 bits) × every range with both ends in {0, 1, 63, 64, 2^30.., MaxInt32-130.., MaxInt32} (17 values), against a scan that steps over empty words. " +
			"A case is one call; non-trivial when the bitmap has a 1 and the range is non-empty.",
		Assumptions: []string{"other word patterns are not enumerated (the code's case splits are: first/last word masked, all-zero words skipped, result clipped to the range)"},
		Run:         c13Run,
		Judge:       mc.JudgeOf(c13Judge),
	})
}

func nextOne(w []uint64, i, end int32) (r int32, p bool) {
	defer func() {
		if recover() != nil {
			p = true
		}
	}()
	return bitmap.NextOne(w, i, end), false
}

func prevOne(w []uint64, i, end int32) (r int32, p bool) {
	defer func() {
		if recover() != nil {
			p = true
		}
	}()
	return bitmap.PrevOne(w, i, end), false
}

var c13Alpha = []uint64{0, 1, 1 << 63, 1 | 1<<63, 1 << 31, ^uint64(0), 3 << 62}

func c13Run(c *mc.Ctx) {
	N := c.Pick(5, 6)
	c.Set("max_words", N)
	type shard struct {
		l     int
		first []int
	}
	var shards []shard
	a := len(c13Alpha)
	for l := 1; l <= N; l++ {
		nb := int64(64 * l)
		nx := (nb+1)*(nb+2)/2 - 1 // NextOne: 0≤i<nb, i≤end≤nb
		per := nx + nx - 1        // PrevOne: the same ranges minus (i=0,end=0)
		c.Expect(gen.PowInt(a, l) * per)
		if l < 3 {
			shards = append(shards, shard{l, nil})
			continue
		}
		for x := 0; x < a; x++ {
			for y := 0; y < a; y++ {
				shards = append(shards, shard{l, []int{x, y}})
			}
		}
	}
	for _, L := range []int{c.Pick(24, 40), c.Pick(33, 70)} {
		c13Long(c, L)
	}
	// POPULATION CLASSES of one word (c12PopWords): alone with EVERY (i, end), and between two empty words
	// with every i in the word (and 0, 63) × every end from the word on (and 129, 192)
	{
		pw := c12PopWords()
		c.Par(len(pw), func(i int) {
			var ev int64
			one := func(w []uint64, is, ends []int32, v int) {
				for _, a := range is {
					for _, e := range ends {
						if e < a {
							continue
						}
						if a < int32(64*len(w)) {
							if g, p := nextOne(w, a, e); p || g != c13RefNext(w, a, e) {
								c.Fail(9<<50|int64(i)<<20|int64(v)<<18|int64(a)<<9|int64(e), "NextOne", "NextOne/population-classes", c13Case{Words: append(gen.Words(nil), w...), I: a, End: e}, "", "")
							}
							ev++
						}
						if e > 0 {
							if g, p := prevOne(w, a, e); p || g != c13RefPrev(w, a, e) {
								c.Fail(9<<50|int64(i)<<20|int64(v)<<18|int64(a)<<9|int64(e), "PrevOne", "PrevOne/population-classes", c13Case{Words: append(gen.Words(nil), w...), I: a, End: e}, "", "")
							}
							ev++
						}
					}
				}
			}
			var all, mid, midE []int32
			for k := int32(0); k <= 64; k++ {
				all = append(all, k)
			}
			mid = append(mid, 0, 63)
			for k := int32(64); k < 128; k++ {
				mid = append(mid, k)
			}
			for k := int32(64); k <= 129; k++ {
				midE = append(midE, k)
			}
			midE = append(midE, 192)
			one([]uint64{pw[i]}, all[:64], all, 0)
			one([]uint64{0, pw[i], 0}, mid, midE, 1)
			if i == 0 {
				c.Expect(ev * int64(len(pw))) // the number of (i, end) pairs does not depend on the word
			}
			c.Count(ev, ev)
			c.Add("population_class_bitmaps", 2)
		})
	}
	c13Sweep(c)
	c13Big(c)
	c13Giant(c)
	c.Par(len(shards), func(si int) {
		if c.TooMany() {
			return
		}
		sh := shards[si]
		var evals, nontriv, seq int64
		w := make([]uint64, sh.l)
		for k, x := range sh.first {
			w[k] = c13Alpha[x]
		}
		free := sh.l - len(sh.first)
		nb := int32(64 * sh.l)
		first := make([]int32, nb+1) // first[i] = smallest 1-position ≥ i, or -1
		last := make([]int32, nb+1)  // last[e]  = largest 1-position < e, or -1
		gen.Product(a, free, func(ix []int) {
			seq++
			for k, x := range ix {
				w[len(sh.first)+k] = c13Alpha[x]
			}
			any := false
			first[nb] = -1
			for i := nb - 1; i >= 0; i-- {
				if w[i>>6]>>uint(i&63)&1 == 1 {
					first[i] = i
					any = true
				} else {
					first[i] = first[i+1]
				}
			}
			last[0] = -1
			for e := int32(1); e <= nb; e++ {
				if w[(e-1)>>6]>>uint((e-1)&63)&1 == 1 {
					last[e] = e - 1
				} else {
					last[e] = last[e-1]
				}
			}
			order := int64(si)<<32 | seq<<16
			for i := int32(0); i < nb; i++ {
				for end := i; end <= nb; end++ {
					want := first[i]
					if want >= end {
						want = -1
					}
					if got, p := nextOne(w, i, end); p || got != want {
						c.Fail(order, "NextOne", "NextOne", c13Case{Words: append(gen.Words(nil), w...), I: i, End: end}, "", "")
					}
					evals++
					if end >= 1 {
						want = last[end]
						if want < i {
							want = -1
						}
						if got, p := prevOne(w, i, end); p || got != want {
							c.Fail(order, "PrevOne", "PrevOne", c13Case{Words: append(gen.Words(nil), w...), I: i, End: end}, "", "")
						}
						evals++
					}
					if any && end > i {
						nontriv += 2
					}
				}
			}
			if seq == 2 && si%40 == 7 {
				c.ForceSample(map[string]interface{}{"words": append(gen.Words(nil), w...), "ranges": int64(nb) * int64(nb+1) / 2})
			}
		})
		c.Count(evals, nontriv)
		c.Add("bitmaps", seq)
	})
}

// c13Long: long bitmaps (L words, all zero except ≤2 islands at every pair of
// positions) × every range whose ends lie on, just before or just after a word
// boundary or an island bit: long runs of all-zero words to skip in both directions.
func c13Long(c *mc.Ctx, L int) {
	isl := []uint64{1, 1 << 63, 1<<31 | 1<<32}
	type bm struct{ w []uint64 }
	var bms [][]uint64
	bms = append(bms, make([]uint64, L))
	for p := 0; p < L; p++ {
		for _, a := range isl {
			w := make([]uint64, L)
			w[p] = a
			bms = append(bms, w)
			for q := p + 1; q < L; q++ {
				for _, b := range isl {
					w2 := append([]uint64(nil), w...)
					w2[q] = b
					bms = append(bms, w2)
				}
			}
		}
	}
	nb := int32(64 * L)
	var pts []int32
	seen := map[int32]bool{}
	add := func(x int32) {
		if x >= 0 && x <= nb && !seen[x] {
			seen[x] = true
			pts = append(pts, x)
		}
	}
	for k := int32(0); k <= int32(L); k++ {
		for _, d := range []int32{-1, 0, 1, 31, 32, 33} {
			add(64*k + d)
		}
	}
	sortI32(pts)
	// closed form: pairs i ≤ end with i < nb; PrevOne additionally needs end ≥ 1
	var pairs, prevPairs int64
	for _, i := range pts {
		for _, e := range pts {
			if i <= e && i < nb {
				pairs++
				if e >= 1 {
					prevPairs++
				}
			}
		}
	}
	c.Expect(int64(len(bms)) * (pairs + prevPairs))
	c.Par(len(bms), func(bi int) {
		if c.TooMany() {
			return
		}
		w := bms[bi]
		any := false
		for _, x := range w {
			any = any || x != 0
		}
		first := make([]int32, nb+1)
		last := make([]int32, nb+1)
		first[nb] = -1
		for i := nb - 1; i >= 0; i-- {
			if w[i>>6]>>uint(i&63)&1 == 1 {
				first[i] = i
			} else {
				first[i] = first[i+1]
			}
		}
		last[0] = -1
		for e := int32(1); e <= nb; e++ {
			if w[(e-1)>>6]>>uint((e-1)&63)&1 == 1 {
				last[e] = e - 1
			} else {
				last[e] = last[e-1]
			}
		}
		var evals, nontriv int64
		order := int64(1)<<56 | int64(L)<<40 | int64(bi)<<8
		for _, i := range pts {
			if i >= nb {
				continue
			}
			for _, end := range pts {
				if end < i {
					continue
				}
				want := first[i]
				if want >= end {
					want = -1
				}
				if got, p := nextOne(w, i, end); p || got != want {
					c.Fail(order, "NextOne", "NextOne", c13Case{Words: append(gen.Words(nil), w...), I: i, End: end}, "", "")
				}
				evals++
				if end >= 1 {
					want = last[end]
					if want < i {
						want = -1
					}
					if got, p := prevOne(w, i, end); p || got != want {
						c.Fail(order, "PrevOne", "PrevOne", c13Case{Words: append(gen.Words(nil), w...), I: i, End: end}, "", "")
					}
					evals++
				}
				if any && end > i {
					nontriv += 2
				}
			}
		}
		c.Count(evals, nontriv)
		c.Add("bitmaps", 1)
		c.Add("long_sparse_bitmaps", 1)
	})
}

// c13Big: bitmaps within 9 words of every power of two from 2^10 to 2^14 words (size
// thresholds), nearly empty, with ranges spanning almost everything.
func c13Big(c *mc.Ctx) {
	type job struct{ l, pat int }
	var jobs []job
	for _, l := range gen.SizesAround(10, 14, []int{-1, 0, 1, 7, 8, 9}) {
		for pat := 0; pat < 3; pat++ {
			jobs = append(jobs, job{l, pat})
		}
	}
	c.Par(len(jobs), func(ji int) {
		if c.TooMany() {
			return
		}
		j := jobs[ji]
		w := make([]uint64, j.l)
		switch j.pat {
		case 0:
			w[j.l-1] = 1<<63 | 1
		case 1:
			w[0] = 1<<63 | 1
		case 2:
			w[j.l/2] = 1 << 17
			w[j.l-9] = 1
		}
		nb := int32(64 * j.l)
		first := make([]int32, nb+1)
		last := make([]int32, nb+1)
		first[nb] = -1
		for i := nb - 1; i >= 0; i-- {
			if w[i>>6]>>uint(i&63)&1 == 1 {
				first[i] = i
			} else {
				first[i] = first[i+1]
			}
		}
		last[0] = -1
		for e := int32(1); e <= nb; e++ {
			if w[(e-1)>>6]>>uint((e-1)&63)&1 == 1 {
				last[e] = e - 1
			} else {
				last[e] = last[e-1]
			}
		}
		pts := []int32{0, 1, 63, 64, 65, nb / 2, nb/2 + 17, nb/2 + 18, nb - 577, nb - 576, nb - 575, nb - 65, nb - 64, nb - 1, nb}
		var evals int64
		for _, i := range pts {
			if i >= nb || i < 0 {
				continue
			}
			for _, end := range pts {
				if end < i {
					continue
				}
				want := first[i]
				if want >= end {
					want = -1
				}
				if got, p := nextOne(w, i, end); p || got != want {
					c.Fail(int64(2)<<56|int64(ji)<<16, "NextOne", "NextOne", c13Case{Len: j.l, Pattern: j.pat, I: i, End: end}, "", "")
				}
				evals++
				if end >= 1 {
					want = last[end]
					if want < i {
						want = -1
					}
					if got, p := prevOne(w, i, end); p || got != want {
						c.Fail(int64(2)<<56|int64(ji)<<16, "PrevOne", "PrevOne", c13Case{Len: j.l, Pattern: j.pat, I: i, End: end}, "", "")
					}
					evals++
				}
			}
		}
		c.Count(evals, evals)
		c.Expect(evals)
		c.Add("power_of_two_length_bitmaps", 1)
	})
}

// c13RefNext / c13RefPrev: the statement's answer by a scan that steps over empty
// words (for bitmaps of 2^25 words, where a bit-by-bit scan takes seconds).
func c13RefNext(w []uint64, i, end int32) int32 {
	for p := int64(i); p < int64(end); {
		if w[p>>6] == 0 {
			p = (p>>6 + 1) << 6
			continue
		}
		if w[p>>6]>>uint(p&63)&1 == 1 {
			return int32(p)
		}
		p++
	}
	return -1
}

func c13RefPrev(w []uint64, i, end int32) int32 {
	for p := int64(end) - 1; p >= int64(i); {
		if w[p>>6] == 0 {
			p = (p>>6)<<6 - 1
			continue
		}
		if w[p>>6]>>uint(p&63)&1 == 1 {
			return int32(p)
		}
		p--
	}
	return -1
}

// c13Sweep: EVERY bitmap length 1..1100 words × 2 sparse patterns (a 1 at both ends of the last / of the
// first word) × ranges with both ends in {0, 1, 63, 64, middle, last word ± 1, end}: closes the gap between
// the small complete spaces and the threshold sizes for the length coordinate.
func c13Sweep(c *mc.Ctx) {
	c.Par(1100, func(li int) {
		l := li + 1
		nb := int32(64 * l)
		var evals int64
		for pat := 0; pat < 2; pat++ {
			w := c13BigBitmap(l, pat)
			pts := []int32{0, 1, 63, 64, nb / 2, nb - 65, nb - 64, nb - 63, nb - 1, nb}
			for _, i := range pts {
				if i < 0 || i >= nb {
					continue
				}
				for _, end := range pts {
					if end < i || end > nb {
						continue
					}
					cs := c13Case{I: i, End: end, Len: l, Pattern: pat}
					if g, p := nextOne(w, i, end); p || g != c13RefNext(w, i, end) {
						c.Fail(7<<50|int64(l)<<24|int64(pat)<<20|evals, "NextOne", "NextOne/length-sweep", cs, fmt.Sprintf("%d panic=%v", g, p), fmt.Sprintf("%d panic=false", c13RefNext(w, i, end)))
					}
					evals++
					if end >= 1 {
						if g, p := prevOne(w, i, end); p || g != c13RefPrev(w, i, end) {
							c.Fail(7<<50|int64(l)<<24|int64(pat)<<20|evals, "PrevOne", "PrevOne/length-sweep", cs, fmt.Sprintf("%d panic=%v", g, p), fmt.Sprintf("%d panic=false", c13RefPrev(w, i, end)))
						}
						evals++
					}
				}
			}
		}
		c.Count(evals, evals)
		c.Expect(evals)
		c.Add("length_sweep_cases", evals)
	})
}

// c13Giant: the top of the int32 position range (64-bit builds): a sparse bitmap of
// 2^25 words; ranges starting and ending at both ends, in the middle and at the
// last positions an int32 can name (end = 64*len = 2^31 itself is not an int32).
func c13Giant(c *mc.Ctx) {
	if mbits.UintSize != 64 {
		return
	}
	const M = int32(1<<31 - 1)
	l := 1 << 25
	w := c13BigBitmap(l, 9)
	pts := []int32{0, 1, 63, 64, 1 << 30, 1<<30 + 1, 1<<30 + 2, 1<<30 + 3, M - 130, M - 128, M - 127, M - 65, M - 64, M - 63, M - 62, M - 1, M}
	var evals int64
	for _, i := range pts {
		for _, end := range pts {
			if i > end {
				continue
			}
			cs := c13Case{I: i, End: end, Len: l, Pattern: 9}
			if g, p := nextOne(w, i, end); p || g != c13RefNext(w, i, end) {
				c.Fail(6<<50|int64(i)<<20|int64(end&0xfffff), "NextOne", "NextOne/giant", cs, fmt.Sprintf("%d panic=%v", g, p), fmt.Sprintf("%d panic=false", c13RefNext(w, i, end)))
			}
			evals++
			if end >= 1 {
				if g, p := prevOne(w, i, end); p || g != c13RefPrev(w, i, end) {
					c.Fail(6<<50|1<<49|int64(i)<<20|int64(end&0xfffff), "PrevOne", "PrevOne/giant", cs, fmt.Sprintf("%d panic=%v", g, p), fmt.Sprintf("%d panic=false", c13RefPrev(w, i, end)))
				}
				evals++
			}
		}
	}
	c.Count(evals, evals)
	c.Expect(evals)
	c.Add("giant_bitmap_cases", evals)
}

func c13BigBitmap(l, pat int) []uint64 {
	w := gen.DirtyU64(make([]uint64, l), 3)
	switch pat {
	case 9:
		// sparse, 2^25 words
		w[0] = 1<<63 | 1
		w[l/2] = 6
		w[l-3] = 1
		w[l-2] = 1 << 63
		w[l-1] = 1<<63 | 1<<62 | 1<<1
	case 0:
		w[l-1] = 1<<63 | 1
	case 1:
		w[0] = 1<<63 | 1
	case 2:
		w[l/2] = 1 << 17
		w[l-9] = 1
	}
	return w
}

func sortI32(a []int32) {
	for i := 1; i < len(a); i++ {
		for j := i; j > 0 && a[j] < a[j-1]; j-- {
			a[j], a[j-1] = a[j-1], a[j]
		}
	}
}

func c13Judge(kind string, cs c13Case) (got, want string) {
	w := []uint64(cs.Words)
	if cs.Len > 0 {
		w = c13BigBitmap(cs.Len, cs.Pattern)
	}
	bit := func(i int32) bool { return w[i>>6]>>uint(i&63)&1 == 1 }
	if cs.Len >= 1<<24 {
		switch kind {
		case "NextOne":
			g, p := nextOne(w, cs.I, cs.End)
			return fmt.Sprintf("%d panic=%v", g, p), fmt.Sprintf("%d panic=false", c13RefNext(w, cs.I, cs.End))
		case "PrevOne":
			g, p := prevOne(w, cs.I, cs.End)
			return fmt.Sprintf("%d panic=%v", g, p), fmt.Sprintf("%d panic=false", c13RefPrev(w, cs.I, cs.End))
		}
	}
	switch kind {
	case "NextOne":
		wv := int32(-1)
		for p := cs.I; p < cs.End; p++ {
			if bit(p) {
				wv = p
				break
			}
		}
		g, p := nextOne(w, cs.I, cs.End)
		return fmt.Sprintf("%d panic=%v", g, p), fmt.Sprintf("%d panic=false", wv)
	case "PrevOne":
		wv := int32(-1)
		for p := cs.End - 1; p >= cs.I; p-- {
			if bit(p) {
				wv = p
				break
			}
		}
		g, p := prevOne(w, cs.I, cs.End)
		return fmt.Sprintf("%d panic=%v", g, p), fmt.Sprintf("%d panic=false", wv)
	}
	return "unknown kind " + kind, ""
}
