package props

import (
	"fmt"
	"math/bits"
	"runtime/debug"
	"strings"

	"github.com/openacid/low/bitmap"

	"verif/gen"
	"verif/mc"
)

// C01: Rank64 / Rank128 / IndexRank64 / IndexRank128 against a running bit count.

type c01Case struct {
	Words gen.Words `json:"words"`
	I     int32     `json:"i"`
	// Then: for "retained" cases, the bitmap whose indexes were built afterwards
	Then gen.Words `json:"then,omitempty"`
	// long bitmaps are named by (length, pattern) of the sweep generator instead of being listed
	Len     int `json:"len,omitempty"`
	Pattern int `json:"pattern,omitempty"`
	// the EMPTY bitmap handed over in form EmptyForm-1 of gen.EmptyU64 (nil, non-nil, spare capacity, tail)
	EmptyForm int    `json:"empty_form,omitempty"`
	FormName  string `json:"empty_form_name,omitempty"`
}

func init() {
	mc.Register(&mc.Property{
		ID:     "C01",
		Word32: true,
		Level:  "exploration",
		Rule: "POPULATION CLASSES: ~9000 single words (every word with one or two 0-bits, three over 16 boundary positions, 0-runs cut at 4 or 6 of 12 boundaries, complements, 6 words of every popcount 0..64) alone, behind an all-ones word, in front of a sparse one and twice behind an empty one: all index kinds, all ranks at every position; then E1 bounded-exhaustive enumeration: every bitmap of B(n,0) ∪ B1(m) (≤n words over the 12-word core alphabet; ≤m words with exactly one word from the wide alphabet of single bits, low-j masks, complements and adjacent pairs) " +
			"× {IndexRank64 (no option, false, true), IndexRank128} and × every position i × {Rank64 on the plain index, Rank64 on the trailing index, Rank128}; oracle = bit-by-bit running count; plus a length sweep (every length 0..N words × 4 word patterns, all index flavours, all positions) in which every returned index is compared once more after the NEXT bitmap's indexes have been built (an index must not change because another one is built), 195 bitmaps whose lengths lie within 9 words of every power of two from 2^10 to 2^16 words, and bitmaps of 2^18+3 and 2^20+5 words and - on 64-bit builds - of 2^25-1 and 2^25 words, i.e. up to the last position an int32 can name (complete index, ranks at the first and last 1024 positions and around every 1/16th). " +
			"A case is one (bitmap, position) pair or one (bitmap, index flavour); it is non-trivial when the bitmap has ≥2 words, at least one 1 and at least one 0. Cases are distinct by construction (product of duplicate-free alphabets).",
		Assumptions: []string{
			"64-bit words outside the core/wide alphabets and bitmaps longer than the bound are not enumerated (small-scope: the code's case splits are bit offset mod 64, word parity, left/right 128-bit half)",
			"the reference (popcount by bit loop) is correct",
		},
		Run:   c01Run,
		Judge: mc.JudgeOf(c01Judge),
	})
}

func c01Space(c *mc.Ctx) gen.BMSpace {
	if c.Thorough {
		return gen.BMSpace{MaxCore: 7, MaxWide: 5}
	}
	return gen.BMSpace{MaxCore: 6, MaxWide: 4}
}

func naivePop(w uint64) int32 {
	n := int32(0)
	for ; w != 0; w >>= 1 {
		n += int32(w & 1)
	}
	return n
}

func idxRank64(w []uint64, opts ...bool) (r []int32, p string) {
	defer func() {
		if e := recover(); e != nil {
			p = fmt.Sprint("panic: ", e)
		}
	}()
	return bitmap.IndexRank64(w, opts...), ""
}

func idxRank128(w []uint64) (r []int32, p string) {
	defer func() {
		if e := recover(); e != nil {
			p = fmt.Sprint("panic: ", e)
		}
	}()
	return bitmap.IndexRank128(w), ""
}

func rank64(w []uint64, idx []int32, i int32) (a, b int32, p bool) {
	defer func() {
		if recover() != nil {
			p = true
		}
	}()
	a, b = bitmap.Rank64(w, idx, i)
	return
}

func rank128(w []uint64, idx []int32, i int32) (a, b int32, p bool) {
	defer func() {
		if recover() != nil {
			p = true
		}
	}()
	a, b = bitmap.Rank128(w, idx, i)
	return
}

func eqI32(a, b []int32) bool {
	if len(a) != len(b) {
		return false
	}
	for i := range a {
		if a[i] != b[i] {
			return false
		}
	}
	return true
}

func c01Run(c *mc.Ctx) {
	// POPULATION CLASSES of one word (c12PopWords): alone, behind an all-ones word, in front of a sparse one
	// and twice behind an empty one - every index kind and Rank64 / Rank64 with trailing entry / Rank128 at
	// every position: an implementation may count dense, ordinary and sparse words differently
	{
		pw := c12PopWords()
		var exp int64
		for _, l := range []int{1, 2, 2, 3} {
			exp += int64(len(pw)) * (4 + 3*64*int64(l))
		}
		c.Expect(exp)
		c.Par(len(pw), func(i int) {
			var ev int64
			for v, w := range [][]uint64{{pw[i]}, {^uint64(0), pw[i]}, {pw[i], 1 << 40}, {0, pw[i], pw[i]}} {
				order := 11<<56 | int64(i)<<12 | int64(v)<<10
				cs := c01Case{Words: append(gen.Words(nil), w...)}
				for _, k := range []string{"IndexRank64", "IndexRank64/false", "IndexRank64/true", "IndexRank128"} {
					if g, wnt := c01Judge(k, cs); g != wnt {
						c.Fail(order, k, k+"/population-classes", cs, g, wnt)
					}
				}
				ix64, _ := idxRank64(w)
				ix64t, _ := idxRank64(w, true)
				ix128, _ := idxRank128(w)
				run := int32(0)
				for pos := int32(0); pos < int32(64*len(w)); pos++ {
					bit := int32(w[pos>>6] >> uint(pos&63) & 1)
					if a, b, p := rank64(w, ix64, pos); p || a != run || b != bit {
						cs.I = pos
						c.Fail(order|int64(pos), "Rank64", "Rank64/population-classes", cs, "", "")
					}
					if a, b, p := rank64(w, ix64t, pos); p || a != run || b != bit {
						cs.I = pos
						c.Fail(order|int64(pos), "Rank64/trailing", "Rank64/trailing/population-classes", cs, "", "")
					}
					if a, b, p := rank128(w, ix128, pos); p || a != run || b != bit {
						cs.I = pos
						c.Fail(order|int64(pos), "Rank128", "Rank128/population-classes", cs, "", "")
					}
					run += bit
				}
				ev += 4 + 3*64*int64(len(w))
			}
			c.Count(ev, ev)
			c.Add("population_class_bitmaps", 4)
		})
	}
	sp := c01Space(c)
	shards := sp.Shards()
	c.Set("bitmap_space", fmt.Sprintf("B(%d,0) ∪ B1(%d): %d bitmaps, core alphabet %d words, wide alphabet %d words", sp.MaxCore, sp.MaxWide, sp.Card(), len(gen.Core), len(gen.Wide)))
	// closed form: per bitmap 4 index cases + 3 rank cases per position
	{
		var exp int64
		cnt := func(l int, n int64) { exp += n * (4 + 3*64*int64(l)) }
		for l := 0; l <= sp.MaxCore; l++ {
			cnt(l, gen.PowInt(len(gen.Core), l))
		}
		for l := 1; l <= sp.MaxWide; l++ {
			cnt(l, int64(l)*int64(len(gen.Wide))*gen.PowInt(len(gen.Core), l-1))
		}
		c.Expect(exp)
	}
	// the EMPTY bitmap in every form a caller can hand it over (nil, non-nil, with dirty spare capacity,
	// empty tail of a longer array): the index shape is owed for each of them
	for f := 0; f < gen.EmptyForms; f++ {
		cs := c01Case{EmptyForm: f + 1, FormName: gen.EmptyFormName(f)}
		order := int64(5)<<56 | int64(f)
		for _, k := range []string{"IndexRank64", "IndexRank64/false", "IndexRank64/true", "IndexRank128"} {
			if g, w := c01Judge(k, cs); g != w {
				c.Fail(order, k+"/empty-"+gen.EmptyFormName(f), k, cs, g, w)
			}
		}
		c.Count(4, 0)
	}
	c.Expect(4 * gen.EmptyForms)
	{
		maxLen := c.Pick(520, 2100)
		c.Set("length_sweep_max_words", maxLen)
		var exp int64
		for l := 0; l <= maxLen; l++ {
			exp += 4 * (3 + 1 + 2*64*int64(l))
		}
		c.Expect(exp - 1) // the very first bitmap has no predecessor to re-check
		c01Sweep(c, maxLen)
	}
	// lengths around powers of two up to 2^16 words (64 KiB .. 512 KiB of bitmap): size thresholds
	// at which an implementation may switch strategy (chunking, parallel build)
	{
		// 2^p + d and every round-number threshold (3·2^k, 10^k, 2·10^k, 5·10^k, each ±1) in between
		lens := gen.SizesAround(10, 16, []int{-1, 0, 1, 2, 3, 5, 7, 8, 9})
		lens = append(lens, 12345)
		// and EVERY length between the sequential sweep (0..520, thorough 2100) and 2^10: no gap in the
		// length coordinate below the thresholds
		for l := 521; l <= 1022; l++ {
			lens = append(lens, l)
		}
		type job struct{ l, p int }
		var jobs []job
		for _, l := range lens {
			for _, p := range []int{0, 1, 3} {
				jobs = append(jobs, job{l, p})
				c.Expect(3 + 2*64*int64(l))
			}
		}
		c.Par(len(jobs), func(ji int) {
			if c.TooMany() {
				return
			}
			j := jobs[ji]
			w := c01SweepBitmap(j.l, j.p)
			order := int64(3)<<56 | int64(j.l)<<8 | int64(j.p)
			pre := make([]int32, 0, j.l)
			n := int32(0)
			for _, x := range w {
				pre = append(pre, n)
				n += int32(bits.OnesCount64(x)) // (the popcount loop reference is cross-checked on the small spaces)
			}
			w64t := append(append([]int32(nil), pre...), n)
			w128 := ref128(pre, n, j.l)
			cs := func(i int32) c01Case { return c01Case{Words: nil, I: i, Len: j.l, Pattern: j.p} }
			i64, p1 := idxRank64(w)
			i64t, p3 := idxRank64(w, true)
			i128, p4 := idxRank128(w)
			if p1 != "" || !eqI32(i64, pre) {
				c.Fail(order, "IndexRank64", "IndexRank64", cs(0), p1+"(differs)", "(reference)")
			}
			if p3 != "" || !eqI32(i64t, w64t) {
				c.Fail(order, "IndexRank64/true", "IndexRank64", cs(0), p3+"(differs)", "(reference)")
			}
			if p4 != "" || !eqI32(i128, w128) {
				c.Fail(order, "IndexRank128", "IndexRank128", cs(0), p4+"(differs)", "(reference)")
			}
			if p1 == "" && p4 == "" {
				run := int32(0)
				bad := 0
				for i := int32(0); i < int32(64*j.l) && bad < 3; i++ {
					bit := int32(w[i>>6] >> uint(i&63) & 1)
					if a, b, pp := rank64(w, i64, i); pp || a != run || b != bit {
						c.Fail(order, "Rank64", "Rank64", cs(i), "", "")
						bad++
					}
					if a, b, pp := rank128(w, i128, i); pp || a != run || b != bit {
						c.Fail(order, "Rank128", "Rank128", cs(i), "", "")
						bad++
					}
					run += bit
				}
			}
			e := 3 + 2*64*int64(j.l)
			c.Count(e, e)
			c.Add("power_of_two_length_bitmaps", 1)
		})
	}
	// two very long bitmaps (2^18+3 and 2^20+5 words = 2 MiB and 8 MiB): complete index check, ranks at
	// the first and last 1024 positions and within 64 of every 1/16th of the length (chunk boundaries of
	// any 2-, 4-, 8- or 16-way split)
	{
		type job struct{ l, p int }
		jobs := []job{{1<<18 + 3, 3}, {1<<18 + 3, 0}, {1<<20 + 5, 3}, {1<<20 + 5, 1}}
		if bits.UintSize == 64 {
			// the top of the int32 position range: bitmaps of 2^25-1 and 2^25 words (256 MiB), the largest
			// whose every position fits the int32 parameter; sparse pattern 9 (64-bit builds only)
			jobs = append([]job{{1<<25 - 1, 9}, {1 << 25, 9}}, jobs...) // first: they take longest
			c.Add("bitmaps_of_2^31_bits", 1)
		}
		c.Par(len(jobs), func(ji int) {
			j := jobs[ji]
			w := c01SweepBitmap(j.l, j.p)
			order := int64(4)<<56 | int64(j.l)<<8 | int64(j.p)
			pre := make([]int32, 0, j.l)
			n := int32(0)
			for _, x := range w {
				pre = append(pre, n)
				n += int32(bits.OnesCount64(x))
			}
			cs := func(i int32) c01Case { return c01Case{I: i, Len: j.l, Pattern: j.p} }
			i64, p1 := idxRank64(w)
			i64t, p3 := idxRank64(w, true)
			i128, p4 := idxRank128(w)
			if p1 != "" || !eqI32(i64, pre) {
				c.Fail(order, "IndexRank64", "IndexRank64", cs(0), p1+"(differs)", "(reference)")
			}
			if p3 != "" || !eqI32(i64t, append(append([]int32(nil), pre...), n)) {
				c.Fail(order, "IndexRank64/true", "IndexRank64", cs(0), p3+"(differs)", "(reference)")
			}
			if p4 != "" || !eqI32(i128, ref128(pre, n, j.l)) {
				c.Fail(order, "IndexRank128", "IndexRank128", cs(0), p4+"(differs)", "(reference)")
			}
			evals := int64(3)
			nb := int64(64 * j.l)
			seen := map[int64]bool{}
			var pos []int64
			add := func(lo, hi int64) {
				for x := lo; x < hi; x++ {
					if x >= 0 && x < nb && !seen[x] {
						seen[x] = true
						pos = append(pos, x)
					}
				}
			}
			add(0, 1024)
			add(nb-1024, nb)
			for k := int64(1); k < 16; k++ {
				b := int64(j.l) * k / 16 * 64
				add(b-64, b+64)
				b2 := (int64(j.l)/16*k + 0) * 64 // floor(l/16)*k: the other way to cut chunks
				add(b2-64, b2+64)
			}
			if p1 == "" && p4 == "" {
				for _, x := range pos {
					i := int32(x)
					want := pre[i>>6] + int32(bits.OnesCount64(w[i>>6]&(1<<uint(i&63)-1)))
					bit := int32(w[i>>6] >> uint(i&63) & 1)
					if a, b, pp := rank64(w, i64, i); pp || a != want || b != bit {
						c.Fail(order, "Rank64", "Rank64", cs(i), "", "")
					}
					if a, b, pp := rank128(w, i128, i); pp || a != want || b != bit {
						c.Fail(order, "Rank128", "Rank128", cs(i), "", "")
					}
				}
			}
			evals += 2 * int64(len(pos))
			c.Count(evals, evals)
			c.Expect(evals)
			c.Add("very_long_bitmaps", 1)
		})
	}
	c.Par(len(shards), func(si int) {
		if c.TooMany() {
			return
		}
		var evals, nontriv, bitmaps int64
		var seq int64
		pre := make([]int32, 0, 16)
		shards[si].Each(func(w []uint64) {
			seq++
			order := int64(si)<<32 | seq
			bitmaps++
			// oracle: ones before every word boundary
			pre = pre[:0]
			n := int32(0)
			for _, x := range w {
				pre = append(pre, n)
				n += naivePop(x)
			}
			total := n
			nt := len(w) >= 2 && total > 0 && int(total) < 64*len(w)
			cs := func(i int32) c01Case { return c01Case{Words: append(gen.Words(nil), w...), I: i} }

			// index flavours
			want64 := pre
			want64t := append(append([]int32(nil), pre...), total)
			i64, p1 := idxRank64(w)
			i64f, p2 := idxRank64(w, false)
			i64t, p3 := idxRank64(w, true)
			if p1 != "" || !eqI32(i64, want64) {
				c.Fail(order, "IndexRank64", "IndexRank64", cs(0), p1+fmt.Sprint(i64), fmt.Sprint(want64))
			}
			if p2 != "" || !eqI32(i64f, want64) {
				c.Fail(order, "IndexRank64/false", "IndexRank64", cs(0), p2+fmt.Sprint(i64f), fmt.Sprint(want64))
			}
			if p3 != "" || !eqI32(i64t, want64t) {
				c.Fail(order, "IndexRank64/true", "IndexRank64", cs(0), p3+fmt.Sprint(i64t), fmt.Sprint(want64t))
			}
			want128 := ref128(pre, total, len(w))
			i128, p4 := idxRank128(w)
			if p4 != "" || !eqI32(i128, want128) {
				c.Fail(order, "IndexRank128", "IndexRank128", cs(0), p4+fmt.Sprint(i128), fmt.Sprint(want128))
			}
			evals += 4
			if nt {
				nontriv += 4
			}
			// ranks use the indexes the implementation built (the statement's
			// wording); a wrong index has already been reported above
			nb := int32(64 * len(w))
			if p1 != "" || p3 != "" || p4 != "" {
				nb = 0
			}
			run := int32(0)
			for i := int32(0); i < nb; i++ {
				x := w[i>>6]
				bit := int32(x >> uint(i&63) & 1)
				if a, b, p := rank64(w, i64, i); p || a != run || b != bit {
					c.Fail(order, "Rank64", "Rank64", cs(i), "", "")
				}
				if a, b, p := rank64(w, i64t, i); p || a != run || b != bit {
					c.Fail(order, "Rank64/trailing", "Rank64", cs(i), "", "")
				}
				if a, b, p := rank128(w, i128, i); p || a != run || b != bit {
					c.Fail(order, "Rank128", "Rank128", cs(i), "", "")
				}
				run += bit
			}
			evals += 3 * 64 * int64(len(w))
			if nt {
				nontriv += 3 * 64 * int64(len(w))
			}
			if c.WantSample(order) {
				c.ForceSample(map[string]interface{}{"words": cs(0).Words, "positions": nb, "IndexRank64(true)": want64t, "IndexRank128": want128})
			}
		})
		c.Count(evals, nontriv)
		c.Add("bitmaps", bitmaps)
	})
}

// c01SweepBitmap is pattern p of the length sweep at length l; every (l,p)
// gives different words, so a buffer reused between calls shows.
func c01SweepBitmap(l, p int) []uint64 {
	w := gen.DirtyU64(nil, l+3)[:l] // l words, 3 more of spare capacity holding a canary
	for i := range w {
		w[i] = 0
	}
	for i := range w {
		switch p {
		case 0:
			w[i] = ^uint64(0)
		case 1:
			w[i] = []uint64{0xAAAAAAAAAAAAAAAA, 0x5555555555555555, 0}[(i+l)%3]
		case 2:
			if i == l-1 {
				w[i] = 1<<63 | uint64(l)
			}
		case 9:
			// sparse, for bitmaps of 2^25 words: a few 1-bits at both ends and in the middle
			switch i {
			case 0:
				w[i] = 1
			case l / 2:
				w[i] = 6
			case l - 2:
				w[i] = 1 << 63
			case l - 1:
				w[i] = 1<<63 | 1<<62 | 1<<31 | 1
			}
		case 11:
			// ONE 1-bit at the very start, then nothing for half the bitmap, then an all-ones word and a
			// half-full one: the 1-bits number 1..31 belong to the select sample at bit 0 but lie 2^20..2^30
			// bits away from it, and the next sample lies there too (a gap between consecutive samples)
			switch i {
			case 0:
				w[i] = 1
			case l / 2:
				w[i] = ^uint64(0)
			case l/2 + 1:
				w[i] = 0x00000000ffffffff
			}
		case 10:
			// four all-ones words (256 ones: 8 select samples) at both ends and in the middle of a
			// bitmap of 2^25 words
			if i == 0 || i == l/2 || i == l-2 || i == l-1 {
				w[i] = ^uint64(0)
			}
		default:
			w[i] = uint64(i+3*l+1) * 0x9e3779b97f4a7c15
		}
	}
	return w
}

// c01Sweep: every length 0..maxLen × 4 patterns, in ONE goroutine with the
// collector off (so that pooled buffers, if a change introduces any, are handed
// back deterministically): all index flavours, all positions, and — after the
// NEXT bitmap's indexes have been built — the previous bitmap's returned indexes
// once more (an index must not change because another one was built).
func c01Sweep(c *mc.Ctx, maxLen int) {
	defer debug.SetGCPercent(debug.SetGCPercent(-1))
	type kept struct {
		w               []uint64
		i64, i64t, i128 []int32
		w64, w64t, w128 []int32
	}
	var prev *kept
	var evals, nontriv int64
	for l := 0; l <= maxLen; l++ {
		for p := 0; p < 4; p++ {
			w := c01SweepBitmap(l, p)
			order := int64(1)<<56 | int64(l)<<8 | int64(p)
			pre := make([]int32, 0, l)
			n := int32(0)
			for _, x := range w {
				pre = append(pre, n)
				n += naivePop(x)
			}
			cur := &kept{w: w, w64: pre, w64t: append(append([]int32(nil), pre...), n), w128: ref128(pre, n, l)}
			var p1, p3, p4 string
			cur.i64, p1 = idxRank64(w)
			cur.i64t, p3 = idxRank64(w, true)
			cur.i128, p4 = idxRank128(w)
			cs := func(i int32) c01Case { return c01Case{Words: append(gen.Words(nil), w...), I: i} }
			if p1 != "" || !eqI32(cur.i64, cur.w64) {
				c.Fail(order, "IndexRank64", "IndexRank64", cs(0), p1+fmt.Sprint(cur.i64), fmt.Sprint(cur.w64))
			}
			if p3 != "" || !eqI32(cur.i64t, cur.w64t) {
				c.Fail(order, "IndexRank64/true", "IndexRank64", cs(0), p3+fmt.Sprint(cur.i64t), fmt.Sprint(cur.w64t))
			}
			if p4 != "" || !eqI32(cur.i128, cur.w128) {
				c.Fail(order, "IndexRank128", "IndexRank128", cs(0), p4+fmt.Sprint(cur.i128), fmt.Sprint(cur.w128))
			}
			evals += 3
			if prev != nil {
				if !eqI32(prev.i64, prev.w64) || !eqI32(prev.i64t, prev.w64t) || !eqI32(prev.i128, prev.w128) {
					c.Fail(order, "retained", "retained", c01Case{Words: append(gen.Words(nil), prev.w...), Then: append(gen.Words(nil), w...)}, "", "")
					prev.i64, prev.i64t, prev.i128 = prev.w64, prev.w64t, prev.w128 // report once
				}
				evals++
				c.Add("retained_index_rechecks", 1)
			}
			if p1 == "" && p3 == "" && p4 == "" {
				run := int32(0)
				bad := 0
				for i := int32(0); i < int32(64*l) && bad < 3; i++ {
					bit := int32(w[i>>6] >> uint(i&63) & 1)
					if a, b, pp := rank64(w, cur.i64, i); pp || a != run || b != bit {
						c.Fail(order, "Rank64", "Rank64", cs(i), "", "")
						bad++
					}
					if a, b, pp := rank128(w, cur.i128, i); pp || a != run || b != bit {
						c.Fail(order, "Rank128", "Rank128", cs(i), "", "")
						bad++
					}
					run += bit
				}
			}
			evals += 2 * 64 * int64(l)
			prev = cur
			if c.TooMany() {
				break
			}
		}
	}
	nontriv = evals
	c.Count(evals, nontriv)
	c.Add("length_sweep_bitmaps", int64(4*(maxLen+1)))
	c.ForceSample(map[string]interface{}{"length_sweep": fmt.Sprintf("every length 0..%d words x 4 patterns", maxLen), "example_words": gen.Words(c01SweepBitmap(3, 3))})
}

// ref128 builds the 128-bit checkpoint index from the statement: len/2+1
// entries, entry k = ones before bit 128k.
func ref128(pre []int32, total int32, nwords int) []int32 {
	out := make([]int32, nwords/2+1)
	for k := range out {
		if 2*k < nwords {
			out[k] = pre[2*k]
		} else {
			out[k] = total
		}
	}
	return out
}

func c01Judge(kind string, cs c01Case) (got, want string) {
	w := []uint64(cs.Words)
	if cs.EmptyForm > 0 {
		w = gen.EmptyU64(cs.EmptyForm - 1)
		if i := strings.Index(kind, "/empty-"); i >= 0 {
			kind = kind[:i]
		}
	}
	if cs.Len > 0 {
		w = c01SweepBitmap(cs.Len, cs.Pattern)
		if kind == "IndexRank64" || kind == "IndexRank64/true" || kind == "IndexRank128" {
			// too long to print: compare and name the first differing entry
			var pre []int32
			n := int32(0)
			for _, x := range w {
				pre = append(pre, n)
				n += naivePop(x)
			}
			var g, r []int32
			var p string
			switch kind {
			case "IndexRank64":
				g, p = idxRank64(w)
				r = pre
			case "IndexRank64/true":
				g, p = idxRank64(w, true)
				r = append(pre, n)
			default:
				g, p = idxRank128(w)
				r = ref128(pre, n, len(w))
			}
			if p != "" {
				return p, "index of " + fmt.Sprint(len(r)) + " entries"
			}
			if len(g) != len(r) {
				return fmt.Sprintf("%d entries", len(g)), fmt.Sprintf("%d entries", len(r))
			}
			for i := range r {
				if g[i] != r[i] {
					return fmt.Sprintf("entry %d = %d", i, g[i]), fmt.Sprintf("entry %d = %d", i, r[i])
				}
			}
			return "index matches", "index matches"
		}
	}
	var pre []int32
	n := int32(0)
	for _, x := range w {
		pre = append(pre, n)
		n += naivePop(x)
	}
	if pre == nil {
		pre = []int32{}
	}
	want64t := append(append([]int32(nil), pre...), n)
	want128 := ref128(pre, n, len(w))
	switch kind {
	case "retained":
		defer debug.SetGCPercent(debug.SetGCPercent(-1))
		a1, _ := idxRank64(w)
		a2, _ := idxRank64(w, true)
		a3, _ := idxRank128(w)
		then := []uint64(cs.Then)
		idxRank64(then)
		idxRank64(then, true)
		idxRank128(then)
		return fmt.Sprint("after building the indexes of another bitmap: ", a1, a2, a3), fmt.Sprint("after building the indexes of another bitmap: ", pre, want64t, want128)
	case "IndexRank64":
		r, p := idxRank64(w)
		return p + fmt.Sprint(r), fmt.Sprint(pre)
	case "IndexRank64/false":
		r, p := idxRank64(w, false)
		return p + fmt.Sprint(r), fmt.Sprint(pre)
	case "IndexRank64/true":
		r, p := idxRank64(w, true)
		return p + fmt.Sprint(r), fmt.Sprint(want64t)
	case "IndexRank128":
		r, p := idxRank128(w)
		return p + fmt.Sprint(r), fmt.Sprint(want128)
	}
	i := cs.I
	run := int32(0)
	for k := int32(0); k < i>>6; k++ {
		if w[k] != 0 {
			run += naivePop(w[k])
		}
	}
	for j := i &^ 63; j < i; j++ {
		run += int32(w[j>>6] >> uint(j&63) & 1)
	}
	bit := int32(w[i>>6] >> uint(i&63) & 1)
	want = fmt.Sprintf("(%d,%d)", run, bit)
	var a, b int32
	var p bool
	switch kind {
	case "Rank64":
		ix, _ := idxRank64(w)
		a, b, p = rank64(w, ix, i)
	case "Rank64/trailing":
		ix, _ := idxRank64(w, true)
		a, b, p = rank64(w, ix, i)
	case "Rank128":
		ix, _ := idxRank128(w)
		a, b, p = rank128(w, ix, i)
	default:
		return "unknown kind " + kind, ""
	}
	if p {
		return "panic", want
	}
	return fmt.Sprintf("(%d,%d)", a, b), want
}

var _ = bits.OnesCount64
