package props

import (
	"fmt"

	"github.com/openacid/low/sigbits"

	"verif/gen"
	"verif/mc"
)

// C17: ShardByPrefix — bounded contiguous shards with ordered, unique prefixes.

func init() {
	mc.Register(&mc.Property{
		ID:     "C17",
		Word32: true,
		Level:  "exploration",
		Rule: "E1 bounded-exhaustive enumeration: the C16 key sets (every non-empty sorted subset of the suffix-key universes behind each stem) × every maxSize in [1, len+1]; plus chains a, aa, aaa, ... of 33..258 keys and a 36-level directory tree (as many oversized ranges nested in one another as there are keys); plus key TREES by shape (every sequence of one or two groups over 107 shapes - a first letter that is a key or not, 0/1/2/5/6/7 children, optionally a nested subgroup of 2/5/6 grandchildren - and of three groups over a reduced shape alphabet: one range splitting into 6..8 single keys next to a sibling leaf of 5..7 keys with a longer common prefix) × every maxSize in [1, len+1]; plus two key sets of 1111 and 4161 keys with 25 maxSize values around powers of two; plus generated key lists of EVERY threshold size n = b-1, b, b+1 (b in 2^k, 3·2^k, 10^k, 2·10^k, 5·10^k) from 1000 up to 400001 keys (thorough: 2^20+1) in two styles × maxSize in {1,2,3,255,256,257,4096,n/2,n-1,n,n+1}. Oracle, clause by clause from the statement: boundaries start at 0, strictly increase and end at len; every shard holds ≤ maxSize keys; L[j] is the byte length of the longest common prefix of the shard computed by direct comparison (the key's own length for a single key); shard prefixes strictly ascending. LONG keys: eight keys around a shared stem of EVERY threshold length 81..70000 (thorough 2^20+1) bytes × every maxSize 1..9. " +
			"A case is one call; non-trivial when the set has ≥3 keys and maxSize < len; key sets that re-occur in a later family are executed again but counted once.",
		Assumptions: []string{"key sets are drawn from small byte alphabets behind fixed stems"},
		Run:         c17Run,
		Judge:       mc.JudgeOf(c17Judge),
	})
}

func shardByPrefix(keys []string, max int32) (l, b []int32, p string) {
	defer func() {
		if e := recover(); e != nil {
			p = fmt.Sprint("panic: ", e)
		}
	}()
	l, b = sigbits.ShardByPrefix(keys, max)
	return l, b, ""
}

// c17Verdict checks the statement's clauses; "" means all hold.
func c17Verdict(keys []string, max int32, L, B []int32) string {
	n := int32(len(keys))
	if len(B) < 2 || len(L) != len(B)-1 {
		return fmt.Sprintf("shape: %d prefix lengths, %d boundaries", len(L), len(B))
	}
	if B[0] != 0 || B[len(B)-1] != n {
		return fmt.Sprintf("boundaries do not run from 0 to %d", n)
	}
	prev := ""
	for j := range L {
		s, e := B[j], B[j+1]
		if e <= s {
			return fmt.Sprintf("boundaries not strictly increasing at shard %d", j)
		}
		if e > n {
			return fmt.Sprintf("boundary beyond the keys at shard %d", j)
		}
		if e-s > max {
			return fmt.Sprintf("shard %d holds %d keys > maxSize", j, e-s)
		}
		// longest common prefix by direct comparison
		lcp := len(keys[s])
		for k := s + 1; k < e; k++ {
			i := 0
			for i < lcp && i < len(keys[k]) && keys[s][i] == keys[k][i] {
				i++
			}
			lcp = i
		}
		if int(L[j]) != lcp {
			return fmt.Sprintf("shard %d: prefix length %d, longest common prefix is %d bytes", j, L[j], lcp)
		}
		pfx := keys[s][:lcp]
		if j > 0 && !(prev < pfx) {
			return fmt.Sprintf("shard %d: prefix %x not strictly after %x", j, pfx, prev)
		}
		prev = pfx
	}
	return ""
}

// c17BigSizes: the maxSize values used on key sets of a thousand and more keys.
func c17BigSizes(n int) []int32 {
	seen := map[int32]bool{}
	var out []int32
	for _, v := range []int{1, 2, 3, 4, 7, 8, 9, 15, 16, 17, 31, 32, 33, 63, 64, 65, 255, 256, 257, 1023, 1024, 1025, n - 1, n, n + 1} {
		if v >= 1 && v <= n+1 && !seen[int32(v)] {
			seen[int32(v)] = true
			out = append(out, int32(v))
		}
	}
	return out
}

func c17Run(c *mc.Ctx) {
	fams := c16Families(c)
	shards := c16Shards(fams)
	for _, f := range fams {
		n := len(f.univ)
		for k := 1; k <= n; k++ {
			if !f.hasSize(k) {
				continue
			}
			if f.c17Only {
				c.Expect(int64(len(f.stems)) * int64(len(c17BigSizes(k))))
			} else {
				c.Expect(binom(n, k) * int64(len(f.stems)) * int64(k+1))
			}
		}
	}
	c.Par(len(shards), func(si int) {
		if c.TooMany() {
			return
		}
		sh := shards[si]
		f := fams[sh.fam]
		stem := c09Stem(sh.stem)
		univ := make([]string, len(f.univ))
		for i, k := range f.univ {
			univ[i] = stem + k
		}
		var evals, nontriv, sets int64
		keys := make([]string, 0, 16)
		eachSubset(len(univ), f.maxSize, sh.lo, sh.hi, func(ix []int) {
			sets++
			keys = keys[:0]
			for _, k := range ix {
				keys = append(keys, univ[k])
			}
			n := int32(len(keys))
			dup := c16Dup(fams, sh.fam, sh.stem, ix)
			sizes := c17BigSizes(int(n))
			if !f.c17Only {
				sizes = sizes[:0]
				for max := int32(1); max <= n+1; max++ {
					sizes = append(sizes, max)
				}
			}
			for _, max := range sizes {
				L, B, p := shardByPrefix(keys, max)
				v := p
				if p == "" {
					v = c17Verdict(keys, max, L, B)
				}
				if v != "" {
					c.Fail(int64(si)<<36|sets<<8|int64(max), "ShardByPrefix", "ShardByPrefix", c16Case{Keys: gen.BytesList(append([]string(nil), keys...)), Max: max}, c17Clip(L, B)+v, "all clauses of the statement hold")
				}
				evals++
				if !dup && n >= 3 && max < n {
					nontriv++
				}
			}
			if sets%1999 == 7 && si%16 == 5 {
				L, B, _ := shardByPrefix(keys, 2)
				c.ForceSample(map[string]interface{}{"keys_hex": gen.BytesList(append([]string(nil), keys...)), "maxSize": "1..len+1", "maxSize=2": map[string]interface{}{"L": L, "B": B}})
			}
		})
		c.Count(evals, nontriv)
		c.Add("key_sets", sets)
	})
	c17Fans(c)
	c17Big(c)
}

// c17FanShape: one group of keys below a first letter g: g itself (or not), n children g+'a'.., and
// optionally a nested subgroup in place of child 'b': "gb" itself (or not) and nb grandchildren "gb"+'a'..
type c17FanShape struct {
	self   bool
	n      int
	nested bool
	selfB  bool
	nb     int
	at     int // the child index the nested subgroup replaces (0: before its siblings, 1: after the first)
}

func (sh c17FanShape) keys(g byte) []string {
	var out []string
	if sh.self {
		out = append(out, string([]byte{g}))
	}
	for i := 0; i < sh.n; i++ {
		ch := byte('a' + i)
		if sh.nested && i == sh.at {
			if sh.selfB {
				out = append(out, string([]byte{g, ch}))
			}
			for j := 0; j < sh.nb; j++ {
				out = append(out, string([]byte{g, ch, byte('a' + j)}))
			}
			continue
		}
		out = append(out, string([]byte{g, ch}))
	}
	return out
}

func c17FanShapes(reduced bool) []c17FanShape {
	var out []c17FanShape
	for _, self := range []bool{false, true} {
		for _, n := range []int{0, 1, 2, 5, 6, 7} {
			if !self && n == 0 {
				continue
			}
			if reduced && (n == 1 || n == 5) {
				continue
			}
			out = append(out, c17FanShape{self: self, n: n})
			if n < 2 || (reduced && self) {
				continue
			}
			for _, selfB := range []bool{false, true} {
				for _, nb := range []int{2, 5, 6} {
					if reduced && (nb == 2 || selfB) {
						continue
					}
					out = append(out, c17FanShape{self, n, true, selfB, nb, 1})
					if !reduced || nb == 5 {
						out = append(out, c17FanShape{self, n, true, selfB, nb, 0})
					}
				}
			}
		}
	}
	return out
}

// c17Fans: key TREES by shape. The subset families have a fan-out of at most 3 or 4 below any prefix and the
// full-fan-out families are taken whole; in between lie trees in which one range splits into 6..8 single
// keys (more than maxSize) while a SIBLING range is a leaf of 5..7 keys with a longer common prefix, nested
// one level down. Every sequence of one or two groups over 107 shapes (self key or not; 0/1/2/5/6/7 children;
// optionally a nested subgroup of 2/5/6 grandchildren with or without its own key) and every sequence of
// three groups over a reduced alphabet, x EVERY maxSize 1..len+1.
func c17Fans(c *mc.Ctx) {
	full, red := c17FanShapes(false), c17FanShapes(true)
	var sets [][]string
	for _, a := range full {
		sets = append(sets, a.keys('a'))
		for _, b := range full {
			sets = append(sets, append(a.keys('a'), b.keys('b')...))
		}
	}
	for _, a := range red {
		for _, b := range red {
			for _, d := range red {
				sets = append(sets, append(append(a.keys('a'), b.keys('b')...), d.keys('c')...))
			}
		}
	}
	for _, ks := range sets {
		c.Expect(int64(len(ks) + 1))
	}
	c.Set("fan_tree_key_sets", len(sets))
	c.Par(len(sets), func(i int) {
		keys := sets[i]
		n := int32(len(keys))
		for max := int32(1); max <= n+1; max++ {
			L, B, p := shardByPrefix(keys, max)
			v := p
			if p == "" {
				v = c17Verdict(keys, max, L, B)
			}
			if v != "" {
				c.Fail(int64(7)<<56|int64(i)<<8|int64(max), "ShardByPrefix", "ShardByPrefix/fan-trees", c16Case{Keys: gen.BytesList(append([]string(nil), keys...)), Max: max}, c17Clip(L, B)+v, "all clauses of the statement hold")
			}
		}
		c.Count(int64(n+1), int64(n+1))
		c.Add("fan_tree_calls", int64(n+1))
	})
}

// c17Big: ShardByPrefix on generated key lists of every threshold size.
func c17Big(c *mc.Ctx) {
	sizes := gen.ThresholdSizes(1000, c16BigHi(c))
	type job struct {
		n, style int
		max      int32
	}
	var jobs []job
	for i := len(sizes) - 1; i >= 0; i-- {
		n := sizes[i]
		for style := 0; style < 2; style++ {
			seen := map[int]bool{}
			for _, m := range []int{1, 2, 3, 255, 256, 257, 4096, n / 2, n - 1, n, n + 1} {
				if !seen[m] {
					seen[m] = true
					jobs = append(jobs, job{n, style, int32(m)})
				}
			}
		}
	}
	// LONG keys: eight keys around a shared stem of every threshold length (c16GenKeys style 2) × every maxSize 1..9
	for _, l := range c16LongStems(c) {
		for m := 1; m <= 9; m++ {
			jobs = append(jobs, job{l, 2, int32(m)})
		}
	}
	c.Expect(int64(len(jobs)))
	c.Par(len(jobs), func(ji int) {
		if c.TooMany() {
			return
		}
		j := jobs[ji]
		keys := c16GenKeys(j.n, j.style)
		L, B, p := shardByPrefix(keys, j.max)
		v := p
		if p == "" {
			v = c17Verdict(keys, j.max, L, B)
		}
		if v != "" {
			c.Fail(int64(5)<<56|int64(j.n)<<24|int64(j.style)<<20|int64(ji), "ShardByPrefix", "ShardByPrefix", c16Case{GenN: j.n, GenStyle: j.style, Max: j.max}, c17Clip(L, B)+v, "all clauses of the statement hold")
		}
		c.Count(1, 1)
		c.Add("generated_key_list_calls", 1)
		if j.style == 2 {
			c.Max("longest_shared_stem_bytes", int64(j.n))
		} else {
			c.Max("largest_key_list", int64(j.n))
		}
	})
}

func c17Clip(L, B []int32) string {
	if len(B) > 40 {
		return fmt.Sprintf("(%d shards) ", len(L))
	}
	return fmt.Sprintf("L=%v B=%v: ", L, B)
}

func c17Judge(kind string, cs c16Case) (got, want string) {
	keys := cs.keys()
	L, B, p := shardByPrefix(keys, cs.Max)
	if p != "" {
		return p, "all clauses of the statement hold"
	}
	if v := c17Verdict(keys, cs.Max, L, B); v != "" {
		return c17Clip(L, B) + v, "all clauses of the statement hold"
	}
	return "all clauses of the statement hold", "all clauses of the statement hold"
}
