//go:build !verifsched

package props

import (
	"fmt"

	"verif/mc"
)

func init() {
	mc.RegisterWorker("c06sched", func([]string) int {
		fmt.Println(`{"Err":"this binary was built without the instrumentation overlay (tag verifsched)"}`)
		return 2
	})
}
