package props

import (
	"bytes"
	"encoding/binary"
	"fmt"
	"reflect"

	"github.com/golang/protobuf/proto"
	"github.com/golang/protobuf/ptypes/any"
	"github.com/golang/protobuf/ptypes/duration"
	"github.com/golang/protobuf/ptypes/empty"
	structpb "github.com/golang/protobuf/ptypes/struct"
	"github.com/golang/protobuf/ptypes/timestamp"
	"github.com/golang/protobuf/ptypes/wrappers"
	"github.com/openacid/low/pbcmpl"
)

// The MESSAGE ZOO of C06. "For every message": the frame alphabet of c06.go varies the length of one bytes
// field; the zoo varies the CONTENT - generated messages of fifteen types, scalar fields of every wire type,
// negative varints, nested messages, a map entry, and messages that carry UNKNOWN FIELDS (what any message
// decoded from a peer with a newer schema carries; they are written by Marshal, counted by Size and must
// come back from Unmarshal), at top level and inside a nested message. Every entry is given by its wire
// bytes, written out by hand; the harness decodes them once with the protobuf runtime (not with pbcmpl),
// checks that the runtime re-encodes them identically (so the bytes are the canonical encoding of the
// message), and then requires of pbcmpl: Marshal writes header + those bytes and returns / Size reports
// 32 + len; Unmarshal of [that frame, a small frame] into a fresh target and into a DIRTY reused target
// (holding another message, unknown fields included) yields a message that is proto.Equal to the source,
// re-encodes to the same bytes, has the same Size, reports version DefaultVer and n = frame length, and the
// small frame behind it is intact; under whole, 1-byte and 7-byte chunkings.

type c06ZooEntry struct {
	Name string
	New  func() proto.Message
	Raw  []byte
}

func c06ZooList() []c06ZooEntry {
	bv := func() proto.Message { return &wrappers.BytesValue{} }
	neg := func(tag byte, last byte) []byte { // a 10-byte negative varint
		return append([]byte{tag, last}, 0xff, 0xff, 0xff, 0xff, 0xff, 0xff, 0xff, 0xff, 0x01)
	}
	big := make([]byte, 1<<20+5)
	for i := range big {
		big[i] = byte(i*11 + 3)
	}
	var lb [10]byte
	n := binary.PutUvarint(lb[:], uint64(len(big)))
	bigRaw := append(append(append([]byte{0x0a}, lb[:n]...), big...), 0x78, 0x01)
	return []c06ZooEntry{
		{"BytesValue+unknown-varint-f15", bv, []byte{0x0a, 5, 'h', 'e', 'l', 'l', 'o', 0x78, 0x01}},
		{"BytesValue(empty)+unknown-bytes-f2", bv, []byte{0x12, 3, 'x', 'y', 'z'}},
		{"BytesValue+unknown-fixed32-f3+fixed64-f4", bv, []byte{0x0a, 1, 'a', 0x1d, 1, 2, 3, 4, 0x21, 1, 2, 3, 4, 5, 6, 7, 8}},
		{"BytesValue+unknown-varint-f536870911", bv, []byte{0x0a, 1, 'a', 0xf8, 0xff, 0xff, 0xff, 0x0f, 0x7f}},
		{"BytesValue+unknown-group-f5", bv, []byte{0x0a, 1, 'a', 0x2b, 0x08, 0x01, 0x2c}},
		{"BytesValue+two-unknown-fields", bv, []byte{0x0a, 2, 0, 0xff, 0x10, 0x96, 0x01, 0x78, 0x00}},
		{"BytesValue(1MiB+5)+unknown-varint", bv, bigRaw},
		{"StringValue-utf8", func() proto.Message { return &wrappers.StringValue{} }, []byte{0x0a, 6, 'h', 0xc3, 0xa9, 'l', 'l', 'o'}},
		{"StringValue+unknown", func() proto.Message { return &wrappers.StringValue{} }, []byte{0x0a, 1, 'z', 0x78, 0x05}},
		{"Int64Value(-1)", func() proto.Message { return &wrappers.Int64Value{} }, neg(0x08, 0xff)},
		{"Int32Value(-2)", func() proto.Message { return &wrappers.Int32Value{} }, neg(0x08, 0xfe)},
		{"UInt64Value(max)", func() proto.Message { return &wrappers.UInt64Value{} }, neg(0x08, 0xff)},
		{"UInt32Value(300)", func() proto.Message { return &wrappers.UInt32Value{} }, []byte{0x08, 0xac, 0x02}},
		{"BoolValue(true)", func() proto.Message { return &wrappers.BoolValue{} }, []byte{0x08, 0x01}},
		{"BoolValue(false)+unknown", func() proto.Message { return &wrappers.BoolValue{} }, []byte{0x78, 0x01}},
		{"DoubleValue(1.5)", func() proto.Message { return &wrappers.DoubleValue{} }, []byte{0x09, 0, 0, 0, 0, 0, 0, 0xf8, 0x3f}},
		{"FloatValue(2.5)", func() proto.Message { return &wrappers.FloatValue{} }, []byte{0x0d, 0, 0, 0x20, 0x40}},
		{"Duration(-5s,-3ns)", func() proto.Message { return &duration.Duration{} }, append(neg(0x08, 0xfb), neg(0x10, 0xfd)...)},
		{"Timestamp(1,2)+unknown", func() proto.Message { return &timestamp.Timestamp{} }, []byte{0x08, 1, 0x10, 2, 0x78, 0x09}},
		{"Empty", func() proto.Message { return &empty.Empty{} }, []byte{}},
		{"Empty+unknown", func() proto.Message { return &empty.Empty{} }, []byte{0x08, 0x01, 0x12, 0x01, 0x00}},
		{"Any", func() proto.Message { return &any.Any{} }, []byte{0x0a, 3, 't', '/', 'x', 0x12, 3, 0, 1, 2}},
		{"Struct{k:1.0}", func() proto.Message { return &structpb.Struct{} }, []byte{0x0a, 0x0e, 0x0a, 1, 'k', 0x12, 9, 0x11, 0, 0, 0, 0, 0, 0, 0xf0, 0x3f}},
		{"ListValue[true+unknown-inside,true]", func() proto.Message { return &structpb.ListValue{} }, []byte{0x0a, 4, 0x20, 1, 0x78, 1, 0x0a, 2, 0x20, 1}},
		{"Value{struct{k:null}}+unknown", func() proto.Message { return &structpb.Value{} }, []byte{0x2a, 0x09, 0x0a, 0x07, 0x0a, 1, 'k', 0x12, 2, 0x08, 0x00, 0x78, 0x02}},
	}
}

func c06ZooByName(name string) *c06ZooEntry {
	for _, e := range c06ZooList() {
		if e.Name == name {
			e := e
			return &e
		}
	}
	return nil
}

// c06ZooSelfCheck: the hand-written bytes must be the canonical encoding of the message they decode to -
// a mistake here is a mistake of the harness, not of the library.
func c06ZooSelfCheck(e c06ZooEntry) {
	m := e.New()
	if err := proto.Unmarshal(e.Raw, m); err != nil {
		panic("harness: zoo entry " + e.Name + " does not decode: " + err.Error())
	}
	b, err := proto.Marshal(m)
	if err != nil || !bytes.Equal(b, e.Raw) {
		panic(fmt.Sprintf("harness: zoo entry %s is not canonical: re-encoded %x, written %x (%v)", e.Name, clipB(b), clipB(e.Raw), err))
	}
}

func clipB(b []byte) []byte {
	if len(b) > 40 {
		return b[:40]
	}
	return b
}

// c06ZooJudge runs one zoo case: chunk = 0 (whole), or a uniform chunk size.
func c06ZooJudge(name string, chunk int) (got, want string) {
	e := c06ZooByName(name)
	if e == nil {
		return "unknown zoo entry " + name, ""
	}
	defer func() {
		if x := recover(); x != nil {
			if s, ok := x.(string); ok && len(s) > 8 && s[:8] == "harness:" {
				panic(x)
			}
			got += fmt.Sprint(" panic: ", x)
		}
	}()
	c06ZooSelfCheck(*e)
	src := e.New()
	proto.Unmarshal(e.Raw, src)
	h := make([]byte, 32)
	copy(h, "1.0.0")
	binary.LittleEndian.PutUint64(h[16:], 32)
	binary.LittleEndian.PutUint64(h[24:], uint64(len(e.Raw)))
	wire := append(h, e.Raw...)
	small := c06Frame{Kind: "pb", Payload: 3}
	want = fmt.Sprintf("marshal n=%d err=nil written=%s Size=%d", len(wire), digest(wire), len(wire))
	w := &c06CountWriter{}
	n, err := pbcmpl.Marshal(w, src)
	got = fmt.Sprintf("marshal n=%d err=%s written=%s Size=%d", n, errName(err), digest(w.buf.Bytes()), pbcmpl.Size(src))
	stream := append(append([]byte{}, wire...), c06Wire(small)...)
	for _, dirty := range []bool{false, true} {
		want += fmt.Sprintf(" | dirty=%v n=%d ver=%q err=nil equal=true reenc=%s Size=%d next[n=%d payload=%s]", dirty, len(wire), "1.0.0", digest(e.Raw), len(wire), len(c06Wire(small)), digest(c06Payload(3)))
		t := e.New()
		if dirty {
			// a reused target that still holds another message of its type (with an unknown field of its own)
			proto.Unmarshal([]byte{0x78, 0x2a, 0x9a, 0x01, 0x02, 'o', 'l'}, t)
		}
		r := &c06Reader{data: stream, uniform: chunk}
		n, ver, err := pbcmpl.Unmarshal(r, t)
		re, _ := proto.Marshal(t)
		got += fmt.Sprintf(" | dirty=%v n=%d ver=%q err=%s equal=%v reenc=%s Size=%d", dirty, n, ver, errName(err), proto.Equal(src, t), digest(re), pbcmpl.Size(t))
		t2 := c06Empty("pb")
		n2, _, err2 := pbcmpl.Unmarshal(r, t2)
		got += fmt.Sprintf(" next[n=%d payload=%s]", n2, digest(c06PayloadOf(t2)))
		if err2 != nil {
			got += " next-err=" + errName(err2)
		}
	}
	return got, want
}

// ---- histories on ONE message object (round 13)
//
// A caller may keep a message, marshal it, change something INSIDE it and marshal it again. The statement
// is about every message at the moment of the call, so the second frame must be the encoding of the message
// as it is then - whatever sizes the protobuf runtime cached in the object during the first call. Each entry:
// a message with a NESTED message (repeated element, map value, oneof member, two levels), given by its wire
// bytes before (Raw1) and after (Raw2) a mutation that changes the nested message's encoded length; the
// sizing call that precedes the mutation is pbcmpl.Marshal, pbcmpl.Size, proto.Size or none; no sizing call
// is made between the mutation and the judged Marshal.

type c06MutEntry struct {
	Name   string
	New    func() proto.Message
	Raw1   []byte
	Mutate func(m proto.Message)
	Raw2   []byte
}

func c06MutList() []c06MutEntry {
	long := "abcdefghij"
	sv := func(s string) *structpb.Value {
		return &structpb.Value{Kind: &structpb.Value_StringValue{StringValue: s}}
	}
	val := func(s string) []byte { return append([]byte{0x1a, byte(len(s))}, s...) } // Value{string_value: s}
	wrap := func(tag byte, b []byte) []byte { return append([]byte{tag, byte(len(b))}, b...) }
	entry := func(v []byte) []byte { return append([]byte{0x0a, 1, 'k'}, wrap(0x12, v)...) } // map entry "k" -> v
	return []c06MutEntry{
		{"ListValue/element-field-changed-in-place", func() proto.Message { return &structpb.ListValue{} }, wrap(0x0a, val("a")),
			func(m proto.Message) {
				m.(*structpb.ListValue).Values[0].Kind = &structpb.Value_StringValue{StringValue: long}
			}, wrap(0x0a, val(long))},
		{"ListValue/element-replaced", func() proto.Message { return &structpb.ListValue{} }, wrap(0x0a, val("a")),
			func(m proto.Message) { m.(*structpb.ListValue).Values[0] = sv(long) }, wrap(0x0a, val(long))},
		{"ListValue/element-shrinks", func() proto.Message { return &structpb.ListValue{} }, wrap(0x0a, val(long)),
			func(m proto.Message) {
				m.(*structpb.ListValue).Values[0].Kind = &structpb.Value_StringValue{StringValue: ""}
			}, wrap(0x0a, val(""))},
		{"ListValue/second-element-appended", func() proto.Message { return &structpb.ListValue{} }, wrap(0x0a, val("a")),
			func(m proto.Message) { l := m.(*structpb.ListValue); l.Values = append(l.Values, sv(long)) }, append(wrap(0x0a, val("a")), wrap(0x0a, val(long))...)},
		{"Struct/map-value-changed-in-place", func() proto.Message { return &structpb.Struct{} }, wrap(0x0a, entry(val("a"))),
			func(m proto.Message) {
				m.(*structpb.Struct).Fields["k"].Kind = &structpb.Value_StringValue{StringValue: long}
			}, wrap(0x0a, entry(val(long)))},
		{"Value/list-two-levels-down-changed-in-place", func() proto.Message { return &structpb.Value{} }, wrap(0x32, wrap(0x0a, val("a"))),
			func(m proto.Message) {
				m.(*structpb.Value).Kind.(*structpb.Value_ListValue).ListValue.Values[0].Kind = &structpb.Value_StringValue{StringValue: long}
			}, wrap(0x32, wrap(0x0a, val(long)))},
		{"Value/struct-member-replaced", func() proto.Message { return &structpb.Value{} }, wrap(0x2a, wrap(0x0a, entry(val("a")))),
			func(m proto.Message) {
				m.(*structpb.Value).Kind.(*structpb.Value_StructValue).StructValue.Fields["k"] = sv(long)
			}, wrap(0x2a, wrap(0x0a, entry(val(long))))},
	}
}

var c06MutSizers = []string{"pbcmpl.Marshal", "pbcmpl.Size", "proto.Size", "none"}

// c06MutJudge runs one history: decode Raw1, sizing call, mutate, Marshal, read back.
func c06MutJudge(name, sizer string) (got, want string) {
	var e *c06MutEntry
	for _, x := range c06MutList() {
		if x.Name == name {
			x := x
			e = &x
		}
	}
	if e == nil {
		return "unknown history " + name, ""
	}
	defer func() {
		if x := recover(); x != nil {
			if s, ok := x.(string); ok && len(s) > 8 && s[:8] == "harness:" {
				panic(x)
			}
			got += fmt.Sprint(" panic: ", x)
		}
	}()
	// self-check with fresh objects: both byte strings are canonical, and the mutation leads from one to the other
	c06ZooSelfCheck(c06ZooEntry{Name: name + "/before", New: e.New, Raw: e.Raw1})
	c06ZooSelfCheck(c06ZooEntry{Name: name + "/after", New: e.New, Raw: e.Raw2})
	{
		m := e.New()
		proto.Unmarshal(e.Raw1, m)
		e.Mutate(m)
		fresh := e.New()
		proto.Unmarshal(e.Raw2, fresh)
		if !proto.Equal(m, fresh) {
			panic("harness: mutation of " + name + " does not lead to the message of Raw2")
		}
	}
	frame := func(raw []byte) []byte {
		h := make([]byte, 32)
		copy(h, "1.0.0")
		binary.LittleEndian.PutUint64(h[16:], 32)
		binary.LittleEndian.PutUint64(h[24:], uint64(len(raw)))
		return append(h, raw...)
	}
	src := e.New()
	proto.Unmarshal(e.Raw1, src)
	w := &c06CountWriter{}
	w1, w2 := frame(e.Raw1), frame(e.Raw2)
	switch sizer {
	case "pbcmpl.Marshal":
		n, err := pbcmpl.Marshal(w, src)
		got += fmt.Sprintf("first n=%d err=%s written=%s | ", n, errName(err), digest(w.buf.Bytes()))
		want += fmt.Sprintf("first n=%d err=nil written=%s | ", len(w1), digest(w1))
		w.buf.Reset()
	case "pbcmpl.Size":
		got += fmt.Sprintf("Size=%d | ", pbcmpl.Size(src))
		want += fmt.Sprintf("Size=%d | ", len(w1))
	case "proto.Size":
		proto.Size(src)
	}
	e.Mutate(src)
	n, err := pbcmpl.Marshal(w, src)
	got += fmt.Sprintf("after the change n=%d err=%s written=%s Size=%d", n, errName(err), digest(w.buf.Bytes()), pbcmpl.Size(src))
	want += fmt.Sprintf("after the change n=%d err=nil written=%s Size=%d", len(w2), digest(w2), len(w2))
	t := e.New()
	n2, _, err2 := pbcmpl.Unmarshal(bytes.NewReader(w.buf.Bytes()), t)
	got += fmt.Sprintf(" | back n=%d err=%s equal=%v", n2, errName(err2), proto.Equal(src, t))
	want += fmt.Sprintf(" | back n=%d err=nil equal=true", len(w2))
	return got, want
}

// ---- messages with their own Marshal / Unmarshal methods, of several shapes (round 14)
//
// The frame alphabet's "legacy" kind is one struct holding one byte slice whose Unmarshal overwrites it. The
// statement says "every message"; a message that brings its own codec may also
//   - be a struct of fixed-size fields (encoding/binary can size it - differently from its own encoding),
//   - have a Size() or ProtoSize() method that means something else than the encoded length,
//   - MERGE in Unmarshal instead of overwriting (the documented golang/protobuf contract: proto.Unmarshal
//     resets the target first, Unmarshal methods append),
//   - encode to nothing at all,
//   - be used BY VALUE (value receivers; its zero value is a message like any other).
// For each: Marshal's count = bytes written = Size = HeaderSize + len(own encoding), the wire is header + own
// encoding, and Unmarshal into a fresh and into a DIRTY reused target yields the source (compared through the
// type's own encoding and reflect.DeepEqual), with a small frame behind it intact.

type c06Pt struct{ X, Y int32 } // fixed-size for encoding/binary (8 bytes); encodes as two varints (2..10 bytes)

func (p *c06Pt) Marshal() ([]byte, error) {
	b := make([]byte, 2*binary.MaxVarintLen32)
	n := binary.PutVarint(b, int64(p.X))
	n += binary.PutVarint(b[n:], int64(p.Y))
	return b[:n], nil
}
func (p *c06Pt) Unmarshal(b []byte) error {
	x, n := binary.Varint(b)
	y, _ := binary.Varint(b[n:])
	p.X, p.Y = int32(x), int32(y)
	return nil
}
func (p *c06Pt) Reset()         { *p = c06Pt{} }
func (p *c06Pt) String() string { return fmt.Sprint(p.X, ",", p.Y) }
func (p *c06Pt) ProtoMessage()  {}

type c06Batch struct{ Items []string } // Size() counts items; Unmarshal APPENDS (merge semantics)

func (b *c06Batch) Marshal() ([]byte, error) {
	var out []byte
	for _, it := range b.Items {
		var lb [binary.MaxVarintLen64]byte
		out = append(append(out, lb[:binary.PutUvarint(lb[:], uint64(len(it)))]...), it...)
	}
	return out, nil
}
func (b *c06Batch) Unmarshal(d []byte) error {
	for len(d) > 0 {
		l, n := binary.Uvarint(d)
		if n <= 0 || uint64(len(d)-n) < l {
			return fmt.Errorf("c06Batch: bad encoding")
		}
		b.Items = append(b.Items, string(d[n:n+int(l)]))
		d = d[n+int(l):]
	}
	return nil
}
func (b *c06Batch) Reset()         { b.Items = nil }
func (b *c06Batch) String() string { return fmt.Sprint(b.Items) }
func (b *c06Batch) ProtoMessage()  {}
func (b *c06Batch) Size() int      { return len(b.Items) }

type c06Sized struct{ Data []byte } // ProtoSize() (the gogo spelling) means something else as well

func (l *c06Sized) Marshal() ([]byte, error) { return append([]byte{0x7e}, l.Data...), nil }
func (l *c06Sized) Unmarshal(b []byte) error {
	if len(b) > 0 {
		l.Data = append(l.Data, b[1:]...) // merges, too
	}
	return nil
}
func (l *c06Sized) Reset()         { l.Data = nil }
func (l *c06Sized) String() string { return fmt.Sprintf("%x", l.Data) }
func (l *c06Sized) ProtoMessage()  {}
func (l *c06Sized) ProtoSize() int { return 1000 + len(l.Data) }

// c06PtV is a message used BY VALUE: every method but Unmarshal has a value receiver, so c06PtV{...} itself
// (not a pointer to it) is a proto.Message - and its zero value is a perfectly good message.
type c06PtV struct{ X, Y int32 }

func (p c06PtV) Marshal() ([]byte, error) { q := c06Pt(p); return q.Marshal() }
func (p *c06PtV) Unmarshal(b []byte) error {
	var q c06Pt
	q.Unmarshal(b)
	*p = c06PtV(q)
	return nil
}
func (p c06PtV) Reset()         {}
func (p c06PtV) String() string { return fmt.Sprint(p.X, ",", p.Y) }
func (p c06PtV) ProtoMessage()  {}

type c06OwnCodec struct {
	Name  string
	Src   func() proto.Message // the message to write
	Dirty func() proto.Message // a target that already holds something else
	Enc   func(m proto.Message) []byte
}

func c06OwnCodecList() []c06OwnCodec {
	enc := func(m proto.Message) []byte {
		b, _ := m.(interface{ Marshal() ([]byte, error) }).Marshal()
		return b
	}
	return []c06OwnCodec{
		{"Pt(1,2)", func() proto.Message { return &c06Pt{1, 2} }, func() proto.Message { return &c06Pt{-7, 9} }, enc},
		{"Pt(-1,MaxInt32)", func() proto.Message { return &c06Pt{-1, 1<<31 - 1} }, func() proto.Message { return &c06Pt{3, 3} }, enc},
		{"Pt(0,0)", func() proto.Message { return &c06Pt{} }, func() proto.Message { return &c06Pt{5, 6} }, enc},
		{"Batch[3 items]", func() proto.Message { return &c06Batch{[]string{"a", "", "hello world"}} }, func() proto.Message { return &c06Batch{[]string{"old", "stuff"}} }, enc},
		{"Batch[0 items: empty encoding]", func() proto.Message { return &c06Batch{} }, func() proto.Message { return &c06Batch{[]string{"old"}} }, enc},
		{"Batch[40 items of 80 bytes]", func() proto.Message {
			b := &c06Batch{}
			for i := 0; i < 40; i++ {
				b.Items = append(b.Items, string(c06Payload(80+i%3)))
			}
			return b
		}, func() proto.Message { return &c06Batch{[]string{"x"}} }, enc},
		{"PtV(0,0) passed by value (the zero value)", func() proto.Message { return c06PtV{} }, func() proto.Message { return &c06PtV{5, 6} }, enc},
		{"PtV(3,-4) passed by value", func() proto.Message { return c06PtV{3, -4} }, func() proto.Message { return &c06PtV{5, 6} }, enc},
		{"Sized(5 bytes)", func() proto.Message { return &c06Sized{[]byte("hello")} }, func() proto.Message { return &c06Sized{[]byte("previous content")} }, enc},
		{"Sized(empty)", func() proto.Message { return &c06Sized{} }, func() proto.Message { return &c06Sized{[]byte("previous")} }, enc},
		{"Sized(5000 bytes)", func() proto.Message { return &c06Sized{c06Payload(5000)} }, func() proto.Message { return &c06Sized{[]byte("p")} }, enc},
	}
}

func c06OwnCodecJudge(name string, chunk int) (got, want string) {
	var e *c06OwnCodec
	for _, x := range c06OwnCodecList() {
		if x.Name == name {
			x := x
			e = &x
		}
	}
	if e == nil {
		return "unknown own-codec message " + name, ""
	}
	defer func() {
		if x := recover(); x != nil {
			got += fmt.Sprint(" panic: ", x)
		}
	}()
	src := e.Src()
	raw := e.Enc(src)
	h := make([]byte, 32)
	copy(h, "1.0.0")
	binary.LittleEndian.PutUint64(h[16:], 32)
	binary.LittleEndian.PutUint64(h[24:], uint64(len(raw)))
	wire := append(h, raw...)
	small := c06Frame{Kind: "pb", Payload: 3}
	want = fmt.Sprintf("marshal n=%d err=nil written=%s Size=%d HeaderSize=32", len(wire), digest(wire), len(wire))
	w := &c06CountWriter{}
	n, err := pbcmpl.Marshal(w, src)
	got = fmt.Sprintf("marshal n=%d err=%s written=%s Size=%d HeaderSize=%d", n, errName(err), digest(w.buf.Bytes()), pbcmpl.Size(src), pbcmpl.HeaderSize(src))
	stream := append(append([]byte{}, wire...), c06Wire(small)...)
	for _, dirty := range []bool{false, true} {
		want += fmt.Sprintf(" | dirty=%v n=%d ver=%q err=nil same=true reenc=%s next[n=%d payload=%s]", dirty, len(wire), "1.0.0", digest(raw), len(c06Wire(small)), digest(c06Payload(3)))
		var t proto.Message
		if dirty {
			t = e.Dirty()
		} else if _, byValue := e.Src().(c06PtV); byValue {
			t = &c06PtV{}
		} else {
			t = e.Src()
			t.Reset()
		}
		r := &c06Reader{data: stream, uniform: chunk}
		n, ver, err := pbcmpl.Unmarshal(r, t)
		same := reflect.DeepEqual(normEmpty(src), normEmpty(t))
		got += fmt.Sprintf(" | dirty=%v n=%d ver=%q err=%s same=%v reenc=%s", dirty, n, ver, errName(err), same, digest(e.Enc(t)))
		t2 := c06Empty("pb")
		n2, _, err2 := pbcmpl.Unmarshal(r, t2)
		got += fmt.Sprintf(" next[n=%d payload=%s]", n2, digest(c06PayloadOf(t2)))
		if err2 != nil {
			got += " next-err=" + errName(err2)
		}
	}
	return got, want
}

// normEmpty renders a message for comparison: nil and empty slices are the same message.
func normEmpty(m proto.Message) string {
	if p, ok := m.(*c06PtV); ok {
		m = *p // a value-typed message reads back into a pointer to it
	}
	return fmt.Sprintf("%T %s", m, m.String())
}
