package props

import (
	"fmt"
	"reflect"
)

// Interface SLOTS × dynamic values. The grammar of c20Types uses interface{} as a component with a handful
// of dynamic values (and only two of them inside composites); here every place a value of static interface
// type can sit below the argument is crossed with a dynamic value of every kind - scalars, strings, slices
// (nil, empty, filled; of bytes, int32, uint64, strings, slices), arrays, maps, pointers, structs, named
// types - because "header 16 plus the dynamic value" has to hold for each pairing.

type c20Any interface{}
type c20Bytes []byte
type c20Words []uint64
type c20Dict map[string]int32
type c20Pt struct{ X, Y int32 }
type c20Hidden struct {
	a int8
	s string
}

type c20Dyn struct {
	x        interface{}
	size     int
	desc     string
	hashable bool
}

func c20Dyns() []c20Dyn {
	var d []c20Dyn
	add := func(x interface{}, size int, hashable bool) {
		d = append(d, c20Dyn{x, size, fmt.Sprintf("%T(%v)", x, x), hashable})
	}
	for _, s := range c20Scalars() {
		add(s.vals[0].v.Interface(), s.vals[0].size, true)
	}
	add("", 16, true)
	add("abc", 16+3, true)
	add(c20MyInt(3), 8, true)
	add(c20MyStr("abcd"), 16+4, true)
	// slices: nil, empty, filled; the element types the library itself stores, and others
	add([]byte(nil), 24, false)
	add([]byte{}, 24, false)
	add([]byte{1, 2, 3}, 24+3, false)
	add(make([]byte, 5, 64), 24+5, false)
	add([]int32(nil), 24, false)
	add([]int32{1, 2}, 24+8, false)
	add([]uint64{}, 24, false)
	add([]uint64{1, 2, 3}, 24+24, false)
	add([]int8{1}, 24+1, false)
	add([]int64{1, 2}, 24+16, false)
	add([]uint16{1, 2, 3}, 24+6, false)
	add([]float64{1}, 24+8, false)
	add([]bool{true, false}, 24+2, false)
	add([]string{"a", "bb"}, 24+(16+1)+(16+2), false)
	add([][]byte{{1}, nil, {2, 3}}, 24+(24+1)+24+(24+2), false)
	add([]interface{}{int8(1), "x"}, 24+(16+1)+(16+16+1), false)
	add(c20Bytes{1, 2}, 24+2, false)
	add(c20Words{7}, 24+8, false)
	// arrays
	add([3]int32{1, 2, 3}, 12, true)
	add([2]string{"a", "bb"}, (16+1)+(16+2), true)
	add([0]int8{}, 0, true)
	add([4]byte{1, 2, 3, 4}, 4, true)
	add([2][]byte{{1}, {2, 3}}, (24+1)+(24+2), false)
	// maps
	add(map[string]int32(nil), 8, false)
	add(map[string]int32{"k": 1, "kk": 2}, 8+(16+1)+4+(16+2)+4, false)
	add(map[int8][]byte{1: {1, 2}}, 8+1+(24+2), false)
	add(c20Dict{"abc": 1}, 8+(16+3)+4, false)
	// pointers
	i64 := int64(9)
	bs := []byte{1, 2, 3, 4}
	str := "hello"
	i32 := int32(1)
	pi32 := &i32
	add(&i64, 8+8, true)
	add(&bs, 8+24+4, true)
	add(&str, 8+16+5, true)
	add((*int64)(nil), 8, true)
	add(&pi32, 8+8+4, true)
	add(&c20Pt{1, 2}, 8+8, true)
	add(&[2]uint64{1, 2}, 8+16, true)
	// structs: exported and unexported fields, holding slices and interfaces themselves
	add(c20Pt{1, 2}, 8, true)
	add(c20Hidden{1, "xy"}, 1+16+2, true)
	add(struct {
		B []byte
		W []uint64
	}{[]byte{1}, []uint64{1, 2}}, (24+1)+(24+16), false)
	add(struct{ I interface{} }{[]int32{5}}, 16+24+4, false)
	add(struct{ i interface{} }{[]byte{5, 6}}, 16+24+2, false)
	return d
}

// c20IfaceSlots: every dynamic value of c20Dyns in every kind of interface slot.
func c20IfaceSlots() c20Type {
	t := c20Type{t: reflect.TypeOf(struct{ Slots c20Any }{}), composite: true}
	add := func(x interface{}, sz int, d string) {
		t.vals = append(t.vals, c20Val{reflect.ValueOf(x), sz, d})
	}
	for _, dv := range c20Dyns() {
		x, s, d := dv.x, 16+dv.size, dv.desc
		add([]interface{}{x}, 24+s, "[]interface{}{"+d+"}")
		add([]interface{}{nil, x, int8(1), x}, 24+16+s+(16+1)+s, "[]interface{}{nil, "+d+", int8(1), the same again}")
		add([1]interface{}{x}, s, "[1]interface{}{"+d+"}")
		add(map[string]interface{}{"k": x}, 8+(16+1)+s, "map[string]interface{}{k: "+d+"}")
		add(struct{ I interface{} }{x}, s, "struct{I interface{}}{"+d+"}")
		add(struct{ i interface{} }{x}, s, "struct{i interface{}}{"+d+"}")
		add(struct {
			A int8
			I c20Any
			B int8
		}{1, x, 2}, 1+s+1, "struct{A int8; I namedInterface; B int8}{"+d+"}")
		p := new(interface{})
		*p = x
		add(p, 8+s, "*interface{} -> "+d)
		add([][]interface{}{{x}, nil}, 24+(24+s)+24, "[][]interface{}{{"+d+"}, nil}")
		add(&struct{ I interface{} }{x}, 8+s, "*struct{I interface{}}{"+d+"}")
		if dv.hashable {
			add(map[interface{}]int8{x: 1}, 8+s+1, "map[interface{}]int8{"+d+": 1}")
			add(map[interface{}]interface{}{x: x}, 8+s+s, "map[interface{}]interface{}{"+d+": the same}")
		}
	}
	return t
}
