// Package model: see verif/props/c20x/model.
package model

type Rec struct {
	A [3]int64
	S string
}
