package props

import (
	"fmt"

	"github.com/openacid/low/bmtree"

	"verif/mc"
	"verif/ref"
)

// C10: path words are self-consistent and their numeric order is pre-order.

type c10Case struct {
	Height int    `json:"height"`
	A      string `json:"a"`
	B      string `json:"b,omitempty"`
}

func init() {
	mc.Register(&mc.Property{
		ID:       "C10",
		Word32:   true,
		DebugTag: true,
		Level:    "exploration",
		Rule: "E1 bounded-exhaustive enumeration: every height h in [0,32] × every length l ≤ min(h,L) × every l-bit prefix: NewPath/PathLen/PathHeight/PathBits/PathMask/PathStr against the prefix as a '0'/'1' string; and every ordered pair of such nodes of equal height: word order == string order (= pre-order: ancestor first, left before right). First of all, in ONE goroutine and with the heights INNERMOST (for every length ≤ 8 and searching-bits word < 2^12: every height at which they form a path, ascending then descending), so that consecutive path words have equal upper halves and lengths and differ in the height only. Lengths above L (up to 32): every height × every length L < l ≤ h × 9 prefix patterns (zeros, ones, lowest / highest bit only, both alternations, ones but the highest / lowest bit, a fixed constant), same observations, and the order of every pair of these nodes of equal height. " +
			"A case is one node or one pair; non-trivial when l ≥ 1 (pairs: both non-root and different).",
		Assumptions: []string{"prefix lengths above L are covered by 9 patterns per (height, length), not completely"},
		Run:         c10Run,
		Judge:       mc.JudgeOf(c10Judge),
	})
}

type c10Obs struct {
	Word        uint64
	Len, Height int32
	Bits, Mask  uint64
	Str         string
	Panic       string
}

func c10Observe(prefix uint64, l, h int) (o c10Obs) {
	defer func() {
		if e := recover(); e != nil {
			o.Panic = fmt.Sprint("panic: ", e)
		}
	}()
	o.Word = bmtree.NewPath(prefix<<uint(h-l), int32(l), int32(h))
	o.Len = bmtree.PathLen(o.Word)
	o.Height = bmtree.PathHeight(o.Word)
	o.Bits = bmtree.PathBits(o.Word)
	o.Mask = bmtree.PathMask(o.Word)
	o.Str = bmtree.PathStr(o.Word)
	return
}

func c10Want(prefix uint64, l, h int) c10Obs {
	w := ref.PathWord(prefix, l, h)
	o := c10Obs{Word: w, Len: int32(l), Height: int32(h), Bits: w >> 32, Mask: w & 0xffffffff, Str: ref.BitString(prefix, l)}
	if l == 0 {
		o.Height = 0 // the statement fixes PathHeight only for l >= 1; the root word is 0
	}
	return o
}

func c10Run(c *mc.Ctx) {
	L := c.Pick(10, 12)
	c.Set("max_prefix_length", L)
	c10Transposed(c) // first, alone: nothing else has called the library yet
	c10Long(c, L)
	c.Par(33, func(h int) {
		type node struct {
			word uint64
			str  string
		}
		var nodes []node
		var evals, nontriv int64
		maxl := L
		if h < maxl {
			maxl = h
		}
		for l := 0; l <= maxl; l++ {
			for prefix := uint64(0); prefix < 1<<uint(l); prefix++ {
				got, want := c10Observe(prefix, l, h), c10Want(prefix, l, h)
				if l == 0 {
					got.Height = 0
				}
				if got != want {
					c.Fail(int64(h)<<40|int64(l)<<32|int64(prefix), "node", "node", c10Case{Height: h, A: want.Str}, fmt.Sprintf("%+v", got), fmt.Sprintf("%+v", want))
				}
				evals++
				if l >= 1 {
					nontriv++
				}
				nodes = append(nodes, node{got.Word, want.Str})
			}
		}
		c.Expect(int64(len(nodes)) + int64(len(nodes))*int64(len(nodes)))
		for i, a := range nodes {
			for j, b := range nodes {
				if (a.word < b.word) != (a.str < b.str) || (a.word == b.word) != (a.str == b.str) {
					c.Fail(1<<50|int64(h)<<40|int64(i)<<20|int64(j), "order", "order", c10Case{Height: h, A: a.str, B: b.str}, "", "")
				}
			}
			evals += int64(len(nodes))
			if a.str != "" {
				nontriv += int64(len(nodes)) - 2
			}
		}
		c.Count(evals, nontriv)
		c.Add("nodes", int64(len(nodes)))
		if h%8 == 5 {
			n := nodes[len(nodes)/2]
			c.ForceSample(map[string]interface{}{"height": h, "node": n.str, "word": fmt.Sprintf("%#x", n.word), "pairs_checked": len(nodes)})
		}
	})
}

// c10Transposed: ONE goroutine, heights INNERMOST: for every length l ≤ 8 and every searching-bits word v < 2^12,
// the node observations at every height at which (v, l) is a well-formed path, ascending then descending.
// Consecutive calls then differ in the height only (equal upper half of the path word, equal length): anything remembered from the previous call under a key
// that leaves the height out shows here, deterministically (the main enumeration runs 33 goroutines at
// once and would meet such a pair only by chance).
func c10Transposed(c *mc.Ctx) {
	var evals int64
	for l := 1; l <= 8; l++ {
		for v := uint64(1); v < 1<<12; v++ {
			for _, h := range c10HeightsFor(v, l) {
				prefix := v >> uint(h-l)
				got, want := c10Observe(prefix, l, h), c10Want(prefix, l, h)
				if got != want {
					c.Fail(4<<50|int64(l)<<40|int64(v)<<8|int64(h), "transposed", "node/heights-innermost", c10Case{Height: h, A: want.Str, B: fmt.Sprint(v)}, fmt.Sprintf("%+v", got), fmt.Sprintf("%+v", want))
				}
				evals++
			}
		}
	}
	c.Count(evals, evals)
	c.Expect(evals)
	c.Add("nodes_observed_with_heights_innermost", evals)
}

// c10HeightsFor lists, ascending then descending, the heights h in [l,32] at which the searching-bits word v
// denotes a well-formed path of length l (v fits h bits and its low h-l bits are 0): the paths
// NewPath(v, l, h) have EQUAL upper halves and equal lengths and differ in their height only.
func c10HeightsFor(v uint64, l int) []int {
	var hs []int
	for h := l; h <= 32; h++ {
		if v>>uint(h) == 0 && v&(uint64(1)<<uint(h-l)-1) == 0 {
			hs = append(hs, h)
		}
	}
	for i := len(hs) - 2; i >= 0; i-- {
		hs = append(hs, hs[i])
	}
	return hs
}

// c10Long: prefix lengths above L (up to 32), where complete enumeration is out of
// reach: for every height h and every length L < l ≤ h, a fixed pattern set of l-bit
// prefixes (all zeros, all ones, lowest / highest bit only, both alternations, all
// ones but the highest / lowest bit, a fixed constant); all node observations, and
// the order of every pair of these nodes of equal height.
func c10Long(c *mc.Ctx, L int) {
	c.Par(33, func(h int) {
		type node struct {
			word uint64
			str  string
		}
		var nodes []node
		var evals int64
		for l := L + 1; l <= h; l++ {
			full := uint64(1)<<uint(l) - 1
			seen := map[uint64]bool{}
			for _, pfx := range []uint64{0, full, 1, 1 << uint(l-1), 0x5555555555555555 & full, 0xaaaaaaaaaaaaaaaa & full, full >> 1, full &^ 1, 0x9e3779b97f4a7c15 & full} {
				if seen[pfx] {
					continue
				}
				seen[pfx] = true
				got, want := c10Observe(pfx, l, h), c10Want(pfx, l, h)
				if got != want {
					c.Fail(2<<50|int64(h)<<40|int64(l)<<32|int64(len(nodes)), "node", "node", c10Case{Height: h, A: want.Str}, fmt.Sprintf("%+v", got), fmt.Sprintf("%+v", want))
				}
				evals++
				nodes = append(nodes, node{got.Word, want.Str})
			}
		}
		for i, a := range nodes {
			for j, b := range nodes {
				if (a.word < b.word) != (a.str < b.str) || (a.word == b.word) != (a.str == b.str) {
					c.Fail(3<<50|int64(h)<<40|int64(i)<<20|int64(j), "order", "order", c10Case{Height: h, A: a.str, B: b.str}, "", "")
				}
			}
			evals += int64(len(nodes))
		}
		c.Expect(int64(len(nodes)) + int64(len(nodes))*int64(len(nodes)))
		c.Count(evals, evals)
		c.Add("long_prefix_nodes", int64(len(nodes)))
	})
}

func c10Parse(s string) (uint64, int) { return ref.BitsVal(s), len(s) }

func c10Judge(kind string, cs c10Case) (got, want string) {
	pa, la := c10Parse(cs.A)
	switch kind {
	case "transposed":
		// the case is the sweep over the heights for this searching-bits word (cs.B) and length, up to this height
		var v uint64
		fmt.Sscan(cs.B, &v)
		var g, w c10Obs
		for _, h := range c10HeightsFor(v, la) {
			g, w = c10Observe(v>>uint(h-la), la, h), c10Want(v>>uint(h-la), la, h)
			if h == cs.Height && g != w {
				break
			}
		}
		return fmt.Sprintf("%+v", g), fmt.Sprintf("%+v", w)
	case "node":
		g, w := c10Observe(pa, la, cs.Height), c10Want(pa, la, cs.Height)
		if la == 0 {
			g.Height = 0
		}
		return fmt.Sprintf("%+v", g), fmt.Sprintf("%+v", w)
	case "order":
		pb, lb := c10Parse(cs.B)
		a, b := c10Observe(pa, la, cs.Height), c10Observe(pb, lb, cs.Height)
		cmp := func(x, y uint64) int {
			if x < y {
				return -1
			} else if x > y {
				return 1
			}
			return 0
		}
		return fmt.Sprintf("%s%sword order %d", a.Panic, b.Panic, cmp(a.Word, b.Word)), fmt.Sprintf("word order %d", ref.Sign(cs.A, cs.B))
	}
	return "unknown kind " + kind, ""
}
