package props

import (
	"encoding/json"
	"fmt"
	"os"
	"os/exec"
	"sort"
	"strings"

	"github.com/openacid/low/bmtree"

	"verif/gen"
	"verif/mc"
	"verif/ref"
)

// C03: PathToIndex / PathToIndexLoose against the recursive pre-order walk, in
// the release build and in a `-tags debug` build of the same harness.

type c03Case struct {
	Mask int32   `json:"mask"`
	Path gen.U64 `json:"path"`
	Len  int     `json:"len"`
	Str  string  `json:"prefix_bits"`
}

func init() {
	mc.Register(&mc.Property{
		ID:     "C03",
		Word32: true,
		Level:  "exploration",
		Rule: "E1 bounded-exhaustive enumeration in two builds: (a) complete: every level mask of height ≤H × every node of the tree (all 2^(h+1)-1 paths), PathToIndexLoose on every node and PathToIndex on every node of a stored level, oracle = explicit recursive pre-order walk numbering stored nodes; " +
			"(b) tall: for every height ≤30 a mask family (full, leaf-only, one or two levels missing, one or two extra levels stored, every run of stored levels a..b below the top and its complement, alternating / every third / every fourth level, every combination of the five lowest levels and of the five levels right below the top) × a path family per length (all-0, all-1, alternating, single-1 and single-0 at every position), oracle = closed form (stored ancestors + stored size of skipped left subtrees) which is itself cross-checked against the walk on every case of (a). " +
			"The same enumeration is executed by a second binary built with -tags debug (contracts active), with a smaller complete bound. A case is one (mask, node, function, build); non-trivial when the mask is neither full nor leaf-only and the node is not the root.",
		Assumptions: []string{
			"complete only below the height bound; tall trees are covered on the mask/path families",
			"the recursive walk is the definition of pre-order; the closed form is trusted only as far as its cross-check",
		},
		Run:   c03Run,
		Judge: c03Judge,
	})
	mc.RegisterWorker("c03debug", c03DebugWorker)
	mc.RegisterWorker("c03judge", c03JudgeWorker)
}

func p2i(mask int32, path uint64) (r int32, p string) {
	defer func() {
		if e := recover(); e != nil {
			p = fmt.Sprint("panic: ", e)
		}
	}()
	return bmtree.PathToIndex(mask, path), ""
}

func p2iLoose(mask int32, path uint64) (r, has int32, p string) {
	defer func() {
		if e := recover(); e != nil {
			p = fmt.Sprint("panic: ", e)
		}
	}()
	r, has = bmtree.PathToIndexLoose(mask, path)
	return r, has, ""
}

func c03MaskFamily(h int) []int32 {
	seen := map[int32]bool{}
	var out []int32
	add := func(m int64) {
		if m <= 0 || m > 0x7fffffff {
			return
		}
		if ref.Height(int32(m)) != h {
			return
		}
		if !seen[int32(m)] {
			seen[int32(m)] = true
			out = append(out, int32(m))
		}
	}
	top := int64(1) << uint(h)
	full := top<<1 - 1
	add(full)
	add(top)
	for j := 0; j < h; j++ {
		add(full &^ (1 << uint(j)))
		add(top | 1<<uint(j))
		for k := j + 1; k < h; k++ {
			add(top | 1<<uint(j) | 1<<uint(k))
		}
	}
	// two levels missing; a RUN of stored levels a..b below the top (and its complement)
	for j := 0; j < h; j++ {
		for k := j + 1; k < h; k++ {
			add(full &^ (1<<uint(j) | 1<<uint(k)))
			run := (int64(1)<<uint(k+1) - 1) &^ (int64(1)<<uint(j) - 1)
			add(top | run)
			add(top | (full &^ run))
		}
	}
	add(top | full&0x55555555)
	add(top | full&0x2aaaaaaa)
	add(top | full&0x49249249) // every third level
	add(top | full&0x11111111) // every fourth
	// every combination of the five lowest levels, and of the five levels right below the top
	for k := int64(0); k < 32; k++ {
		add(top | k)
		if h > 5 {
			add(top | k<<uint(h-5))
			add(top | k | k<<uint(h-5))
		}
	}
	return out
}

type c03Node struct {
	prefix uint64
	l      int
}

func c03PathFamily(h int) []c03Node {
	seen := map[c03Node]bool{}
	var out []c03Node
	add := func(p uint64, l int) {
		n := c03Node{p, l}
		if !seen[n] {
			seen[n] = true
			out = append(out, n)
		}
	}
	for l := 0; l <= h; l++ {
		ones := uint64(1)<<uint(l) - 1
		add(0, l)
		add(ones, l)
		add(0x5555555555555555&ones, l)
		add(0xaaaaaaaaaaaaaaaa&ones, l)
		for j := 0; j < l; j++ {
			add(1<<uint(j), l)
			add(ones&^(1<<uint(j)), l)
		}
	}
	return out
}

type c03Stats struct {
	evals, nontriv, cross int64
	digest                uint64
}

func mix(a ...uint64) uint64 {
	h := uint64(0xcbf29ce484222325)
	for _, x := range a {
		for k := 0; k < 8; k++ {
			h ^= x >> (8 * uint(k)) & 0xff
			h *= 0x100000001b3
		}
	}
	return h
}

// c03Node judges one (mask, node) against an expected index.
func c03Judge1(c *mc.Ctx, order int64, tag string, mask int32, path, prefix uint64, l int, want int32, stored bool, st *c03Stats) {
	nt := l > 0 && mask&(mask+1) != 0 && mask&(mask-1) != 0
	hasWant := int32(0)
	if stored {
		hasWant = 1
	}
	mk := func() c03Case { return c03Case{mask, gen.U64(path), l, ref.BitString(prefix, l)} }
	r, has, p := p2iLoose(mask, path)
	if p != "" || r != want || has != hasWant {
		c.Fail(order, tag+"PathToIndexLoose", tag+"PathToIndexLoose", mk(), fmt.Sprintf("%s(%d,%d)", p, r, has), fmt.Sprintf("(%d,%d)", want, hasWant))
	}
	st.evals++
	st.digest += mix(uint64(mask), path, uint64(r), uint64(has))
	if nt {
		st.nontriv++
	}
	if stored {
		r, p := p2i(mask, path)
		if p != "" || r != want {
			c.Fail(order, tag+"PathToIndex", tag+"PathToIndex", mk(), fmt.Sprintf("%s%d", p, r), fmt.Sprint(want))
		}
		st.evals++
		st.digest += mix(uint64(mask), path, uint64(r), 7)
		if nt {
			st.nontriv++
		}
	}
}

// c03Enumerate runs parts (a) and (b) with the given complete bound.
func c03Enumerate(c *mc.Ctx, tag string, maxH int) c03Stats {
	var total c03Stats
	merge := func(s c03Stats) {
		c.Count(s.evals, s.nontriv)
		c.Add(tag+"oracle_crosschecks", s.cross)
	}
	// expected cardinality of (a): per height h, 2^h masks × (2^(h+1)-1) loose + Σ T
	for h := 0; h <= maxH; h++ {
		nm := int64(1) << uint(h)
		c.Expect(nm*(2*nm-1) + nm*nm + nm*(nm-1)/2)
	}
	type shard struct {
		h      int
		lo, hi int32
	}
	var shards []shard
	for h := 0; h <= maxH; h++ {
		top := int32(1) << uint(h)
		step := top
		if h > 6 {
			step = top >> 6
			if step == 0 {
				step = 1
			}
		}
		for lo := top; lo < top<<1 && lo > 0; lo += step {
			shards = append(shards, shard{h, lo, lo + step})
		}
	}
	digests := make([]uint64, len(shards))
	c.Par(len(shards), func(si int) {
		if c.TooMany() {
			return
		}
		sh := shards[si]
		var st c03Stats
		for mask := sh.lo; mask < sh.hi; mask++ {
			order := int64(si)<<32 | int64(mask-sh.lo)
			nextStored := int32(0)
			ref.Walk(mask, func(path, prefix uint64, depth int, before int32, stored bool) {
				c03Judge1(c, order, tag, mask, path, prefix, depth, before, stored, &st)
				// the closed form used for tall trees must agree with the walk
				if ci := ref.ClosedIndex(mask, prefix, depth); ci != int64(before) {
					panic(fmt.Sprintf("harness: closed-form oracle disagrees with the walk: mask=%#x prefix=%b/%d closed=%d walk=%d", mask, prefix, depth, ci, before))
				}
				st.cross++
				// order preservation / bijection: stored nodes are numbered 0,1,2,… in walk order
				if stored {
					if before != nextStored {
						panic("harness: walk numbering is not consecutive")
					}
					nextStored++
				}
			})
			if nextStored != mask {
				panic(fmt.Sprintf("harness: walk found %d stored nodes for mask %d", nextStored, mask))
			}
			if tag == "" && c.WantSample(order) {
				c.ForceSample(map[string]interface{}{"mask": fmt.Sprintf("%#b", mask), "height": sh.h, "nodes_checked": int64(2)<<uint(sh.h) - 1})
			}
		}
		digests[si] = st.digest
		merge(st)
	})
	for _, d := range digests {
		total.digest += d
	}
	// (b) tall families
	type tshard struct {
		h    int
		mask int32
	}
	var ts []tshard
	for h := 0; h <= 30; h++ {
		for _, m := range c03MaskFamily(h) {
			ts = append(ts, tshard{h, m})
		}
	}
	paths := make([][]c03Node, 31)
	for h := range paths {
		paths[h] = c03PathFamily(h)
	}
	for _, t := range ts {
		n := int64(0)
		for _, nd := range paths[t.h] {
			n++
			if ref.Stored(t.mask, nd.l) {
				n++
			}
		}
		c.Expect(n)
	}
	td := make([]uint64, len(ts))
	base := int64(len(shards)) << 32
	c.Par(len(ts), func(ti int) {
		if c.TooMany() {
			return
		}
		t := ts[ti]
		var st c03Stats
		for k, nd := range paths[t.h] {
			want := ref.ClosedIndex(t.mask, nd.prefix, nd.l)
			c03Judge1(c, base+int64(ti)<<16|int64(k), tag, t.mask, ref.PathWord(nd.prefix, nd.l, t.h), nd.prefix, nd.l, int32(want), ref.Stored(t.mask, nd.l), &st)
		}
		td[ti] = st.digest
		c.Count(st.evals, st.nontriv)
		c.Add(tag+"tall_cases", st.evals)
		if tag == "" && t.h == 30 && ti%97 == 0 {
			nd := paths[t.h][len(paths[t.h])/2]
			c.ForceSample(map[string]interface{}{"mask": fmt.Sprintf("%#b", t.mask), "height": 30, "path_prefix": ref.BitString(nd.prefix, nd.l), "expected_index": ref.ClosedIndex(t.mask, nd.prefix, nd.l)})
		}
	})
	for _, d := range td {
		total.digest += d
	}
	c.Add(tag+"tall_masks", int64(len(ts)))
	return total
}

type c03WorkerOut struct {
	Evals, Nontriv, Expected int64
	Digest                   string
	ContractsActive          bool
	Ints                     map[string]int64
	Viols                    []mc.Viol
	NViol                    int64
}

func c03Bounds(thorough bool) (rel, dbg int) {
	if thorough {
		return 14, 11
	}
	return 11, 9
}

func c03Run(c *mc.Ctx) {
	rel, dbg := c03Bounds(c.Thorough)
	st := c03Enumerate(c, "", rel)
	c.Set("release_complete_height", rel)
	c.Set("release_digest", fmt.Sprintf("%016x", st.digest))

	bin := os.Getenv("VERIF_DEBUG_BIN")
	if bin == "" {
		c.Cap("no -tags debug binary was provided (VERIF_DEBUG_BIN unset): the debug configuration was not explored")
		return
	}
	out, err := exec.Command(bin, "-worker", "c03debug", c.Tier).Output()
	if err != nil {
		panic(fmt.Sprintf("harness: debug worker failed: %v\n%s", err, out))
	}
	var wo c03WorkerOut
	if err := json.Unmarshal(out, &wo); err != nil {
		panic(fmt.Sprintf("harness: debug worker output: %v\n%s", err, out))
	}
	c.Count(wo.Evals, wo.Nontriv)
	c.Expect(wo.Expected)
	c.Set("debug_complete_height", dbg)
	c.Set("debug_contracts_active", wo.ContractsActive)
	c.Set("debug_evaluations", wo.Evals)
	c.Set("debug_digest", wo.Digest)
	for k, v := range wo.Ints {
		c.Add(k, v)
	}
	for _, v := range wo.Viols {
		var cs c03Case
		json.Unmarshal(v.Case, &cs)
		c.Fail(v.Order+1<<50, v.Kind, v.Class, cs, v.Got, v.Want)
	}
	// identical values in both builds: the release binary recomputes the digest of
	// the debug-sized space; both were already judged against the same oracle.
	if dbg != rel {
		c2 := mc.NewCtx(c.Prop, c.Tier, c.Seed, 0)
		c2.Deadline = c.Deadline
		st2 := c03Enumerate(c2, "x/", dbg)
		same := fmt.Sprintf("%016x", st2.digest) == wo.Digest
		c.Set("builds_agree_digest", same)
		if !same && len(wo.Viols) == 0 && c2.Failed() == 0 {
			panic("harness: release and debug digests differ although neither build reported a mismatch")
		}
	}
}

func c03DebugWorker(args []string) int {
	tier := "quick"
	if len(args) > 0 {
		tier = args[0]
	}
	_, dbg := c03Bounds(tier == "thorough")
	c := mc.NewCtx("C03", tier, 0, 0)
	c.Deadline = c.Start.Add(1 << 40)
	st := c03Enumerate(c, "debug/", dbg)
	// are the contracts compiled in? an invalid mask must trip them
	_, p := p2i(0, 0)
	wo := c03WorkerOut{Digest: fmt.Sprintf("%016x", st.digest), ContractsActive: p != "", Ints: map[string]int64{}}
	wo.Evals, wo.Nontriv, wo.Expected = c.Totals()
	for _, k := range []string{"debug/oracle_crosschecks", "debug/tall_cases", "debug/tall_masks"} {
		wo.Ints[k] = c.Int(k)
	}
	wo.Viols = c.Violations()
	wo.NViol = c.Failed()
	b, _ := json.Marshal(wo)
	os.Stdout.Write(b)
	return 0
}

func c03Single(kind string, cs c03Case) (got, want string) {
	h := ref.Height(cs.Mask)
	// rebuild the node from its printed prefix so the case file is self-describing
	var prefix uint64
	for _, ch := range cs.Str {
		prefix = prefix<<1 | uint64(ch-'0')
	}
	l := len(cs.Str)
	path := ref.PathWord(prefix, l, h)
	if uint64(cs.Path) != path {
		return fmt.Sprintf("case file inconsistent: path %#x vs rebuilt %#x", uint64(cs.Path), path), ""
	}
	// the walk is the oracle whenever it is affordable, else the closed form
	var before int64 = -1
	if h <= 16 {
		ref.Walk(cs.Mask, func(p, _ uint64, _ int, b int32, _ bool) {
			if p == path {
				before = int64(b)
			}
		})
	} else {
		before = ref.ClosedIndex(cs.Mask, prefix, l)
	}
	stored := ref.Stored(cs.Mask, l)
	k := kind[strings.LastIndex(kind, "/")+1:]
	switch k {
	case "PathToIndexLoose":
		hw := 0
		if stored {
			hw = 1
		}
		r, has, p := p2iLoose(cs.Mask, path)
		return fmt.Sprintf("%s(%d,%d)", p, r, has), fmt.Sprintf("(%d,%d)", before, hw)
	case "PathToIndex":
		r, p := p2i(cs.Mask, path)
		return fmt.Sprintf("%s%d", p, r), fmt.Sprint(before)
	}
	return "unknown kind " + kind, ""
}

func c03Judge(kind string, raw json.RawMessage) (string, string, error) {
	var cs c03Case
	if err := json.Unmarshal(raw, &cs); err != nil {
		return "", "", err
	}
	if strings.HasPrefix(kind, "debug/") {
		bin := os.Getenv("VERIF_DEBUG_BIN")
		if bin == "" {
			return "", "", fmt.Errorf("this case needs the -tags debug binary (VERIF_DEBUG_BIN); use /verif/check.sh replay")
		}
		out, err := exec.Command(bin, "-worker", "c03judge", kind, string(raw)).Output()
		if err != nil {
			return "", "", fmt.Errorf("debug judge: %v", err)
		}
		var gw [2]string
		if err := json.Unmarshal(out, &gw); err != nil {
			return "", "", err
		}
		return gw[0], gw[1], nil
	}
	g, w := c03Single(kind, cs)
	return g, w, nil
}

func c03JudgeWorker(args []string) int {
	var cs c03Case
	if len(args) < 2 || json.Unmarshal([]byte(args[1]), &cs) != nil {
		return 2
	}
	g, w := c03Single(args[0], cs)
	b, _ := json.Marshal([2]string{g, w})
	os.Stdout.Write(b)
	return 0
}

var _ = sort.Ints
