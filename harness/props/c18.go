package props

import (
	"errors"
	"fmt"
	"io"
	"math"
	"os"
	"strings"

	"github.com/openacid/low/iohelper"

	"verif/gen"
	"verif/mc"
)

// C18: SectionWriter confines and accounts for every byte (E2 over cursor
// states + E3 over the answers of the underlying WriterAt).

// c18Ans is one scripted answer of the underlying io.WriterAt.
type c18Ans struct {
	Full bool `json:"full,omitempty"` // accept everything, no error
	K    int  `json:"k,omitempty"`    // else: accept min(K,len) bytes …
	Err  bool `json:"err,omitempty"`  // … and return the sentinel error (or nil)
}

type c18Op struct {
	Op     string `json:"op"` // write | writeat | seek
	Len    int    `json:"len,omitempty"`
	Off    int64  `json:"off,omitempty"`
	Whence int    `json:"whence,omitempty"`
	Ans    c18Ans `json:"ans"`
	// Form: a buffer of length 0 is handed over as gen.EmptyBytes(Form): nil (0), non-nil, with spare capacity, empty tail
	Form int `json:"empty_form,omitempty"`
}

// buf is the buffer an operation hands over.
func (op c18Op) buf(salt int) []byte {
	if op.Len == 0 {
		return gen.EmptyBytes(op.Form)
	}
	return c18Buf(op.Len, salt)
}

type c18Case struct {
	Kind   string `json:"writer"` // section | attowriter
	Base   int64  `json:"base"`
	N      int64  `json:"n"`
	Cursor int64  `json:"cursor,omitempty"` // positioned by Seek(Cursor, SeekStart) first
	// Bystander: a second SectionWriter (other base, other underlying writer) is written to and
	// seeked between the steps; it must not influence the writer under test
	Bystander bool `json:"bystander,omitempty"`
	// Under selects the underlying io.WriterAt: "" = the scripted writer, "stacked" = another
	// SectionWriter (offset 2, length 100) over it, "inner3" = a 3-byte SectionWriter (offset 2) over it
	// with Base relative to that inner section, "file" = an *os.File
	Under string `json:"underlying,omitempty"`
	// Blind: the cursor is NOT read back (Seek(0, SeekCurrent)) between the steps, only once at
	// the end - observing it must not be what keeps the writer correct
	Blind bool    `json:"blind,omitempty"`
	Ops   []c18Op `json:"ops"`
}

func init() {
	mc.Register(&mc.Property{
		ID:     "C18",
		Word32: true,
		Level:  "model_checking",
		Rule: "E2+E3: for every section (base in {0,5,2^40}, n in 0..4, thorough 0..7) a breadth-first search over the cursor states reachable inside the window [0, n+6] (observed through Seek(0, SeekCurrent)); from EVERY state EVERY operation of the alphabet {Write(len 0..6), WriteAt(len 0..6, off in [-1,n+1]) - the buffer of length 0 in each of 4 forms: nil, non-nil, with spare capacity, empty tail of a longer array -, Seek(offset in [-7,n+2], whence in {-1,0,1,2,3})} × EVERY answer of the scripted underlying WriterAt {everything; k<len bytes with an error; k<len bytes without an error, k in {0,1,2}} is executed on a real SectionWriter positioned there by real calls. " +
			"Independently every operation sequence of depth ≤3 (thorough ≤4) over a reduced alphabet runs on one object without any state merging (guards against hidden state) - alone and once more with a second SectionWriter over another underlying writer used between the steps (objects must not share state), once more WITHOUT reading the cursor back between the steps (observing it must not be what keeps the writer correct), once more over a SectionWriter stacked on the scripted writer and (fault-free sequences of ≤2 operations) over an *os.File whose content is read back -, and AtToWriter(w, off in {0,5}) runs every sequence of ≤3 operations over {Write(len 0,1,3) × answers, WriteAt(len 2, off in {-1,0,3}) × 3 answers, Seek (8 offset/whence pairs relative to the start and the cursor, one invalid whence)} - WriteAt and Seek reached by asserting io.WriterAt / io.Seeker on the returned io.Writer - with the cursor read back at the end. Over a SHORT real SectionWriter (3 bytes at offset 2) as the underlying writer: every section with start in [-2,4] and length 0..5 relative to it (starting before it, ending beyond it, outside it) × every sequence of ≤2 (thorough ≤3) operations of the reduced alphabet; the inner section is modelled by the same statement one level down. Big geometry: sections of length n in {0, 4, 2^31-1, 2^31, 2^31+1, 2^32, 2^32+3, 2^62} × base in {0,5,2^40} from every cursor in {0, 2^31-2, 2^32-2, n-3..n+2}: every Write(len 0..4) / WriteAt(len 0..4, off around n and around 2^31, 2^32) × answer, every Seek(off in [-3,3] ∪ {±n, n±1, 2^31, 2^32, 2^32+1} ∪ {the last positions of int64: MaxInt64-d relative to start / end / cursor, d in {0,1,4,5,6}}), each alone and followed blind by a Write or a relative Seek (a Seek whose target is a valid int64 relative to the section but whose absolute offset base+pos is not representable may be accepted or rejected - the statement leaves it open - and everything after it must follow the answer given). Long buffers: n in {2^16-1, 2^16, 2^16+1} × Write / WriteAt of 2^16-1, 2^16, 2^16+1, 2^17 bytes from cursors {0, 1, n-2^16, n-1, n} × answers {everything; k in {0, 1, 2^16-1, len-1} with / without an error} followed by a 1-byte Write. Oracle: the statement's cursor model — compared are return values (count, error class: nil / ErrShortWrite / the underlying error / some error for rejected Seeks), the exact list of non-empty (offset, bytes) calls the underlying writer received, containment in [base, base+n), the cursor afterwards and Size(). Non-trivial: transitions in which bytes reach the underlying writer or the cursor moves.",
		Assumptions: []string{
			"cursors beyond the window n+6 are executed once (as successors) but not expanded",
			"zero-length writes: whether the underlying writer is called at all is not fixed by the statement, so empty calls are ignored in the comparison and only the benign answer is scripted for them",
		},
		Run:   c18Run,
		Judge: mc.JudgeOf(c18Judge),
	})
}

var c18ErrUnder = errors.New("underlying writer failed")

type c18Call struct {
	Off  int64
	Data string
}

// c18Under is the scripted underlying writer: the answer for the next non-empty
// call is set by the harness before each operation (default: accept everything);
// it records what it accepted and what was attempted.
type c18Under struct {
	ans   c18Ans
	armed bool
	calls []c18Call
}

func (u *c18Under) WriteAt(p []byte, off int64) (int, error) {
	a := c18Ans{Full: true}
	if len(p) > 0 && u.armed { // empty calls do not consume the scripted answer
		a = u.ans
		u.armed = false
	}
	k := len(p)
	var err error
	if !a.Full {
		if a.K < k {
			k = a.K
		}
		if a.Err {
			err = c18ErrUnder
		}
	}
	if k > 0 {
		u.calls = append(u.calls, c18Call{off, c18Data(p[:k])})
	}
	// the attempted range must lie inside the section even if only a part is accepted
	if len(p) > 0 {
		u.calls = append(u.calls, c18Call{-(off + 1), fmt.Sprint("attempt:", len(p))})
	}
	return k, err
}

// c18Data records the bytes of a call: verbatim when short, as length and FNV-1a
// hash of the content when long (so that replay files stay small).
func c18Data(p []byte) string {
	if len(p) <= 32 {
		return string(p)
	}
	h := uint64(14695981039346656037)
	for _, b := range p {
		h = (h ^ uint64(b)) * 1099511628211
	}
	return fmt.Sprintf("len=%d,fnv=%016x", len(p), h)
}

// c18DataLen is the number of bytes a recorded call stands for.
func c18DataLen(d string) int64 {
	var l int64
	var h uint64
	if n, _ := fmt.Sscanf(d, "len=%d,fnv=%x", &l, &h); n == 2 && l > 32 {
		return l
	}
	return int64(len(d))
}

// ---- model

type c18Model struct {
	base, n, cur int64
	calls        []c18Call
	// inner > 0: the underlying writer is itself a section [innerBase, innerBase+inner) over the
	// scripted writer (a real SectionWriter in the implementation run, modelled here by the same
	// statement one level down); base is then relative to that inner section
	inner, innerBase int64
}

// underClass is one call of the writer the section under test sits on: the count
// it accepts and the class of the error it returns ("" = nil).
func (m *c18Model) underClass(p []byte, off int64, a c18Ans) (int, string) {
	if m.inner == 0 {
		k, fail := m.under(p, off, a)
		if fail {
			return k, "underlying"
		}
		return k, ""
	}
	// the inner section's WriteAt, per the statement
	if off < 0 || off >= m.inner {
		return 0, "ErrShortWrite"
	}
	e := ""
	if int64(len(p)) > m.inner-off {
		p = p[:m.inner-off]
		e = "ErrShortWrite"
	}
	k, fail := m.under(p, m.innerBase+off, a)
	if fail {
		e = "underlying"
	}
	return k, e
}

func errClass(err error) string {
	switch {
	case err == nil:
		return "nil"
	case errors.Is(err, c18ErrUnder):
		return "underlying"
	case errors.Is(err, io.ErrShortWrite):
		return "ErrShortWrite"
	}
	return "other(" + err.Error() + ")"
}

func c18Buf(n int, salt int) []byte {
	b := gen.DirtyBytes(make([]byte, n)) // spare capacity holding a canary: only p[:len(p)] may be written out
	for i := range b {
		b[i] = byte('A' + (salt*7+i)%26)
	}
	return b
}

func (m *c18Model) under(p []byte, off int64, a c18Ans) (int, bool) {
	k := len(p)
	fail := false
	if !a.Full && len(p) > 0 {
		if a.K < k {
			k = a.K
		}
		fail = a.Err
	}
	if k > 0 {
		m.calls = append(m.calls, c18Call{off, c18Data(p[:k])})
	}
	if len(p) > 0 {
		m.calls = append(m.calls, c18Call{-(off + 1), fmt.Sprint("attempt:", len(p))})
	}
	return k, fail
}

// step returns the model's prediction "count/position, error class".
func (m *c18Model) step(op c18Op, salt int) string {
	switch op.Op {
	case "write":
		p := op.buf(salt)
		if m.cur >= m.n {
			return "0,ErrShortWrite"
		}
		e := "nil"
		if int64(len(p)) > m.n-m.cur {
			p = p[:m.n-m.cur]
			e = "ErrShortWrite"
		}
		k, ue := m.underClass(p, m.base+m.cur, op.Ans)
		m.cur += int64(k)
		if ue != "" {
			e = ue
		}
		return fmt.Sprintf("%d,%s", k, e)
	case "writeat":
		p := op.buf(salt)
		if op.Off < 0 || op.Off >= m.n {
			return "0,ErrShortWrite"
		}
		e := "nil"
		if int64(len(p)) > m.n-op.Off {
			p = p[:m.n-op.Off]
			e = "ErrShortWrite"
		}
		k, ue := m.underClass(p, m.base+op.Off, op.Ans)
		if ue != "" {
			e = ue
		}
		return fmt.Sprintf("%d,%s", k, e)
	case "seek":
		var pos int64
		switch op.Whence {
		case io.SeekStart:
			pos = op.Off
		case io.SeekCurrent:
			pos = m.cur + op.Off
		case io.SeekEnd:
			pos = m.n + op.Off
		default:
			return "rejected"
		}
		if pos < 0 {
			return "rejected"
		}
		m.cur = pos
		return fmt.Sprintf("%d,nil", pos)
	}
	return "?"
}

// c18Unrepresentable: the Seek target is a valid int64 position relative to the
// section, but base+position overflows int64.
func c18Unrepresentable(m *c18Model, op c18Op) bool {
	var a int64
	switch op.Whence {
	case io.SeekStart:
		a = 0
	case io.SeekCurrent:
		a = m.cur
	case io.SeekEnd:
		a = m.n
	default:
		return false
	}
	pos := a + op.Off
	if (op.Off > 0 && pos < a) || (op.Off < 0 && pos > a) || pos < 0 {
		return false // not representable even relative to the section / before the start: must be rejected
	}
	return m.base+pos < 0
}

// c18Exec runs one case on the real code and on the model and returns both
// transcripts.
func c18Exec(cs c18Case) (got, want string, moved bool) {
	defer func() {
		if e := recover(); e != nil {
			got = got + fmt.Sprint(" panic: ", e)
		}
	}()
	u := &c18Under{}
	m := &c18Model{base: cs.Base, n: cs.N}
	var w io.Writer
	var sw *iohelper.SectionWriter
	var under io.WriterAt = u
	var file *os.File
	switch cs.Under {
	case "stacked":
		under = iohelper.NewSectionWriter(u, 2, 100)
	case "inner3":
		// the underlying writer is a SHORT section (3 bytes at offset 2): the section under test
		// may start before it, end beyond it or lie outside it altogether
		under = iohelper.NewSectionWriter(u, 2, 3)
		m.inner, m.innerBase = 3, 2
	case "file":
		f, err := os.CreateTemp("", "verif-c18-*")
		if err != nil {
			panic("harness: cannot create a temporary file: " + err.Error())
		}
		file = f
		under = f
		defer func() {
			f.Close()
			os.Remove(f.Name())
		}()
	}
	// the section's other faces: for AtToWriter, whose result is an io.Writer, they are reached the way a
	// caller reaches them - by asserting the interfaces
	var wa io.WriterAt
	var sk io.Seeker
	if cs.Kind == "attowriter" {
		w = iohelper.AtToWriter(under, cs.Base)
		m.n = math.MaxInt64 - cs.Base // no practical end
		wa, _ = w.(io.WriterAt)
		sk, _ = w.(io.Seeker)
	} else {
		sw = iohelper.NewSectionWriter(under, cs.Base, cs.N)
		w, wa, sk = sw, sw, sw
		if cs.Cursor != 0 {
			pos, err := sw.Seek(cs.Cursor, io.SeekStart)
			m.cur = cs.Cursor
			got += fmt.Sprintf("position:%d,%s;", pos, errClass(err))
			want += fmt.Sprintf("position:%d,nil;", cs.Cursor)
		}
	}
	var by *iohelper.SectionWriter
	if cs.Bystander {
		by = iohelper.NewSectionWriter(&c18Under{}, 3, 7)
	}
	for i, op := range cs.Ops {
		before := m.cur
		if by != nil {
			by.Write([]byte("xy"))
			by.Seek(int64(i%5), io.SeekStart)
			by.WriteAt([]byte("z"), int64(i%7))
		}
		u.ans, u.armed = op.Ans, true
		lenient := op.Op == "seek" && c18Unrepresentable(m, op)
		saved := m.cur
		wv := m.step(op, i)
		var gv string
		switch op.Op {
		case "write":
			n, err := w.Write(op.buf(i))
			gv = fmt.Sprintf("%d,%s", n, errClass(err))
		case "writeat":
			if wa == nil {
				gv = "the writer is no io.WriterAt"
				break
			}
			n, err := wa.WriteAt(op.buf(i), op.Off)
			gv = fmt.Sprintf("%d,%s", n, errClass(err))
		case "seek":
			if sk == nil {
				gv = "the writer is no io.Seeker"
				break
			}
			pos, err := sk.Seek(op.Off, op.Whence)
			if err != nil {
				gv = "rejected" // the position returned with an error is unspecified
				if lenient {
					// The target lies inside int64 relative to the section but its absolute offset
					// base+pos does not: the statement does not say whether such a Seek succeeds.
					// Both answers are accepted; everything AFTER it must follow the answer given
					// (rejected: cursor unchanged; accepted: cursor = pos, writes refused there).
					wv, m.cur = "rejected", saved
				}
			} else {
				gv = fmt.Sprintf("%d,nil", pos)
			}
		}
		if m.inner > 0 && op.Len == 0 && (op.Op == "write" || op.Op == "writeat") {
			// an EMPTY buffer over an underlying writer that rejects the position: whether the
			// underlying writer is consulted for an empty write at all is not fixed by the statement
			// (if it is, its error is propagated; if not, the write of nothing succeeds) - only the
			// count is compared
			gv, wv = strings.SplitN(gv, ",", 2)[0]+",(any)", strings.SplitN(wv, ",", 2)[0]+",(any)"
		}
		got += fmt.Sprintf("%s=%s;", op.Op, gv)
		want += fmt.Sprintf("%s=%s;", op.Op, wv)
		if sw != nil && (!cs.Blind || i == len(cs.Ops)-1) {
			// observe the cursor through the public API
			pos, err := sw.Seek(0, io.SeekCurrent)
			got += fmt.Sprintf("cursor:%d,%s;size:%d;", pos, errClass(err), sw.Size())
			want += fmt.Sprintf("cursor:%d,nil;size:%d;", m.cur, cs.N)
		} else if sw == nil && sk != nil && i == len(cs.Ops)-1 {
			// AtToWriter: the cursor, relative to off, at the end of the sequence
			pos, err := sk.Seek(0, io.SeekCurrent)
			got += fmt.Sprintf("cursor:%d,%s;", pos, errClass(err))
			want += fmt.Sprintf("cursor:%d,nil;", m.cur)
		}
		if m.cur != before {
			moved = true
		}
	}
	switch cs.Under {
	case "stacked":
		// the scripted writer sits 2 bytes further down
		shifted := make([]c18Call, len(m.calls))
		for i, cl := range m.calls {
			shifted[i] = cl
			if cl.Off < 0 {
				shifted[i].Off = cl.Off - 2
			} else {
				shifted[i].Off = cl.Off + 2
			}
		}
		got += fmt.Sprintf("underlying:%v", u.calls)
		want += fmt.Sprintf("underlying:%v", shifted)
	case "file":
		// the file's content is the ground truth
		exp := []byte{}
		for _, cl := range m.calls {
			if cl.Off < 0 {
				continue
			}
			for int64(len(exp)) < cl.Off+int64(len(cl.Data)) {
				exp = append(exp, 0)
			}
			copy(exp[cl.Off:], cl.Data)
		}
		have, _ := os.ReadFile(file.Name())
		got += fmt.Sprintf("file:%q", have)
		want += fmt.Sprintf("file:%q", exp)
	default:
		got += fmt.Sprintf("underlying:%v", u.calls)
		want += fmt.Sprintf("underlying:%v", m.calls)
	}
	// containment, stated separately so that a model bug cannot hide it
	for _, c := range u.calls {
		off, l := c.Off, c18DataLen(c.Data)
		if off < 0 { // attempt record
			off = -off - 1
			fmt.Sscanf(c.Data, "attempt:%d", &l)
		}
		if cs.Under == "stacked" {
			off -= 2 // the scripted writer sits 2 bytes below the stacked section
		}
		if cs.Under == "inner3" {
			// everything must stay inside the inner section [2,5) and inside the section under test
			lo, hi := cs.Base+2, cs.Base+cs.N+2
			if lo < 2 {
				lo = 2
			}
			if hi > 5 {
				hi = 5
			}
			if off < lo || off+l > hi {
				got += fmt.Sprintf(" OUTSIDE-BOTH-SECTIONS[%d,%d)", off, off+l)
			}
			continue
		}
		if cs.Kind == "section" && (off < cs.Base || off+l > cs.Base+cs.N) {
			got += fmt.Sprintf(" OUTSIDE-SECTION[%d,%d)", off, off+l)
		}
		if cs.Kind == "attowriter" && off < cs.Base {
			got += fmt.Sprintf(" BEFORE-OFFSET %d", off)
		}
	}
	if len(u.calls) > 0 {
		moved = true
	}
	return got, want, moved
}

func c18Answers(l int) []c18Ans {
	out := []c18Ans{{Full: true}}
	if l == 0 {
		return out
	}
	for k := 0; k <= 2 && k < l; k++ {
		out = append(out, c18Ans{K: k, Err: true}, c18Ans{K: k, Err: false})
	}
	return out
}

func c18Alphabet(n int64) []c18Op {
	var ops []c18Op
	for l := 0; l <= 6; l++ {
		for _, a := range c18Answers(l) {
			ops = append(ops, c18Op{Op: "write", Len: l, Ans: a})
		}
		for off := int64(-1); off <= n+1; off++ {
			for _, a := range c18Answers(l) {
				ops = append(ops, c18Op{Op: "writeat", Len: l, Off: off, Ans: a})
			}
		}
		if l == 0 {
			// the empty buffer in the other forms a caller can hand it over (form 0, above, is nil)
			for f := 1; f < gen.EmptyForms; f++ {
				ops = append(ops, c18Op{Op: "write", Form: f, Ans: c18Ans{Full: true}})
				for off := int64(-1); off <= n+1; off++ {
					ops = append(ops, c18Op{Op: "writeat", Off: off, Form: f, Ans: c18Ans{Full: true}})
				}
			}
		}
	}
	for _, wh := range []int{-1, 0, 1, 2, 3} {
		for off := int64(-7); off <= n+2; off++ {
			ops = append(ops, c18Op{Op: "seek", Off: off, Whence: wh, Ans: c18Ans{Full: true}})
		}
	}
	return ops
}

func c18Reduced(n int64) []c18Op {
	var ops []c18Op
	ans := []c18Ans{{Full: true}, {K: 1, Err: true}, {K: 1, Err: false}}
	for _, l := range []int{0, 1, 3} {
		for _, a := range ans {
			if l == 0 && !a.Full {
				continue
			}
			ops = append(ops, c18Op{Op: "write", Len: l, Ans: a})
		}
	}
	ops = append(ops, c18Op{Op: "write", Form: 1, Ans: c18Ans{Full: true}}, c18Op{Op: "writeat", Off: n, Ans: c18Ans{Full: true}}, c18Op{Op: "writeat", Off: n, Form: 2, Ans: c18Ans{Full: true}})
	// more fault shapes on the longer write: nothing accepted with / without an error, two bytes and an error
	for _, a := range []c18Ans{{K: 0, Err: true}, {K: 0, Err: false}, {K: 2, Err: true}} {
		ops = append(ops, c18Op{Op: "write", Len: 3, Ans: a})
	}
	for _, off := range []int64{0, n - 1} {
		for _, a := range ans {
			ops = append(ops, c18Op{Op: "writeat", Len: 2, Off: off, Ans: a})
		}
		ops = append(ops, c18Op{Op: "writeat", Len: 2, Off: off, Ans: c18Ans{K: 0, Err: true}})
	}
	for _, s := range [][2]int64{{1, 1}, {-1, 1}, {0, 0}, {0, 2}, {-1, 2}, {2, 0}} {
		ops = append(ops, c18Op{Op: "seek", Off: s[0], Whence: int(s[1]), Ans: c18Ans{Full: true}})
	}
	return ops
}

func c18Run(c *mc.Ctx) {
	c.NoExpect()
	type cfg struct{ base, n int64 }
	var cfgs []cfg
	maxN := int64(c.Pick(4, 7))
	for _, b := range []int64{0, 5, 1 << 40} {
		for n := int64(0); n <= maxN; n++ {
			cfgs = append(cfgs, cfg{b, n})
		}
	}
	c.Par(len(cfgs), func(ci int) {
		cf := cfgs[ci]
		ops := c18Alphabet(cf.n)
		window := cf.n + 6
		seen := map[int64]bool{0: true}
		queue := []int64{0}
		var trans, nontriv, outside int64
		for head := 0; head < len(queue); head++ {
			cur := queue[head]
			for oi, op := range ops {
				cs := c18Case{Kind: "section", Base: cf.base, N: cf.n, Cursor: cur, Ops: []c18Op{op}}
				got, want, moved := c18Exec(cs)
				trans++
				if moved {
					nontriv++
				}
				if got != want {
					c.Fail(int64(ci)<<40|int64(head)<<20|int64(oi), "section", "section", cs, got, want)
					continue
				}
				// successor cursor, read back from the model transcript
				m := &c18Model{base: cf.base, n: cf.n, cur: cur}
				m.step(op, 0)
				if m.cur < 0 || m.cur > window {
					outside++
					continue
				}
				if !seen[m.cur] {
					seen[m.cur] = true
					queue = append(queue, m.cur)
				}
			}
		}
		c.Add("states", int64(len(queue)))
		c.Add("transitions", trans)
		c.Add("successors_outside_window", outside)
		c.Count(trans, nontriv)
		if ci == 7 {
			c.ForceSample(c18Case{Kind: "section", Base: cf.base, N: cf.n, Cursor: 1, Ops: []c18Op{ops[len(ops)/3]}})
		}
		// unmerged sequences of depth ≤ 3 over the reduced alphabet
		red := c18Reduced(cf.n)
		var seqs, snt int64
		run := func(h []c18Op) {
			cs := c18Case{Kind: "section", Base: cf.base, N: cf.n, Ops: append([]c18Op(nil), h...)}
			got, want, moved := c18Exec(cs)
			seqs++
			if moved {
				snt++
			}
			if got != want {
				c.Fail(1<<50|int64(ci)<<40|seqs, "section", "section/sequence", cs, got, want)
			}
			// bystander: the same sequence while a second SectionWriter over another underlying
			// writer is used between the steps must give the same transcript
			cs.Bystander = true
			if g2, _, _ := c18Exec(cs); g2 != got {
				c.Fail(1<<51|int64(ci)<<40|seqs, "section", "section/bystander", cs, g2, want)
			}
			cs.Bystander = false
			// blind: without reading the cursor back between the steps
			if len(h) > 1 {
				cs.Blind = true
				if g5, w5, _ := c18Exec(cs); g5 != w5 {
					c.Fail(1<<54|int64(ci)<<40|seqs, "section", "section/blind", cs, g5, w5)
				}
				cs.Blind = false
				c.Add("blind_sequences", 1)
			}
			// other dynamic types of the underlying io.WriterAt
			if cf.base < 50 {
				cs.Under = "stacked"
				if g3, w3, _ := c18Exec(cs); g3 != w3 {
					c.Fail(1<<52|int64(ci)<<40|seqs, "section", "section/stacked", cs, g3, w3)
				}
				c.Add("stacked_sequences", 1)
				full := true
				for _, o := range h {
					full = full && o.Ans.Full
				}
				if full && len(h) <= 2 {
					cs.Under = "file"
					if g4, w4, _ := c18Exec(cs); g4 != w4 {
						c.Fail(1<<53|int64(ci)<<40|seqs, "section", "section/file", cs, g4, w4)
					}
					c.Add("file_sequences", 1)
				}
			}
		}
		for _, a := range red {
			run([]c18Op{a})
			for _, b := range red {
				run([]c18Op{a, b})
				for _, d := range red {
					run([]c18Op{a, b, d})
					if c.Thorough {
						for _, e := range red {
							run([]c18Op{a, b, d, e})
						}
					}
				}
			}
		}
		c.Add("unmerged_sequences", seqs)
		c.Count(seqs, snt)
		if ci == 3 {
			c.ForceSample(c18Case{Kind: "section", Base: cf.base, N: cf.n, Ops: []c18Op{red[2], red[len(red)-2], red[4]}})
		}
	})
	c18Inner3(c)
	c18Big(c)
	// AtToWriter
	for _, off := range []int64{0, 5} {
		var ops []c18Op
		for _, l := range []int{0, 1, 3} {
			for _, a := range c18Answers(l) {
				ops = append(ops, c18Op{Op: "write", Len: l, Ans: a})
			}
		}
		// "behaves as a section from off": its WriteAt and Seek faces (reached by asserting io.WriterAt /
		// io.Seeker on the returned io.Writer) are relative to off as well
		for _, wo := range []int64{-1, 0, 3} {
			for _, a := range []c18Ans{{Full: true}, {K: 1, Err: true}, {K: 1, Err: false}} {
				ops = append(ops, c18Op{Op: "writeat", Len: 2, Off: wo, Ans: a})
			}
		}
		for _, sk := range [][2]int64{{0, 0}, {2, 0}, {-1, 0}, {0, 1}, {1, 1}, {-1, 1}, {-100, 1}, {0, 3}} {
			ops = append(ops, c18Op{Op: "seek", Off: sk[0], Whence: int(sk[1]), Ans: c18Ans{Full: true}})
		}
		c.Set("attowriter_alphabet", len(ops))
		var seqs, snt int64
		run := func(h []c18Op) {
			cs := c18Case{Kind: "attowriter", Base: off, Ops: append([]c18Op(nil), h...)}
			got, want, moved := c18Exec(cs)
			seqs++
			if moved {
				snt++
			}
			if got != want {
				c.Fail(2<<50|off<<40|seqs, "attowriter", "attowriter", cs, got, want)
			}
		}
		for _, a := range ops {
			run([]c18Op{a})
			for _, b := range ops {
				run([]c18Op{a, b})
				for _, d := range ops {
					run([]c18Op{a, b, d})
				}
			}
		}
		c.Add("attowriter_sequences", seqs)
		c.Count(seqs, snt)
	}
	c.Add("traces_validated_against_impl", c.Int("transitions")+c.Int("unmerged_sequences")+c.Int("attowriter_sequences"))
}

// c18Inner3: the section under test over a real 3-byte SectionWriter (dynamic type of the
// underlying writer = *SectionWriter), for every geometry relative to it: starting before it,
// inside it, at its end and beyond it, ending inside and beyond it.
func c18Inner3(c *mc.Ctx) {
	type cfg struct{ base, n int64 }
	var cfgs []cfg
	for _, b := range []int64{-2, -1, 0, 1, 2, 3, 4} {
		for n := int64(0); n <= 5; n++ {
			cfgs = append(cfgs, cfg{b, n})
		}
	}
	c.Par(len(cfgs), func(ci int) {
		cf := cfgs[ci]
		red := c18Reduced(cf.n)
		var seqs, snt int64
		run := func(h []c18Op) {
			cs := c18Case{Kind: "section", Base: cf.base, N: cf.n, Under: "inner3", Ops: append([]c18Op(nil), h...)}
			got, want, moved := c18Exec(cs)
			seqs++
			if moved {
				snt++
			}
			if got != want {
				c.Fail(5<<50|int64(ci)<<40|seqs, "section", "section/inner3", cs, got, want)
			}
		}
		for _, a := range red {
			run([]c18Op{a})
			for _, b := range red {
				run([]c18Op{a, b})
				if c.Thorough {
					for _, d := range red {
						run([]c18Op{a, b, d})
					}
				}
			}
		}
		c.Add("inner3_sequences", seqs)
		c.Count(seqs, snt)
	})
}

// c18Big: sections whose length does not fit 31/32 bits (cursor arithmetic must be
// 64-bit throughout) and buffers longer than 2^16 bytes (counts must not be
// narrowed), from cursors around the section end.
func c18Big(c *mc.Ctx) {
	type cfg struct{ base, n int64 }
	var cfgs []cfg
	for _, b := range []int64{0, 5, 1 << 40} {
		for _, n := range []int64{0, 4, 1<<31 - 1, 1 << 31, 1<<31 + 1, 1 << 32, 1<<32 + 3, 1 << 62} {
			cfgs = append(cfgs, cfg{b, n})
		}
	}
	c.Par(len(cfgs), func(ci int) {
		cf := cfgs[ci]
		n := cf.n
		var ops []c18Op
		for l := 0; l <= 4; l++ {
			for _, a := range c18Answers(l) {
				ops = append(ops, c18Op{Op: "write", Len: l, Ans: a})
				for off := n - 3; off <= n+1; off++ {
					ops = append(ops, c18Op{Op: "writeat", Len: l, Off: off, Ans: a})
				}
				for _, off := range []int64{0, 1<<31 - 1, 1 << 31, 1<<32 - 1, 1 << 32} {
					if off < n-3 {
						ops = append(ops, c18Op{Op: "writeat", Len: l, Off: off, Ans: a})
					}
				}
			}
		}
		for _, wh := range []int{0, 1, 2} {
			for off := int64(-3); off <= 3; off++ {
				ops = append(ops, c18Op{Op: "seek", Off: off, Whence: wh, Ans: c18Ans{Full: true}})
			}
		}
		for _, off := range []int64{n - 1, n, n + 1, -n, -n - 1, 1 << 31, 1 << 32, 1<<32 + 1} {
			ops = append(ops, c18Op{Op: "seek", Off: off, Whence: 0, Ans: c18Ans{Full: true}},
				c18Op{Op: "seek", Off: off, Whence: 2, Ans: c18Ans{Full: true}})
		}
		// targets at the very end of int64: relative to the section they are ordinary positions
		// (far beyond the end), but for base > 0 their absolute offset is not representable
		const maxI = int64(^uint64(0) >> 1)
		for _, d := range []int64{0, 1, 4, 5, 6} {
			ops = append(ops, c18Op{Op: "seek", Off: maxI - d, Whence: 0, Ans: c18Ans{Full: true}},
				c18Op{Op: "seek", Off: maxI - n - d, Whence: 2, Ans: c18Ans{Full: true}})
		}
		nbase := len(ops)
		var trans, nt int64
		seenCur := map[int64]bool{}
		for _, cur := range []int64{0, 1<<31 - 2, 1<<32 - 2, n - 3, n - 2, n - 1, n, n + 1, n + 2} {
			if cur > n+2 || cur < 0 || seenCur[cur] {
				continue
			}
			seenCur[cur] = true
			ops = ops[:nbase]
			for _, d := range []int64{0, 1, 4, 5, 6} {
				ops = append(ops, c18Op{Op: "seek", Off: maxI - cur - d, Whence: 1, Ans: c18Ans{Full: true}})
			}
			for oi, op := range ops {
				cs := c18Case{Kind: "section", Base: cf.base, N: n, Cursor: cur, Ops: []c18Op{op}}
				got, want, moved := c18Exec(cs)
				trans++
				if moved {
					nt++
				}
				if got != want {
					c.Fail(3<<50|int64(ci)<<40|(cur&0xfff)<<20|int64(oi), "section", "section/big-geometry", cs, got, want)
				}
				// two steps without observing the cursor in between
				for _, op2 := range []c18Op{{Op: "write", Len: 2, Ans: c18Ans{Full: true}}, {Op: "seek", Off: -1, Whence: 1, Ans: c18Ans{Full: true}}} {
					cs2 := c18Case{Kind: "section", Base: cf.base, N: n, Cursor: cur, Blind: true, Ops: []c18Op{op, op2}}
					g2, w2, _ := c18Exec(cs2)
					trans++
					if g2 != w2 {
						c.Fail(3<<50|1<<49|int64(ci)<<40|(cur&0xfff)<<20|int64(oi), "section", "section/big-geometry", cs2, g2, w2)
					}
				}
			}
		}
		c.Add("big_geometry_transitions", trans)
		c.Count(trans, nt)
	})
	// long buffers
	var lcfg []cfg
	for _, b := range []int64{0, 5} {
		for _, n := range []int64{1<<16 - 1, 1 << 16, 1<<16 + 1} {
			lcfg = append(lcfg, cfg{b, n})
		}
	}
	c.Par(len(lcfg), func(ci int) {
		cf := lcfg[ci]
		n := cf.n
		var trans, nt int64
		for _, cur := range []int64{0, 1, n - 1<<16, n - 1, n} {
			if cur < 0 {
				continue
			}
			for _, l := range []int{1<<16 - 1, 1 << 16, 1<<16 + 1, 1 << 17} {
				answers := []c18Ans{{Full: true}}
				for _, k := range []int{0, 1, 1<<16 - 1, l - 1} {
					answers = append(answers, c18Ans{K: k, Err: true}, c18Ans{K: k})
				}
				for ai, a := range answers {
					for _, op := range []c18Op{{Op: "write", Len: l, Ans: a}, {Op: "writeat", Len: l, Off: cur, Ans: a}} {
						cs := c18Case{Kind: "section", Base: cf.base, N: n, Cursor: cur, Ops: []c18Op{op, {Op: "write", Len: 1, Ans: c18Ans{Full: true}}}}
						got, want, moved := c18Exec(cs)
						trans++
						if moved {
							nt++
						}
						if got != want {
							c.Fail(4<<50|int64(ci)<<40|cur<<20|int64(l)<<4|int64(ai), "section", "section/long-buffer", cs, got, want)
						}
					}
				}
			}
		}
		c.Add("long_buffer_sequences", trans)
		c.Count(trans, nt)
	})
}

func c18Judge(kind string, cs c18Case) (got, want string) {
	g, w, _ := c18Exec(cs)
	return g, w
}
