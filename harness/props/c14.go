package props

import (
	"fmt"
	mbits "math/bits"

	"github.com/openacid/low/bitmap"

	"verif/gen"
	"verif/mc"
)

// C14: Join / Getw pack fixed-width words losslessly; Slice copies a bit range.

type c14Case struct {
	W     int32     `json:"w,omitempty"`
	Vals  gen.Words `json:"values,omitempty"`
	Words gen.Words `json:"words,omitempty"`
	From  int32     `json:"from"`
	To    int32     `json:"to"`
	// big lists / bitmaps are named by their length (generator c14BigVals) instead of being listed
	Len int `json:"len,omitempty"`
}

func init() {
	mc.Register(&mc.Property{
		ID:     "C14",
		Word32: true,
		Level:  "exploration",
		Rule: "E1 bounded-exhaustive enumeration: (join) per width w in {1,2,4,8,16,32,64}: every value list of length ≤5 over {0,1,^0,0xa5a5…,1<<63}, and for a set of lengths up to 192/w+1 every list that is 0 everywhere except ≤2 positions taken from the non-zero alphabet values: len(Join) = ceil(len·w/64), Getw(result,i,w) = low w bits of values[i] for every i, popcount(result) = Σ popcount(low w bits) (no other bit set); (join, runs) lists with RUN structure: a head of 0..64/w+1 other elements, a run of identical elements 1, 2, 8 or 20 words long (±1 element), a tail of 0 or 3, 4 run elements; " +
			"(slice) every bitmap of ≤3 words over {0,^0,1,1<<63,0xdeadbeefcafebabe} × every 0 ≤ from ≤ to ≤ 64·len: result length ceil((to-from)/64), bit j = input bit from+j, all other bits 0, input unchanged (the argument carries 3 words of spare capacity holding a canary, which must be intact too). (long) Join on lists filling about 20 (thorough 70) words with ≤2 non-zero values at positions within 1 of a word boundary, and Slice on 20/70-word bitmaps (zero or all-ones with one island at every position) × every range with both ends within 1 of a word boundary. (big) Join on lists and Slice on bitmaps whose lengths lie within 9 of every power of two from 2^10 to 2^14 (Slice: 2^12 words). (length sweep) Join on EVERY list length 0..1100 for every width, Slice on bitmaps of EVERY length 1..300 words × 8 ranges. (giant, 64-bit builds) one sparse bitmap of 2^25 words: Slice on every range of ≤300 bits with both ends in {0, 64, 2^30, 2^30+7, MaxInt32-200.., MaxInt32} (13 values) and Getw at the first, middle and last three elements for every width. A case is one Join call with all its Getw probes, or one Slice call; non-trivial when some value/bit is non-zero and the list/range is non-empty.",
		Assumptions: []string{"other values / word patterns and longer lists are not enumerated"},
		Run:         c14Run,
		Judge:       mc.JudgeOf(c14Judge),
	})
}

func join(vals []uint64, w int32) (r []uint64, p string) {
	defer func() {
		if e := recover(); e != nil {
			p = fmt.Sprint("panic: ", e)
		}
	}()
	return bitmap.Join(gen.DirtyU64(vals, 3), w), "" // a window into a larger, non-zero buffer
}

func getw(bm []uint64, i, w int32) (r uint64, p bool) {
	defer func() {
		if recover() != nil {
			p = true
		}
	}()
	return bitmap.Getw(bm, i, w), false
}

func slice(w []uint64, from, to int32) (r []uint64, p string) {
	defer func() {
		if e := recover(); e != nil {
			p = fmt.Sprint("panic: ", e)
		}
	}()
	return bitmap.Slice(w, from, to), ""
}

var c14Vals = []uint64{0, 1, ^uint64(0), 0xa5a5a5a5a5a5a5a5, 1 << 63}
var c14Widths = []int32{1, 2, 4, 8, 16, 32, 64}

func lowBits(v uint64, w int32) uint64 {
	if w >= 64 {
		return v
	}
	return v & (uint64(1)<<uint(w) - 1)
}

// c14JoinOne judges one Join call; returns a description of the first mismatch.
func c14JoinOne(vals []uint64, w int32) (got, want string) {
	r, p := join(vals, w)
	wantLen := (len(vals)*int(w) + 63) / 64
	if p != "" {
		return p, fmt.Sprintf("%d words", wantLen)
	}
	if len(r) != wantLen {
		return fmt.Sprintf("%d words", len(r)), fmt.Sprintf("%d words", wantLen)
	}
	pop := int32(0)
	for i, v := range vals {
		g, pp := getw(r, int32(i), w)
		if pp || g != lowBits(v, w) {
			return fmt.Sprintf("Getw(%d)=%#x panic=%v", i, g, pp), fmt.Sprintf("Getw(%d)=%#x panic=false", i, lowBits(v, w))
		}
		pop += naivePop(lowBits(v, w))
	}
	have := int32(0)
	for _, x := range r {
		have += naivePop(x)
	}
	if have != pop {
		return fmt.Sprintf("popcount %d: %s", have, hexs(r)), fmt.Sprintf("popcount %d", pop)
	}
	return "ok", "ok"
}

func c14SliceOne(w []uint64, from, to int32) (got, want string) {
	keep := append([]uint64(nil), w...)
	// The argument handed over has SPARE CAPACITY (3 words beyond its length, holding a canary):
	// "leaving the input unchanged" covers the caller's backing array, which an append to the
	// argument or a reslice beyond its length would write to.
	const canary = 0xC5C5C5C5C5C5C5C5
	arg := make([]uint64, len(w)+3)
	copy(arg, w)
	for i := len(w); i < len(arg); i++ {
		arg[i] = canary
	}
	r, p := slice(arg[:len(w)], from, to)
	wantLen := (int(to-from) + 63) / 64
	if p != "" {
		return p, fmt.Sprintf("%d words", wantLen)
	}
	if !eqU64(arg[:len(w)], keep) {
		return "input changed to " + hexs(arg[:len(w)]), "input unchanged " + hexs(keep)
	}
	for i := len(w); i < len(arg); i++ {
		if arg[i] != canary {
			return fmt.Sprintf("word %d beyond the length of the input (its spare capacity) changed to %#x", i-len(w), arg[i]), "input unchanged, spare capacity included"
		}
	}
	if len(r) != wantLen {
		return fmt.Sprintf("%d words", len(r)), fmt.Sprintf("%d words", wantLen)
	}
	exp := make([]uint64, wantLen)
	for j := int32(0); j < to-from; j++ {
		s := from + j
		if keep[s>>6]>>uint(s&63)&1 == 1 {
			exp[j>>6] |= 1 << uint(j&63)
		}
	}
	if !eqU64(r, exp) {
		return hexs(r), hexs(exp)
	}
	return "ok", "ok"
}

func c14Lengths(c *mc.Ctx, w int32) []int {
	max := int(192/w) + 1
	if c.Thorough {
		if max > 130 {
			max = 130
		}
		var out []int
		for l := 6; l <= max; l++ {
			out = append(out, l)
		}
		if w == 1 {
			out = append(out, 191, 192, 193)
		}
		return out
	}
	seen := map[int]bool{}
	var out []int
	for _, l := range []int{int(64/w) - 1, int(64 / w), int(64/w) + 1, int(128 / w), int(128/w) + 1, max} {
		if l > 5 && !seen[l] {
			seen[l] = true
			out = append(out, l)
		}
	}
	return out
}

func c14Run(c *mc.Ctx) {
	nz := c14Vals[1:]
	// (join, runs) lists with RUN structure: a head of h distinct elements (h = 0 .. 64/w+1, so the run starts at
	// every slot of a word and in the next word), a run of n identical elements (n around 1, 2, 8 and 20 words'
	// worth, ±1), a tail of 0 or 3 other elements; run element and neighbours from {1, low bits all ones,
	// alternating, 0 with high garbage}: an implementation may pack repeated elements word-wise
	for _, w := range c14Widths {
		w := w
		per := int(64 / w)
		type rj struct{ h, n, tail, re int }
		var rjs []rj
		for h := 0; h <= per+1; h++ {
			for _, words := range []int{1, 2, 8, 20} {
				for d := -1; d <= 1; d++ {
					n := words*per + d
					if n < 1 {
						continue
					}
					for _, tail := range []int{0, 3} {
						for re := 0; re < 4; re++ {
							rjs = append(rjs, rj{h, n, tail, re})
						}
					}
				}
			}
		}
		c.Expect(int64(len(rjs)))
		c.Par(len(rjs), func(i int) {
			j := rjs[i]
			res := []uint64{1, ^uint64(0), 0xa5a5a5a5a5a5a5a5, 0xfffffffe00000000}
			var vals []uint64
			for k := 0; k < j.h; k++ {
				vals = append(vals, []uint64{0, 2, 0x5a5a5a5a5a5a5a5a}[k%3])
			}
			for k := 0; k < j.n; k++ {
				vals = append(vals, res[j.re])
			}
			for k := 0; k < j.tail; k++ {
				vals = append(vals, []uint64{0, 0x5a5a5a5a5a5a5a5a, 0}[k])
			}
			if g, wnt := c14JoinOne(vals, w); g != wnt {
				c.Fail(11<<50|int64(w)<<40|int64(i), "Join", "Join/runs", c14Case{W: w, Vals: append(gen.Words(nil), vals...)}, g, wnt)
			}
			c.Count(1, 1)
			c.Add("join_run_lists", 1)
		})
	}
	// (join) full products to length 5
	for _, w := range c14Widths {
		w := w
		c.Expect(gen.SeqCount(len(c14Vals), 5))
		c.Par(6, func(l int) {
			var evals, nontriv int64
			gen.Product(len(c14Vals), l, func(ix []int) {
				vals := make([]uint64, l)
				any := false
				for i, x := range ix {
					vals[i] = c14Vals[x]
					any = any || x != 0
				}
				if g, wnt := c14JoinOne(vals, w); g != wnt {
					c.Fail(int64(w)<<40|int64(l)<<32|evals, "Join", "Join", c14Case{W: w, Vals: vals}, g, wnt)
				}
				evals++
				if any {
					nontriv++
				}
			})
			c.Count(evals, nontriv)
			c.Add("join_calls", evals)
		})
	}
	c.ForceSample(map[string]interface{}{"fn": "Join+Getw", "w": 4, "values": gen.Words{1, ^uint64(0), 0xa5a5a5a5a5a5a5a5}, "expected_words": 1})
	// (join) long lists with ≤2 deviations
	type lj struct {
		w int32
		l int
	}
	var ljs []lj
	for _, w := range c14Widths {
		for _, l := range c14Lengths(c, w) {
			ljs = append(ljs, lj{w, l})
			L := int64(l)
			c.Expect(1 + int64(len(nz))*L + int64(len(nz)*len(nz))*L*(L-1)/2)
		}
	}
	c.Par(len(ljs), func(k int) {
		if c.TooMany() {
			return
		}
		j := ljs[k]
		var evals int64
		vals := make([]uint64, j.l)
		try := func() {
			if g, wnt := c14JoinOne(vals, j.w); g != wnt {
				c.Fail(1<<50|int64(k)<<32|evals, "Join", "Join", c14Case{W: j.w, Vals: append(gen.Words(nil), vals...)}, g, wnt)
			}
			evals++
		}
		try()
		for a := 0; a < j.l; a++ {
			for _, va := range nz {
				vals[a] = va
				try()
				for b := a + 1; b < j.l; b++ {
					for _, vb := range nz {
						vals[b] = vb
						try()
					}
					vals[b] = 0
				}
			}
			vals[a] = 0
		}
		c.Count(evals, evals-1)
		c.Add("join_calls", evals)
		c.Add("join_long_lists", evals)
	})
	c14Long(c)
	c14Sweep(c)
	c14Big(c)
	c14Giant(c)
	// (slice)
	alpha := []uint64{0, ^uint64(0), 1, 1 << 63, 0xdeadbeefcafebabe}
	var bms [][]uint64
	for l := 0; l <= 3; l++ {
		gen.Product(len(alpha), l, func(ix []int) {
			w := make([]uint64, l)
			for i, x := range ix {
				w[i] = alpha[x]
			}
			bms = append(bms, w)
		})
		nb := int64(64 * l)
		c.Expect(gen.PowInt(len(alpha), l) * (nb + 1) * (nb + 2) / 2)
	}
	c.Par(len(bms), func(bi int) {
		if c.TooMany() {
			return
		}
		w := bms[bi]
		nb := int32(64 * len(w))
		any := false
		for _, x := range w {
			any = any || x != 0
		}
		var evals, nontriv int64
		for from := int32(0); from <= nb; from++ {
			for to := from; to <= nb; to++ {
				if g, wnt := c14SliceOne(w, from, to); g != wnt {
					class := "Slice"
					if len(g) > 6 && g[len(g)-5:] == "words" {
						class = "Slice/len"
					}
					c.Fail(2<<50|int64(bi)<<32|int64(from)<<16|int64(to), "Slice", class, c14Case{Words: append(gen.Words(nil), w...), From: from, To: to}, g, wnt)
				}
				evals++
				if any && to > from {
					nontriv++
				}
			}
		}
		c.Count(evals, nontriv)
		c.Add("slice_calls", evals)
		if bi == len(bms)/2 {
			c.ForceSample(map[string]interface{}{"fn": "Slice", "words": gen.Words(w), "ranges": int64(nb+1) * int64(nb+2) / 2})
		}
	})
}

// c14Long: Join on lists that fill about 20 words (≤2 non-zero values at word-boundary
// positions) and Slice on 20-word bitmaps with ranges on and around word boundaries.
func c14Long(c *mc.Ctx) {
	nz := c14Vals[1:]
	words := c.Pick(20, 70)
	for _, w := range c14Widths {
		w := w
		per := int(64 / w)
		L := words*per + 1
		var pos []int
		seen := map[int]bool{}
		for k := 0; k <= words; k++ {
			for _, d := range []int{-1, 0, 1} {
				if x := k*per + d; x >= 0 && x < L && !seen[x] {
					seen[x] = true
					pos = append(pos, x)
				}
			}
		}
		np, nv := int64(len(pos)), int64(len(nz))
		c.Expect(1 + np*nv + np*(np-1)/2*nv*nv)
		c.Par(len(pos)+1, func(ai int) {
			if c.TooMany() {
				return
			}
			vals := make([]uint64, L)
			var evals int64
			try := func() {
				if g, wnt := c14JoinOne(vals, w); g != wnt {
					c.Fail(3<<50|int64(w)<<40|int64(ai)<<20|evals, "Join", "Join", c14Case{W: w, Vals: append(gen.Words(nil), vals...)}, g, wnt)
				}
				evals++
			}
			if ai == len(pos) {
				try()
			} else {
				a := pos[ai]
				for _, va := range nz {
					vals[a] = va
					try()
					for _, b := range pos[ai+1:] {
						for _, vb := range nz {
							vals[b] = vb
							try()
						}
						vals[b] = 0
					}
				}
			}
			c.Count(evals, evals)
			c.Add("join_calls", evals)
			c.Add("join_long_lists", evals)
		})
	}
	// Slice on long bitmaps
	L := words
	var bms [][]uint64
	ones := make([]uint64, L)
	for i := range ones {
		ones[i] = ^uint64(0)
	}
	bms = append(bms, make([]uint64, L), ones)
	for p := 0; p < L; p++ {
		for _, a := range []uint64{1, 1 << 63, 0xdeadbeefcafebabe} {
			w := make([]uint64, L)
			w[p] = a
			bms = append(bms, w)
			w2 := append([]uint64(nil), ones...)
			w2[p] = ^a
			bms = append(bms, w2)
		}
	}
	nb := int32(64 * L)
	var pts []int32
	for k := int32(0); k <= int32(L); k++ {
		for _, d := range []int32{-1, 0, 1} {
			if x := 64*k + d; x >= 0 && x <= nb {
				pts = append(pts, x)
			}
		}
	}
	np := int64(len(pts))
	c.Expect(int64(len(bms)) * np * (np + 1) / 2)
	c.Par(len(bms), func(bi int) {
		if c.TooMany() {
			return
		}
		w := bms[bi]
		var evals int64
		for fi, from := range pts {
			for _, to := range pts[fi:] {
				if g, wnt := c14SliceOne(w, from, to); g != wnt {
					c.Fail(4<<50|int64(bi)<<32|int64(from)<<16|int64(to), "Slice", "Slice", c14Case{Words: append(gen.Words(nil), w...), From: from, To: to}, g, wnt)
				}
				evals++
			}
		}
		c.Count(evals, evals)
		c.Add("slice_calls", evals)
		c.Add("slice_long_calls", evals)
	})
}

func c14BigVals(l int) []uint64 {
	v := gen.DirtyU64(make([]uint64, l), 3)
	for i := range v {
		v[i] = uint64(i+1) * 0x9e3779b97f4a7c15
	}
	return v
}

// c14Big: value lists and bitmaps whose lengths lie next to powers of two (size thresholds).
func c14Big(c *mc.Ctx) {
	type jj struct {
		w int32
		l int
	}
	var joins []jj
	for _, l := range gen.SizesAround(10, 14, []int{-1, 0, 1, 7, 8, 9}) {
		for _, w := range c14Widths {
			joins = append(joins, jj{w, l})
		}
	}
	c.Expect(int64(len(joins)))
	c.Par(len(joins), func(i int) {
		j := joins[i]
		if g, wnt := c14JoinOne(c14BigVals(j.l), j.w); g != wnt {
			c.Fail(5<<50|int64(i), "Join", "Join/big", c14Case{W: j.w, Len: j.l}, g, wnt)
		}
		c.Count(1, 1)
		c.Add("join_calls", 1)
		c.Add("join_big_lists", 1)
	})
	type sj struct{ l int }
	var slices []sj
	for _, l := range gen.SizesAround(10, 12, []int{-1, 0, 1, 9}) {
		slices = append(slices, sj{l})
	}
	c.Par(len(slices), func(i int) {
		l := slices[i].l
		w := c14BigVals(l)
		nb := int32(64 * l)
		pairs := [][2]int32{{0, nb}, {1, nb}, {0, nb - 1}, {63, nb - 63}, {64, nb - 64}, {65, nb}, {nb / 2, nb}, {nb/2 + 1, nb - 1}, {0, nb / 2}, {7, nb/2 + 7},
			{nb - 64, nb}, {nb - 65, nb}, {nb - 1, nb}, {nb, nb}, {0, 0}, {0, 4096 * 64}, {1, 4096*64 + 1}, {64, 4096 * 64}, {3, 8192*64 + 3}, {nb / 4, 3 * (nb / 4)}}
		var evals int64
		for _, pr := range pairs {
			if pr[1] > nb || pr[0] > pr[1] {
				continue
			}
			if g, wnt := c14SliceOne(w, pr[0], pr[1]); g != wnt {
				c.Fail(6<<50|int64(i)<<8, "Slice", "Slice/big", c14Case{Len: l, From: pr[0], To: pr[1]}, clipS(g), clipS(wnt))
			}
			evals++
		}
		c.Count(evals, evals)
		c.Expect(evals)
		c.Add("slice_calls", evals)
		c.Add("slice_big_calls", evals)
	})
}

// c14Sweep: EVERY list length 0..1100 for Join (each width) and EVERY bitmap length 1..300 words for Slice
// (ranges at both ends and across the middle): the gap between the small complete spaces and the
// threshold sizes is closed for the length coordinate.
func c14Sweep(c *mc.Ctx) {
	type jj struct {
		w int32
		l int
	}
	var joins []jj
	for _, w := range c14Widths {
		for l := 0; l <= 1100; l++ {
			joins = append(joins, jj{w, l})
		}
	}
	c.Expect(int64(len(joins)))
	c.Par(len(joins), func(i int) {
		j := joins[i]
		if g, wnt := c14JoinOne(c14BigVals(j.l), j.w); g != wnt {
			c.Fail(9<<50|int64(i), "Join", "Join/length-sweep", c14Case{W: j.w, Len: j.l}, g, wnt)
		}
		c.Count(1, 1)
		c.Add("join_calls", 1)
	})
	c.Par(300, func(i int) {
		l := i + 1
		w := c14BigVals(l)
		nb := int32(64 * l)
		var n int64
		for _, r := range [][2]int32{{0, nb}, {1, nb}, {0, nb - 1}, {63, nb - 63}, {nb / 2, nb}, {nb/2 - 1, nb/2 + 66}, {nb - 65, nb}, {5, 5}} {
			if r[0] < 0 || r[1] > nb || r[0] > r[1] {
				continue
			}
			if g, wnt := c14SliceOne(w, r[0], r[1]); g != wnt {
				c.Fail(9<<50|1<<40|int64(l)<<8|n, "Slice", "Slice/length-sweep", c14Case{From: r[0], To: r[1], Len: l}, clipS(g), clipS(wnt))
			}
			n++
		}
		c.Count(n, n)
		c.Expect(n)
		c.Add("slice_calls", n)
	})
}

// ---- the top of the int32 position range (64-bit builds): one sparse bitmap of 2^25 words

func c14GiantBitmap() []uint64 {
	l := 1 << 25
	w := make([]uint64, l, l+3)
	w[0] = 1<<63 | 1
	w[l/2] = 0xa5
	w[l-3] = 0xdeadbeefcafebabe
	w[l-2] = 1<<63 | 0xf0
	w[l-1] = 1<<63 | 1<<62 | 0x8001
	for i := l; i < l+3; i++ {
		w[:l+3][i] = 0xC5C5C5C5C5C5C5C5 // canary in the spare capacity
	}
	return w
}

// c14GiantSlice judges one Slice call on the giant bitmap; keep is a private copy.
func c14GiantSlice(w, keep []uint64, from, to int32) (got, want string) {
	r, p := slice(w, from, to)
	wantLen := (int(to-from) + 63) / 64
	if p != "" {
		return p, fmt.Sprintf("%d words", wantLen)
	}
	if !eqU64(w[:len(w)+3], keep[:len(keep)+3]) {
		return "input (or its spare capacity) changed", "input unchanged"
	}
	if len(r) != wantLen {
		return fmt.Sprintf("%d words", len(r)), fmt.Sprintf("%d words", wantLen)
	}
	exp := make([]uint64, wantLen)
	for j := int64(0); j < int64(to)-int64(from); j++ {
		s := int64(from) + j
		if keep[s>>6]>>uint(s&63)&1 == 1 {
			exp[j>>6] |= 1 << uint(j&63)
		}
	}
	if !eqU64(r, exp) {
		return hexs(r), hexs(exp)
	}
	return "ok", "ok"
}

func c14GiantGetw(w []uint64, i, width int32) (got, want string) {
	g, pp := getw(w, i, width)
	pos := int64(i) * int64(width)
	exp := lowBits(w[pos>>6]>>uint(pos&63), width)
	return fmt.Sprintf("%#x panic=%v", g, pp), fmt.Sprintf("%#x panic=false", exp)
}

func c14Giant(c *mc.Ctx) {
	if mbits.UintSize != 64 {
		return
	}
	const M = int32(1<<31 - 1)
	w := c14GiantBitmap()
	keep := append([]uint64(nil), w[:len(w)+3]...)[:len(w)]
	pts := []int32{0, 64, 1 << 30, 1<<30 + 7, M - 200, M - 129, M - 128, M - 127, M - 65, M - 64, M - 63, M - 1, M}
	var evals int64
	for _, from := range pts {
		for _, to := range pts {
			if from > to || int64(to)-int64(from) > 300 {
				continue
			}
			if g, wnt := c14GiantSlice(w, keep, from, to); g != wnt {
				c.Fail(6<<50|int64(from)<<20|int64(to&0xfffff), "SliceGiant", "Slice/giant", c14Case{From: from, To: to, Len: 1 << 25}, clipS(g), clipS(wnt))
			}
			evals++
		}
	}
	for _, width := range c14Widths {
		n := int32((int64(1) << 31) / int64(width)) // number of elements
		for _, i := range []int32{0, 1, n / 2, n - 3, n - 2, n - 1} {
			if i < 0 {
				continue
			}
			if g, wnt := c14GiantGetw(w, i, width); g != wnt {
				c.Fail(6<<50|1<<49|int64(width)<<32|int64(i), "GetwGiant", "Getw/giant", c14Case{W: width, From: i, Len: 1 << 25}, g, wnt)
			}
			evals++
		}
	}
	c.Count(evals, evals)
	c.Expect(evals)
	c.Add("giant_bitmap_cases", evals)
}

func c14Judge(kind string, cs c14Case) (got, want string) {
	switch kind {
	case "SliceGiant":
		w := c14GiantBitmap()
		keep := append([]uint64(nil), w[:len(w)+3]...)[:len(w)]
		g, wnt := c14GiantSlice(w, keep, cs.From, cs.To)
		return clipS(g), clipS(wnt)
	case "GetwGiant":
		return c14GiantGetw(c14GiantBitmap(), cs.From, cs.W)
	}
	if cs.Len > 0 {
		switch kind {
		case "Join":
			return c14JoinOne(c14BigVals(cs.Len), cs.W)
		case "Slice":
			g, w := c14SliceOne(c14BigVals(cs.Len), cs.From, cs.To)
			return clipS(g), clipS(w)
		}
	}
	switch kind {
	case "Join":
		return c14JoinOne([]uint64(cs.Vals), cs.W)
	case "Slice":
		return c14SliceOne(append([]uint64(nil), cs.Words...), cs.From, cs.To)
	}
	return "unknown kind " + kind, ""
}
