//go:build !verifsched

package props

import (
	"fmt"

	"verif/mc"
)

// c19Instrumented: this binary is not the instrumented one.
const c19Instrumented = false

func init() {
	mc.RegisterWorker("c19sched", func([]string) int {
		fmt.Println(`{"Err":"this binary was built without the instrumentation overlay (tag verifsched)"}`)
		return 2
	})
}
