package props

import (
	"fmt"
	mbits "math/bits"
	"strings"
	"sync"
	"unsafe"

	"github.com/openacid/low/bitmap"
	"github.com/openacid/low/bmtree"

	"verif/gen"
	"verif/mc"
	"verif/ref"
)

// C11: FromStr32 / PathOf / PathsOf against slices of the string's bit string.

type c11Case struct {
	S     gen.Bytes   `json:"s"`
	From  int32       `json:"from"`
	W     int32       `json:"w"`
	Keys  []gen.Bytes `json:"keys,omitempty"`
	Dedup bool        `json:"dedup,omitempty"`
	Big   int         `json:"big_len,omitempty"` // big strings are named by their byte length
	// GenN > 0: PathsOf on a generated key list: c11GenKeys(GenN, GenStyle)
	GenN     int `json:"generated_keys,omitempty"`
	GenStyle int `json:"generated_style,omitempty"`
}

// c11GenKeys: n keys, ascending. Style 0: all equal; 1: runs of three equal keys; 2: all
// distinct; 3: runs of 4096 equal keys shifted by one (runs straddle every multiple of 4096).
func c11GenKeys(n, style int) []string {
	keys := make([]string, n)
	for i := range keys {
		v := 0
		switch style {
		case 1:
			v = i / 3
		case 2:
			v = i
		case 3:
			v = (i + 1) / 4096
		}
		keys[i] = string([]byte{'k', byte(v >> 16), byte(v >> 8), byte(v)})
	}
	return keys
}

// c11PathsOfGen judges PathsOf on a generated key list against map + adjacent dedup of
// the reference paths.
func c11PathsOfGen(n, style int, from, h int32, dedup bool) (got, want string) {
	keys := c11GenKeys(n, style)
	w := make([]uint64, 0, n)
	var prev uint64
	for i, k := range keys {
		p := c11RefPath(ref.Bits(k), from, h)
		if dedup && i > 0 && p == prev {
			continue
		}
		prev = p
		w = append(w, p)
	}
	g, p := pathsOf(keys, from, h, dedup)
	if p != "" {
		return p, fmt.Sprintf("%d paths", len(w))
	}
	if len(g) != len(w) {
		return fmt.Sprintf("%d paths", len(g)), fmt.Sprintf("%d paths", len(w))
	}
	for i := range w {
		if g[i] != w[i] {
			return fmt.Sprintf("path %d = %#x", i, g[i]), fmt.Sprintf("path %d = %#x", i, w[i])
		}
	}
	return "ok", "ok"
}

func init() {
	mc.Register(&mc.Property{
		ID:       "C11",
		Word32:   true,
		DebugTag: true,
		Level:    "exploration",
		Rule: "E1 bounded-exhaustive enumeration: every string of length ≤N over {00,ff,a5,5a,01,80} (plus every single byte value, alone and in a 3-byte string, 12 strings of 11..66 bytes, and every string of ≤4 bytes over {c3,a9,'a'} and {e6,97,a5}: well-formed 2- and 3-byte UTF-8) × every start bit in [0, 8·len+9] (and, for 5 strings, 56 far start bits: 2^16, 2^24, 2^28, 2^29, 2^30 (±1) and the last 41 int32 values) × every width 0..32 (and, on 64-bit builds, strings of 2^28-1, 2^28, 2^28+1 bytes - 2^31 bits, one more than an int32 counts - × start bits at both ends, around 2^30 and around the last int32 × 9 widths, against a byte-level reference): FromStr32 (count and value) and PathOf (every height 0..32) against the slice [from, from+k) of the string's '0'/'1' rendering; PathsOf on generated key lists of every threshold size (round numbers ±1) from 1000 to 70000 keys × 4 run shapes (all equal, runs of 3, all distinct, runs of 4096 straddling every multiple of 4096) × dedup on/off; PathsOf on every list of ≤3 keys over 15 keys of 1-bits (ff^k, ff^k 7f, ff^k fe) × start bits {0,1,5,8} × heights {24,30,31,32} × dedup (the path of 32 ones at height 32 is the word ^uint64(0)); PathsOf on every pair of the 40 keys of ≤3 bytes over {a,b,r} and every triple of the 13 keys of ≤2 bytes × every start bit 0..17 × heights {1,4,7,8,9,12,16,17,24,30} × dedup on/off; PathsOf on every key list of length ≤4 over 5 short keys × dedup on/off × a (from,height) grid against map + adjacent-dedup of the reference paths. " +
			"A case is one call; non-trivial when 0 < k (some bit is taken from the string) and the string is not all-zero.",
		Assumptions: []string{"strings longer than N and other byte values are not enumerated (the function reads at most 5 bytes; spans of 1..5 bytes and starts before/at/after the end are all inside)"},
		Run:         c11Run,
		Judge:       mc.JudgeOf(c11Judge),
	})
}

func fromStr32(s string, from, to int32) (n int32, v uint64, p string) {
	defer func() {
		if e := recover(); e != nil {
			p = fmt.Sprint("panic: ", e)
		}
	}()
	n, v = bitmap.FromStr32(s, from, to)
	return
}

func pathOf(s string, from, h int32) (v uint64, p string) {
	defer func() {
		if e := recover(); e != nil {
			p = fmt.Sprint("panic: ", e)
		}
	}()
	return bmtree.PathOf(s, from, h), ""
}

func pathsOf(keys []string, from, h int32, dedup bool) (v []uint64, p string) {
	defer func() {
		if e := recover(); e != nil {
			p = fmt.Sprint("panic: ", e)
		}
	}()
	return bmtree.PathsOf(keys, from, h, dedup), ""
}

// c11Ref returns k and the w-bit value from the statement.
func c11Ref(bits string, from, w int32) (int32, uint64) {
	k := int32(len(bits)) - from
	if k > w {
		k = w
	}
	if k < 0 {
		k = 0
	}
	if k == 0 {
		return 0, 0
	}
	return k, ref.BitsVal(bits[from:from+k]) << uint(w-k)
}

func c11RefPath(bits string, from, h int32) uint64 {
	k, v := c11Ref(bits, from, h)
	return ref.PathWord(v>>uint(h-k), int(k), int(h))
}

var c11Alpha = []byte{0x00, 0xff, 0xa5, 0x5a, 0x01, 0x80}

func c11InAlpha(b byte) bool {
	for _, a := range c11Alpha {
		if a == b {
			return true
		}
	}
	return false
}

func c11Run(c *mc.Ctx) {
	N := c.Pick(5, 7)
	strs := gen.Strings(c11Alpha, N)
	for b := 0; b < 256; b++ { // every byte value, alone and followed by its complement
		x := string([]byte{byte(b)})
		if len(x) > 0 && !c11InAlpha(byte(b)) {
			strs = append(strs, x)
		}
		strs = append(strs, x+string([]byte{^byte(b), byte(b)}))
	}
	for _, n := range []int{8, 9, 63} {
		for v := 0; v < c09StemVariants; v++ {
			strs = append(strs, c09StemV(n, v)+"\xa5\x5a\x01")
		}
	}
	// well-formed multi-byte UTF-8 (code that walks a string by rune instead of by byte): every string of
	// ≤4 bytes over {c3,a9,'a'} ("é" = c3 a9) and over {e6,97,a5} ("日" = e6 97 a5)
	strs = append(strs, gen.Strings([]byte{0xc3, 0xa9, 'a'}, 4)...)
	strs = append(strs, gen.Strings([]byte{0xe6, 0x97, 0xa5}, 4)...)
	{ // the families overlap on a few strings: keep each once
		seenS := map[string]bool{}
		uniq := strs[:0]
		for _, x := range strs {
			if !seenS[x] {
				seenS[x] = true
				uniq = append(uniq, x)
			}
		}
		strs = uniq
	}
	c.Set("max_string_length", N)
	c.Set("strings", len(strs))
	const chunk = 64
	nch := (len(strs) + chunk - 1) / chunk
	c.Par(nch, func(ci int) {
		if c.TooMany() {
			return
		}
		var evals, nontriv int64
		for si := ci * chunk; si < (ci+1)*chunk && si < len(strs); si++ {
			s := strs[si]
			bits := ref.Bits(s)
			zero := true
			for i := 0; i < len(s); i++ {
				if s[i] != 0 {
					zero = false
				}
			}
			nfrom := int32(8*len(s) + 9)
			c.Expect(int64(nfrom+1) * (33 + 33))
			for from := int32(0); from <= nfrom; from++ {
				for w := int32(0); w <= 32; w++ {
					wk, wv := c11Ref(bits, from, w)
					k, v, p := fromStr32(s, from, from+w)
					if p != "" || k != wk || v != wv {
						c.Fail(int64(si)<<20|int64(from)<<6|int64(w), "FromStr32", "FromStr32", c11Case{S: gen.Bytes(s), From: from, W: w}, fmt.Sprintf("%s(%d,%#x)", p, k, v), fmt.Sprintf("(%d,%#x)", wk, wv))
					}
					evals++
					if wk > 0 && !zero {
						nontriv++
					}
					if w <= 32 {
						wp := c11RefPath(bits, from, w)
						gp, p := pathOf(s, from, w)
						if p != "" || gp != wp {
							c.Fail(int64(si)<<20|int64(from)<<6|int64(w), "PathOf", "PathOf", c11Case{S: gen.Bytes(s), From: from, W: w}, fmt.Sprintf("%s%#x", p, gp), fmt.Sprintf("%#x", wp))
						}
						evals++
						if wk > 0 && !zero {
							nontriv++
						}
					}
				}
			}
			if si%311 == 7 {
				c.ForceSample(map[string]interface{}{"s": fmt.Sprintf("%x", s), "from_range": []int32{0, nfrom}, "widths": "0..32", "example": fmt.Sprintf("FromStr32(s,3,3+9) = %v", func() interface{} { k, v := c11Ref(bits, 3, 9); return []interface{}{k, v} }())})
			}
		}
		c.Count(evals, nontriv)
	})
	// big strings: 2^8, 2^12, 2^16 (±1) bytes, starts next to the end and next to every power of two
	{
		var evals int64
		{
			// 2^p ± 1 and every round-number threshold in between (3·2^k, 10^k, 2·10^k, 5·10^k, each ±1)
			for _, l := range gen.SizesAround(8, 16, []int{-1, 0, 1}) {
				p := uint(0)
				for 1<<(p+1) <= l+1 {
					p++
				}
				b := make([]byte, l)
				for i := range b {
					b[i] = byte(i*167 + i>>7 + 3)
				}
				sB := string(b)
				bits := ref.Bits(sB)
				froms := []int32{0, 1, 7, 8, 9}
				for q := uint(5); q <= p+3; q++ {
					for _, dd := range []int32{-1, 0, 1} {
						if f := int32(1)<<q + dd; f >= 0 && int(f) <= 8*l+9 {
							froms = append(froms, f)
						}
					}
				}
				for _, dd := range []int32{-33, -32, -31, -9, -8, -7, -1, 0, 1, 9} {
					if f := int32(8*l) + dd; f >= 0 {
						froms = append(froms, f)
					}
				}
				for _, from := range froms {
					for _, w := range []int32{0, 1, 7, 8, 9, 25, 31, 32} {
						wk, wv := c11Ref(bits, from, w)
						k, v, pp := fromStr32(sB, from, from+w)
						if pp != "" || k != wk || v != wv {
							c.Fail(2<<50|int64(l)<<24|int64(from), "FromStr32", "FromStr32/big", c11Case{Big: l, From: from, W: w}, fmt.Sprintf("%s(%d,%#x)", pp, k, v), fmt.Sprintf("(%d,%#x)", wk, wv))
						}
						evals++
					}
				}
			}
		}
		c.Count(evals, evals)
		c.Expect(evals)
		c.Add("big_string_cases", evals)
	}
	// far starts: start bits far beyond the end of the string, up to the last int32 (the statement
	// bounds from only from below). FromStr32 takes from+w as an int32, so it gets every (from, w)
	// with from+w ≤ MaxInt32; PathOf and PathsOf take from and the height separately and get every pair.
	{
		const maxI32 = int32(1<<31 - 1)
		var far []int32
		for _, b := range []int32{1 << 16, 1 << 24, 1 << 28, 1 << 29, 1 << 30} {
			far = append(far, b-1, b, b+1)
		}
		for d := int32(40); d >= 0; d-- {
			far = append(far, maxI32-d)
		}
		var evals int64
		for si, s := range []string{"", "\xff", "abc", "\x80\x00\x00\x00\x01", "stemSTEMstem\xa5"} {
			bits := ref.Bits(s)
			for _, from := range far {
				for w := int32(0); w <= 32; w++ {
					if from <= maxI32-w {
						wk, wv := c11Ref(bits, from, w)
						k, v, p := fromStr32(s, from, from+w)
						if p != "" || k != wk || v != wv {
							c.Fail(3<<50|int64(si)<<40|int64(from)<<6|int64(w), "FromStr32", "FromStr32/far", c11Case{S: gen.Bytes(s), From: from, W: w}, fmt.Sprintf("%s(%d,%#x)", p, k, v), fmt.Sprintf("(%d,%#x)", wk, wv))
						}
						evals++
					}
					if w <= 32 {
						wp := c11RefPath(bits, from, w)
						gp, p := pathOf(s, from, w)
						if p != "" || gp != wp {
							c.Fail(3<<50|int64(si)<<40|int64(from)<<6|int64(w), "PathOf", "PathOf/far", c11Case{S: gen.Bytes(s), From: from, W: w}, fmt.Sprintf("%s%#x", p, gp), fmt.Sprintf("%#x", wp))
						}
						evals++
					}
				}
			}
		}
		c.Count(evals, evals)
		c.Expect(evals)
		c.Add("far_start_cases", evals)
	}
	// giant strings (64-bit builds): 2^28-1, 2^28 and 2^28+1 bytes - at 2^28 bytes the string holds
	// 2^31 bits, one more than an int32 can count; every start bit that an int32 can name is still a
	// legal argument. Reference computed from the bytes directly.
	if mbits.UintSize == 64 {
		const maxI32 = int64(1<<31 - 1)
		lens := []int{1<<28 - 1, 1 << 28, 1<<28 + 1}
		var evals int64
		var mu sync.Mutex
		c.Par(len(lens), func(li int) {
			l := lens[li]
			sB := c11GiantString(l)
			var n int64
			var froms []int64
			for _, f := range []int64{0, 1, 4, 7, 8, 9, 1 << 30, maxI32 - 40, 8*int64(l) - 1, 8*int64(l) - 8, 8*int64(l) - 9, 8*int64(l) - 33, 8*int64(l) - 41} {
				if f >= 0 && f <= maxI32 {
					froms = append(froms, f)
				}
			}
			for _, w := range []int32{0, 1, 7, 8, 9, 25, 30, 31, 32} {
				fs := append([]int64(nil), froms...)
				for _, d := range []int64{0, 1, 7, 8, 9} {
					fs = append(fs, maxI32-int64(w)-d) // the window ends at (or just before) the last int32
				}
				for _, f64 := range fs {
					from := int32(f64)
					if f64+int64(w) <= maxI32 {
						wk, wv := c11RefBytes(sB, from, w)
						k, v, p := fromStr32(sB, from, from+w)
						if p != "" || k != wk || v != wv {
							c.Fail(4<<50|int64(li)<<40|f64<<6|int64(w), "FromStr32", "FromStr32/giant", c11Case{Big: l, From: from, W: w}, fmt.Sprintf("%s(%d,%#x)", p, k, v), fmt.Sprintf("(%d,%#x)", wk, wv))
						}
						n++
					}
					if w <= 32 {
						k, v := c11RefBytes(sB, from, w)
						wp := ref.PathWord(v>>uint(w-k), int(k), int(w))
						gp, p := pathOf(sB, from, w)
						if p != "" || gp != wp {
							class := "PathOf/giant"
							if f64+int64(w) > maxI32 && k > 0 {
								// from+h is not an int32 although bits of the string lie at from: PathOf cannot
								// name the window end it hands to FromStr32 (known finding, see known_findings.txt)
								class = "PathOf/giant/window-end-beyond-int32"
							}
							c.Fail(4<<50|int64(li)<<40|f64<<6|int64(w), "PathOf", class, c11Case{Big: l, From: from, W: w}, fmt.Sprintf("%s%#x", p, gp), fmt.Sprintf("%#x", wp))
						}
						n++
					}
				}
			}
			mu.Lock()
			evals += n
			mu.Unlock()
		})
		c.Count(evals, evals)
		c.Expect(evals)
		c.Add("giant_string_cases", evals)
	}
	// PathsOf on long key lists: every threshold size (round numbers ±1) from 1000 to 70000 keys × 4
	// run shapes × dedup on/off
	{
		sizes := gen.ThresholdSizes(1000, 70000)
		type job struct {
			n, style int
			dedup    bool
		}
		var jobs []job
		for _, n := range sizes {
			for style := 0; style < 4; style++ {
				jobs = append(jobs, job{n, style, true}, job{n, style, false})
			}
		}
		c.Expect(int64(len(jobs)))
		c.Par(len(jobs), func(ji int) {
			j := jobs[ji]
			if g, w := c11PathsOfGen(j.n, j.style, 8, 24, j.dedup); g != w {
				c.Fail(5<<50|int64(ji), "PathsOfGen", "PathsOf/long", c11Case{From: 8, W: 24, Dedup: j.dedup, GenN: j.n, GenStyle: j.style}, g, w)
			}
			c.Count(1, 1)
			c.Add("pathsof_long_lists", 1)
		})
	}
	// PathsOf
	keyAlpha := []string{"", "\x00", "\xa5", "\xa5\x5a", "\xa5\x5a\xff"}
	grid := [][2]int32{{0, 0}, {0, 1}, {0, 8}, {0, 12}, {3, 4}, {3, 13}, {8, 8}, {8, 9}, {12, 30}, {17, 5}, {1<<31 - 1, 9}, {1<<31 - 5, 8}, {1 << 30, 30}}
	var lists [][]string
	for l := 0; l <= 4; l++ {
		gen.Product(len(keyAlpha), l, func(ix []int) {
			ks := make([]string, l)
			for i, k := range ix {
				ks[i] = keyAlpha[k]
			}
			lists = append(lists, ks)
		})
	}
	c.Expect(int64(len(lists)) * int64(len(grid)) * 2)
	c.Par(len(lists), func(li int) {
		ks := lists[li]
		var evals, nontriv int64
		for gi, g := range grid {
			for d := 0; d < 2; d++ {
				dedup := d == 1
				want := []uint64{}
				for i, k := range ks {
					p := c11RefPath(ref.Bits(k), g[0], g[1])
					if dedup && i > 0 && len(want) > 0 && p == c11RefPath(ref.Bits(ks[i-1]), g[0], g[1]) {
						continue
					}
					want = append(want, p)
				}
				got, p := pathsOf(ks, g[0], g[1], dedup)
				if p != "" || !eqU64(got, want) {
					c.Fail(1<<50|int64(li)<<8|int64(gi)<<1|int64(d), "PathsOf", "PathsOf", c11Case{Keys: gen.BytesList(ks), From: g[0], W: g[1], Dedup: dedup}, p+hexs(got), hexs(want))
				}
				evals++
				if len(ks) >= 2 {
					nontriv++
				}
			}
		}
		c.Count(evals, nontriv)
		c.Add("pathsof_calls", evals)
	})
	// PathsOf at the tallest heights, with keys of 1-bits: the path of 32 ones at height 32 is the word
	// ^uint64(0) - a value an implementation may be using for "no path yet". Every list of ≤3 keys over the
	// 15 keys of ≤5 bytes {ff^k, ff^k 7f, ff^k fe} × start bits {0,1,5,8} × heights {24,30,31,32} × dedup.
	{
		var ks []string
		for k := 0; k <= 4; k++ {
			base := strings.Repeat("\xff", k)
			ks = append(ks, base+"\xff", base+"\x7f", base+"\xfe")
		}
		var lists3 [][]string
		for _, x := range ks {
			lists3 = append(lists3, []string{x})
			for _, y := range ks {
				lists3 = append(lists3, []string{x, y})
				for _, z := range ks {
					lists3 = append(lists3, []string{x, y, z})
				}
			}
		}
		var grid3 [][2]int32
		for _, from := range []int32{0, 1, 5, 8} {
			for _, h := range []int32{24, 30, 31, 32} {
				grid3 = append(grid3, [2]int32{from, h})
			}
		}
		c.Expect(int64(len(lists3)) * int64(len(grid3)) * 2)
		c.Par(len(lists3), func(li int) {
			ks := lists3[li]
			bits := make([]string, len(ks))
			for i, k := range ks {
				bits[i] = ref.Bits(k)
			}
			var evals int64
			for gi, g := range grid3 {
				for d := 0; d < 2; d++ {
					dedup := d == 1
					want := []uint64{}
					var prev uint64
					for i := range ks {
						p := c11RefPath(bits[i], g[0], g[1])
						if dedup && i > 0 && p == prev {
							continue
						}
						prev = p
						want = append(want, p)
					}
					got, p := pathsOf(ks, g[0], g[1], dedup)
					if p != "" || !eqU64(got, want) {
						c.Fail(7<<50|int64(li)<<12|int64(gi)<<1|int64(d), "PathsOf", "PathsOf/tall-ones", c11Case{Keys: gen.BytesList(ks), From: g[0], W: g[1], Dedup: dedup}, p+hexs(got), hexs(want))
					}
					evals++
				}
			}
			c.Count(evals, evals)
			c.Add("pathsof_calls", evals)
		})
	}
	// PathsOf, windows at every alignment: adjacent keys that agree on their first bytes and differ
	// (or end) in a later one, under EVERY start bit 0..17 × heights {1,4,7,8,9,12,16,17,24,30} - a window
	// that starts inside a byte touches one byte more than ceil(height/8)
	{
		k3 := gen.Strings([]byte{'a', 'b', 'r'}, 3) // 40 keys
		k2 := gen.Strings([]byte{'a', 'b', 'r'}, 2) // 13 keys
		var lists2 [][]string
		for _, x := range k3 {
			for _, y := range k3 {
				lists2 = append(lists2, []string{x, y})
			}
		}
		for _, x := range k2 {
			for _, y := range k2 {
				for _, z := range k2 {
					lists2 = append(lists2, []string{x, y, z})
				}
			}
		}
		var grid2 [][2]int32
		for from := int32(0); from <= 17; from++ {
			for _, h := range []int32{1, 4, 7, 8, 9, 12, 16, 17, 24, 30} {
				grid2 = append(grid2, [2]int32{from, h})
			}
		}
		c.Expect(int64(len(lists2)) * int64(len(grid2)) * 2)
		c.Par(len(lists2), func(li int) {
			ks := lists2[li]
			bits := make([]string, len(ks))
			for i, k := range ks {
				bits[i] = ref.Bits(k)
			}
			var evals int64
			for gi, g := range grid2 {
				for d := 0; d < 2; d++ {
					dedup := d == 1
					want := []uint64{}
					var prev uint64
					for i := range ks {
						p := c11RefPath(bits[i], g[0], g[1])
						if dedup && i > 0 && p == prev {
							continue
						}
						prev = p
						want = append(want, p)
					}
					got, p := pathsOf(ks, g[0], g[1], dedup)
					if p != "" || !eqU64(got, want) {
						c.Fail(6<<50|int64(li)<<12|int64(gi)<<1|int64(d), "PathsOf", "PathsOf/aligned-or-not", c11Case{Keys: gen.BytesList(ks), From: g[0], W: g[1], Dedup: dedup}, p+hexs(got), hexs(want))
					}
					evals++
				}
			}
			c.Count(evals, evals)
			c.Add("pathsof_calls", evals)
		})
	}
}

// c11GiantString: l bytes (l around 2^28), mostly the same generator as the big strings.
func c11GiantString(l int) string {
	b := make([]byte, l)
	for i := range b {
		b[i] = byte(i*167 + i>>7 + 3)
	}
	return unsafe.String(&b[0], len(b))
}

// c11RefBytes is the statement's (k, value) computed from the bytes, in int64
// arithmetic, for strings too long to render as a '0'/'1' string.
func c11RefBytes(s string, from, w int32) (int32, uint64) {
	k := 8*int64(len(s)) - int64(from)
	if k > int64(w) {
		k = int64(w)
	}
	if k <= 0 {
		return 0, 0
	}
	var v uint64
	for j := int64(0); j < k; j++ {
		pos := int64(from) + j
		bit := uint64(s[pos>>3]>>uint(7-pos&7)) & 1
		v = v<<1 | bit
	}
	return int32(k), v << uint(int64(w)-k)
}

func c11Judge(kind string, cs c11Case) (got, want string) {
	if kind == "PathsOfGen" {
		return c11PathsOfGen(cs.GenN, cs.GenStyle, cs.From, cs.W, cs.Dedup)
	}
	s := string(cs.S)
	if cs.Big >= 1<<27 {
		s = c11GiantString(cs.Big)
		switch kind {
		case "FromStr32":
			wk, wv := c11RefBytes(s, cs.From, cs.W)
			k, v, p := fromStr32(s, cs.From, cs.From+cs.W)
			return fmt.Sprintf("%s(%d,%#x)", p, k, v), fmt.Sprintf("(%d,%#x)", wk, wv)
		case "PathOf":
			k, v := c11RefBytes(s, cs.From, cs.W)
			gp, p := pathOf(s, cs.From, cs.W)
			return fmt.Sprintf("%s%#x", p, gp), fmt.Sprintf("%#x", ref.PathWord(v>>uint(cs.W-k), int(k), int(cs.W)))
		}
	}
	if cs.Big > 0 {
		b := make([]byte, cs.Big)
		for i := range b {
			b[i] = byte(i*167 + i>>7 + 3)
		}
		s = string(b)
	}
	bits := ref.Bits(s)
	switch kind {
	case "FromStr32":
		wk, wv := c11Ref(bits, cs.From, cs.W)
		k, v, p := fromStr32(s, cs.From, cs.From+cs.W)
		return fmt.Sprintf("%s(%d,%#x)", p, k, v), fmt.Sprintf("(%d,%#x)", wk, wv)
	case "PathOf":
		gp, p := pathOf(s, cs.From, cs.W)
		return fmt.Sprintf("%s%#x", p, gp), fmt.Sprintf("%#x", c11RefPath(bits, cs.From, cs.W))
	case "PathsOf":
		ks := gen.StringsOf(cs.Keys)
		w := []uint64{}
		for i, k := range ks {
			p := c11RefPath(ref.Bits(k), cs.From, cs.W)
			if cs.Dedup && i > 0 && p == c11RefPath(ref.Bits(ks[i-1]), cs.From, cs.W) {
				continue
			}
			w = append(w, p)
		}
		g, p := pathsOf(ks, cs.From, cs.W, cs.Dedup)
		return p + hexs(g), hexs(w)
	}
	return "unknown kind " + kind, ""
}
