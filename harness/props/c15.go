package props

import (
	"fmt"
	"reflect"
	"sort"
	"strconv"
	"time"
	"unsafe"

	"github.com/openacid/low/bitmap"

	"verif/mc"
)

// C15: TailBitmap never forgets a set bit nor invents one (E2: explicit-state
// BFS whose states are real TailBitmap objects, next to a set-of-ints model).

type c15Op struct {
	Op  string `json:"op"`            // set | compact
	Idx int64  `json:"idx,omitempty"` // absolute bit index for set
}

type c15Case struct {
	Start string  `json:"start"`
	Ops   []c15Op `json:"ops"`
}

func init() {
	mc.Register(&mc.Property{
		ID:     "C15",
		Word32: true,
		Level:  "model_checking",
		Rule: "E2 explicit-state breadth-first search over real TailBitmap objects. Starts (all built with real calls): empty at offset 0/64/640/2^33; three words filled except H holes in forward, backward and interleaved fill order (offset 0 and 64); two starts that cross the real 1024-word reclaim threshold (1023 full words then holes; words 1..1025 full with the holes in word 0, so one Set compacts >1024 words), and five more in which a bit was set FAR AHEAD first (at word 2046, 2047, 2048, 2049, 4000), so that the tail surviving the compaction across the threshold is 1023, 1024, 1025, 1026 and ~3000 words long; two starts in which EXACTLY the 1024 words of the first buffer are full and nothing beyond was ever set (tail empty, buffer used up); and RUNS of k = 1..17, 31..33, 63..65, 127..129 completely set words (completed back to front) between a first word with two holes and a partial word behind the run. " +
			"Alphabet per state: Set(every hole), Set below Offset (0, -1, Offset-1, Offset-5, Offset-63, Offset-64, Offset-65: negative indexes when the offset is 0), Set beyond the end (end+1, end+129, while the bitmap has grown < 130 bits), Set of an already-set bit, Compact. Successors are produced by cloning the object - into a buffer of exactly the capacity Words has in the real evolution, so that append and re-slicing continue as on the original - and calling the real method; the state key is every field the implementation can read (Offset, Words, all unexported fields through reflect) and the capacity of Words. " +
			"After EVERY transition (before deduplication): Get/Get1 on the whole window [Offset-130, end) ∪ {0, o-1, -1, -64, -65} (negative positions included: they lie below the offset) against the model (when more than 1024 bits are stored: every bit within 66 of Offset, the end, every hole, every position ever set and the operation's index, plus the first and last bit of every stored word), Offset ≡ 0 mod 64 and monotone, no 0 bit skipped, first stored word ≠ all-ones after Set, highest index ever set < end, Compact changes no Get. Every discovered state is additionally re-reached by replaying its shortest path on a freshly built object (differential: cloned chain vs fresh replay), and every eighth state (and every state of depth ≤3) once more with a second, unrelated TailBitmap operated between the steps (objects must not share state). Non-trivial transitions: those that change the state.",
		Assumptions: []string{
			"histories are those reachable with the per-start alphabet; the search is complete for that alphabet (all reachable states, every operation from every state)",
			"the clone copies every field by struct copy plus a deep copy of Words; hidden state outside the struct would be caught only by the fresh-replay pass",
		},
		Run:   c15Run,
		Judge: mc.JudgeOf(c15Judge),
	})
}

// ---- model

type c15Model struct {
	o      int64
	base   map[int64]bool // shared, immutable after the start is built
	baseW  []uint64       // bitset form of base relative to o (for the fast membership test)
	added  []int64        // sorted
	maxSet int64
}

func (m *c15Model) has(j int64) bool {
	if j < m.o {
		return true
	}
	r := j - m.o
	if r>>6 < int64(len(m.baseW)) && m.baseW[r>>6]>>uint(r&63)&1 == 1 {
		return true
	}
	k := sort.Search(len(m.added), func(i int) bool { return m.added[i] >= j })
	return k < len(m.added) && m.added[k] == j
}

func (m *c15Model) with(j int64) *c15Model {
	if j < m.o || m.has(j) {
		return m
	}
	n := &c15Model{o: m.o, base: m.base, baseW: m.baseW, maxSet: m.maxSet}
	n.added = append(append([]int64(nil), m.added...), j)
	sort.Slice(n.added, func(a, b int) bool { return n.added[a] < n.added[b] })
	if j > n.maxSet {
		n.maxSet = j
	}
	return n
}

// ---- starts

type c15Start struct {
	name  string
	build func() *bitmap.TailBitmap // fresh object, real calls only
	model func() *c15Model
	holes []int64
}

func c15FillExcept(o int64, firstWord, nWords int, holes map[int64]bool, order string) []int64 {
	var idx []int64
	for w := firstWord; w < firstWord+nWords; w++ {
		for b := 0; b < 64; b++ {
			j := o + int64(w)*64 + int64(b)
			if !holes[j] {
				idx = append(idx, j)
			}
		}
	}
	switch order {
	case "backward":
		for i, j := 0, len(idx)-1; i < j; i, j = i+1, j-1 {
			idx[i], idx[j] = idx[j], idx[i]
		}
	case "interleaved":
		var a []int64
		for i, j := 0, len(idx)-1; i <= j; i, j = i+1, j-1 {
			a = append(a, idx[i])
			if i != j {
				a = append(a, idx[j])
			}
		}
		idx = a
	}
	return idx
}

func c15MkStart(name string, o int64, fill []int64, holes []int64) c15Start {
	return c15Start{
		name:  name,
		holes: holes,
		build: func() *bitmap.TailBitmap {
			tb := bitmap.NewTailBitmap(o)
			for _, j := range fill {
				tb.Set(j)
			}
			return tb
		},
		model: func() *c15Model {
			m := &c15Model{o: o, base: map[int64]bool{}, maxSet: -1}
			for _, j := range fill {
				m.base[j] = true
				r := j - o
				for int64(len(m.baseW)) <= r>>6 {
					m.baseW = append(m.baseW, 0)
				}
				m.baseW[r>>6] |= 1 << uint(r&63)
				if j > m.maxSet {
					m.maxSet = j
				}
			}
			return m
		},
	}
}

func c15Starts(thorough bool) []c15Start {
	var out []c15Start
	rel := []int64{0, 1, 63, 64, 65, 127, 128, 190, 191}
	if thorough {
		rel = []int64{0, 1, 63, 64, 65, 127, 128, 190, 191, 31, 100, 129}
	}
	for _, o := range []int64{0, 64, 640, 1 << 33} {
		var holes []int64
		for _, r := range rel {
			holes = append(holes, o+r)
		}
		out = append(out, c15MkStart(fmt.Sprintf("empty@%d/h%d", o, len(rel)), o, nil, holes))
	}
	for _, o := range []int64{0, 64} {
		for _, order := range []string{"forward", "backward", "interleaved"} {
			hs := map[int64]bool{}
			var holes []int64
			for _, r := range rel {
				hs[o+r] = true
				holes = append(holes, o+r)
			}
			out = append(out, c15MkStart(fmt.Sprintf("prefilled3/%s@%d/h%d", order, o, len(rel)), o, c15FillExcept(o, 0, 3, hs, order), holes))
		}
	}
	// threshold A: words 0..1022 full (forward), then words 1023..1025 with holes
	{
		hs := map[int64]bool{}
		var holes []int64
		for _, r := range rel {
			j := int64(1023)*64 + r
			hs[j] = true
			holes = append(holes, j)
		}
		fill := c15FillExcept(0, 0, 1023, nil, "forward")
		fill = append(fill, c15FillExcept(0, 1023, 3, hs, "forward")...)
		out = append(out, c15MkStart(fmt.Sprintf("threshold/1023-full-then-holes/h%d", len(rel)), 0, fill, holes))
	}
	// threshold B: words 1..1025 full first, holes in word 0 and in words 1026..1027
	{
		hs := map[int64]bool{}
		var holes []int64
		for _, j := range []int64{0, 1, 63, 1026 * 64, 1026*64 + 1, 1026*64 + 63, 1027 * 64, 1027*64 + 62, 1027*64 + 63} {
			hs[j] = true
			holes = append(holes, j)
		}
		fill := c15FillExcept(0, 1, 1025, nil, "forward")
		fill = append(fill, c15FillExcept(0, 0, 1, hs, "backward")...)
		fill = append(fill, c15FillExcept(0, 1026, 2, hs, "forward")...)
		out = append(out, c15MkStart("threshold/holes-in-word0-under-1025-full-words", 0, fill, holes))
	}
	// threshold C: as A, but with one bit set FAR AHEAD first, so that the tail that survives the
	// compaction across the reclaim threshold is exactly 1024 words, one more, and much longer
	for _, farWord := range []int64{1023 + 1023, 1023 + 1024, 1023 + 1025, 1023 + 1026, 4000} {
		hs := map[int64]bool{}
		var holes []int64
		for _, r := range []int64{0, 1, 63, 64, 127} {
			j := int64(1023)*64 + r
			hs[j] = true
			holes = append(holes, j)
		}
		fill := []int64{farWord*64 + 5}
		fill = append(fill, c15FillExcept(0, 0, 1023, nil, "forward")...)
		fill = append(fill, c15FillExcept(0, 1023, 2, hs, "forward")...)
		out = append(out, c15MkStart(fmt.Sprintf("threshold/far-bit-at-word-%d-then-1023-full-then-holes", farWord), 0, fill, holes))
	}
	// threshold D: EXACTLY the 1024 words of the first buffer filled front to back and nothing beyond them ever
	// set: the tail is empty and the buffer is used up to its last slot (len 0, cap 0) when the next Set
	// arrives - in the first word behind Offset, one word further on, or two
	for _, o := range []int64{0, 64} {
		var holes []int64
		for _, r := range []int64{0, 1, 63, 64 + 5, 128 + 63} {
			holes = append(holes, o+1024*64+r)
		}
		out = append(out, c15MkStart(fmt.Sprintf("threshold/exactly-1024-full-words-nothing-beyond@%d", o), o, c15FillExcept(o, 0, 1024, nil, "forward"), holes))
	}
	// RUNS of k completely set words between a first word with holes and a partial word behind them, for every
	// k = 1..17 and around 32, 64, 128: the words of the run are completed BEFORE the first word (back to
	// front), so that the Set of the last hole of the first word makes Compact skip the whole run and stop at
	// the partial word - wherever a block-wise or searching Compact would look (every run length is its own
	// alignment of the partial word inside a block of 2, 4, 8, 16 words)
	var runs []int
	for k := 1; k <= 17; k++ {
		runs = append(runs, k)
	}
	runs = append(runs, 31, 32, 33, 63, 64, 65, 127, 128, 129)
	for _, k := range runs {
		for _, o := range []int64{0, 640} {
			if o != 0 && k > 17 {
				continue
			}
			hs := map[int64]bool{}
			var holes []int64
			for _, j := range []int64{o, o + 63, o + int64(k+1)*64, o + int64(k+1)*64 + 63} {
				hs[j] = true
				holes = append(holes, j)
			}
			fill := c15FillExcept(o, 1, k, nil, "backward")
			fill = append(fill, c15FillExcept(o, k+1, 1, hs, "forward")...)
			fill = append(fill, c15FillExcept(o, 0, 1, hs, "forward")...)
			out = append(out, c15MkStart(fmt.Sprintf("run/%d-full-words-between-holes@%d", k, o), o, fill, holes))
		}
	}
	return out
}

// ---- real-object helpers

func c15Clone(tb *bitmap.TailBitmap) *bitmap.TailBitmap {
	return c15CloneCap(tb, cap(tb.Words))
}

// c15CloneCap copies the object into a buffer of exactly the capacity the original has in its real
// evolution (wcap): what append and re-slicing do next depends on len and cap only, so the clone
// continues exactly as the original would - the spare capacity of Words is part of the state.
func c15CloneCap(tb *bitmap.TailBitmap, wcap int) *bitmap.TailBitmap {
	n := *tb // copies unexported fields too
	if wcap < len(tb.Words) {
		wcap = len(tb.Words)
	}
	n.Words = make([]uint64, len(tb.Words), wcap)
	copy(n.Words, tb.Words)
	return &n
}

// c15Shrink moves Words into a buffer without spare capacity (stored states keep their real capacity
// as a number, not as memory) and returns the capacity it had.
func c15Shrink(tb *bitmap.TailBitmap) int {
	wcap := cap(tb.Words)
	w := make([]uint64, len(tb.Words))
	copy(w, tb.Words)
	tb.Words = w
	return wcap
}

// c15KeyCap is the state key of an object whose Words have capacity wcap in the real evolution.
func c15KeyCap(tb *bitmap.TailBitmap, wcap int) string {
	return c15Key(tb) + "cap=" + strconv.Itoa(wcap)
}

// c15Key is the canonical state key: every field of the struct, exported or not.
func c15Key(tb *bitmap.TailBitmap) string {
	b := make([]byte, 0, 64+9*len(tb.Words))
	v := reflect.ValueOf(tb).Elem()
	for i := 0; i < v.NumField(); i++ {
		f := v.Field(i)
		switch f.Kind() {
		case reflect.Int, reflect.Int64, reflect.Int32:
			b = strconv.AppendInt(b, f.Int(), 10)
		case reflect.Uint, reflect.Uint64, reflect.Uint32:
			b = strconv.AppendUint(b, f.Uint(), 10)
		case reflect.Bool:
			b = strconv.AppendBool(b, f.Bool())
		case reflect.Slice:
			b = append(b, '[')
			b = strconv.AppendInt(b, int64(f.Len()), 10)
			b = append(b, ':')
			if ws, ok := c15Uint64s(f); ok {
				for _, w := range ws {
					b = strconv.AppendUint(b, w, 16)
					b = append(b, ',')
				}
			} else {
				for k := 0; k < f.Len(); k++ {
					e := f.Index(k)
					switch e.Kind() {
					case reflect.Uint64, reflect.Uint, reflect.Uint32, reflect.Uint8:
						b = strconv.AppendUint(b, e.Uint(), 16)
					case reflect.Int64, reflect.Int, reflect.Int32:
						b = strconv.AppendInt(b, e.Int(), 16)
					default:
						b = append(b, '?')
					}
					b = append(b, ',')
				}
			}
			b = append(b, ']')
		default:
			b = append(b, '?')
			b = append(b, f.Kind().String()...)
		}
		b = append(b, '|')
	}
	return string(b)
}

// c15Uint64s reads a []uint64 field (exported or not) without per-element reflection.
func c15Uint64s(f reflect.Value) ([]uint64, bool) {
	if f.Type().Elem().Kind() != reflect.Uint64 {
		return nil, false
	}
	n := f.Len()
	if n == 0 {
		return nil, true
	}
	return unsafe.Slice((*uint64)(f.Index(0).Addr().UnsafePointer()), n), true
}

func c15Apply(tb *bitmap.TailBitmap, op c15Op) (p string) {
	defer func() {
		if e := recover(); e != nil {
			p = fmt.Sprint("panic: ", e)
		}
	}()
	if op.Op == "compact" {
		tb.Compact()
	} else {
		tb.Set(op.Idx)
	}
	return ""
}

func c15Get(tb *bitmap.TailBitmap, j int64) (g, g1 uint64, p bool) {
	defer func() {
		if recover() != nil {
			p = true
		}
	}()
	return tb.Get(j), tb.Get1(j), false
}

func c15End(tb *bitmap.TailBitmap) int64 { return tb.Offset + 64*int64(len(tb.Words)) }

// c15Invariant checks the full invariant on a post-state; prev is the pre-state.
func c15Invariant(prev, cur *bitmap.TailBitmap, m *c15Model, op c15Op, holes []int64) string {
	if cur.Offset%64 != 0 {
		return fmt.Sprintf("Offset %d is not a multiple of 64", cur.Offset)
	}
	if cur.Offset < prev.Offset {
		return fmt.Sprintf("Offset decreased %d -> %d", prev.Offset, cur.Offset)
	}
	for j := prev.Offset; j < cur.Offset; j++ {
		if !m.has(j) {
			return fmt.Sprintf("Offset moved past bit %d which is still 0", j)
		}
	}
	end := c15End(cur)
	if m.maxSet >= end {
		return fmt.Sprintf("highest index ever set %d is not below the end of the stored words %d", m.maxSet, end)
	}
	if op.Op == "set" && len(cur.Words) > 0 && cur.Words[0] == ^uint64(0) {
		return "first stored word is all-ones after Set"
	}
	lo := cur.Offset - 130 // negative for small offsets: positions below 0 are "below the offset" too
	probe := func(j int64) string {
		if j >= end {
			return ""
		}
		g, g1, p := c15Get(cur, j)
		var w uint64
		if m.has(j) {
			w = 1
		}
		if p || g1 != w || g != w<<uint(j&63) {
			return fmt.Sprintf("Get(%d)=%#x Get1(%d)=%d panic=%v, model says bit=%d", j, g, j, g1, p, w)
		}
		if op.Op == "compact" {
			pg, pg1, pp := c15Get(prev, j)
			if pp != p || pg != g || pg1 != g1 {
				return fmt.Sprintf("Compact changed Get(%d): %#x -> %#x", j, pg, g)
			}
		}
		return ""
	}
	if end-lo <= 1024 {
		for j := lo; j < end; j++ {
			if s := probe(j); s != "" {
				return s
			}
		}
	} else {
		// very long stored regions (threshold starts): every bit within 66 of Offset,
		// of the end, of every hole / position ever added and of the operation's index,
		// plus the first and last bit of every stored word
		var centres []int64
		centres = append(centres, cur.Offset, end, prev.Offset, op.Idx)
		centres = append(centres, holes...)
		centres = append(centres, m.added...)
		centres = append(centres, m.maxSet) // a bit set far ahead of the contiguous prefix
		for _, x := range centres {
			for j := x - 66; j <= x+66; j++ {
				if j >= lo {
					if s := probe(j); s != "" {
						return s
					}
				}
			}
		}
		for w := cur.Offset; w < end; w += 64 {
			if s := probe(w); s != "" {
				return s
			}
			if s := probe(w + 63); s != "" {
				return s
			}
		}
	}
	for _, j := range []int64{0, m.o - 1, -1, -64, -65} {
		if s := probe(j); s != "" {
			return s
		}
	}
	return ""
}

type c15Node struct {
	tb     *bitmap.TailBitmap
	wcap   int // capacity of tb.Words in the real evolution (tb itself is stored without spare capacity)
	model  *c15Model
	parent int
	op     c15Op
	depth  int
}

func c15Path(nodes []c15Node, i int) []c15Op {
	var ops []c15Op
	for i > 0 {
		ops = append(ops, nodes[i].op)
		i = nodes[i].parent
	}
	for a, b := 0, len(ops)-1; a < b; a, b = a+1, b-1 {
		ops[a], ops[b] = ops[b], ops[a]
	}
	return ops
}

// c15Enabled lists the operations explored from a state.
func c15Enabled(st c15Start, tb *bitmap.TailBitmap, startEnd int64) []c15Op {
	var ops []c15Op
	for _, h := range st.holes {
		ops = append(ops, c15Op{"set", h})
	}
	ops = append(ops, c15Op{"set", st.holes[0] + 2}) // set in prefilled starts, one more hole in empty ones
	// below the offset - for offset 0 that means NEGATIVE indexes ("j < o" has no lower end): just below,
	// one word below, at both ends of the word below, and the absolute positions 0 and -1
	seen := map[int64]bool{}
	for _, j := range []int64{0, -1, tb.Offset - 1, tb.Offset - 5, tb.Offset - 63, tb.Offset - 64, tb.Offset - 65} {
		if (j < tb.Offset || j == 0) && !seen[j] {
			seen[j] = true
			ops = append(ops, c15Op{"set", j})
		}
	}
	end := c15End(tb)
	if end-startEnd < 130 {
		ops = append(ops, c15Op{"set", end + 1}, c15Op{"set", end + 129})
	}
	ops = append(ops, c15Op{Op: "compact"})
	return ops
}

func c15Run(c *mc.Ctx) {
	c.NoExpect()
	starts := c15Starts(c.Thorough)
	c.Set("starts", len(starts))
	c.Par(len(starts), func(si int) {
		st := starts[si]
		t0 := time.Now()
		root := st.build()
		m0 := st.model()
		startEnd := c15End(root)
		if startEnd < m0.o+192 {
			startEnd = m0.o + 192 // empty starts may grow to the three hole words first
		}
		// the start itself must satisfy the Get part of the invariant
		if s := c15Invariant(root, root, m0, c15Op{Op: "start"}, st.holes); s != "" {
			c.Fail(int64(si)<<40, "history", "history", c15Case{Start: st.name, Ops: nil}, s, "invariant holds")
		}
		rootCap := c15Shrink(root)
		nodes := []c15Node{{tb: root, wcap: rootCap, model: m0, parent: -1}}
		index := map[string]int{c15KeyCap(root, rootCap): 0}
		var trans, changed, maxDepth int64
		for head := 0; head < len(nodes); head++ {
			if c.Expired() {
				c.Cap("time budget reached during the state search of start " + st.name)
				break
			}
			n := nodes[head]
			for _, op := range c15Enabled(st, n.tb, startEnd) {
				nt := c15CloneCap(n.tb, n.wcap)
				p := c15Apply(nt, op)
				nm := n.model
				if op.Op == "set" {
					nm = nm.with(op.Idx)
				}
				trans++
				viol := p
				if viol == "" {
					viol = c15Invariant(n.tb, nt, nm, op, st.holes)
				}
				if viol != "" {
					c.Fail(int64(si)<<40|trans, "history", "history", c15Case{Start: st.name, Ops: append(c15Path(nodes, head), op)}, viol, "invariant holds")
					continue
				}
				wc := c15Shrink(nt)
				k := c15KeyCap(nt, wc)
				if _, ok := index[k]; !ok {
					index[k] = len(nodes)
					nodes = append(nodes, c15Node{tb: nt, wcap: wc, model: nm, parent: head, op: op, depth: n.depth + 1})
					if int64(n.depth+1) > maxDepth {
						maxDepth = int64(n.depth + 1)
					}
				}
				if k != c15KeyCap(n.tb, n.wcap) {
					changed++
				}
			}
			if c.TooMany() {
				break
			}
		}
		tSearch := time.Since(t0).Seconds()
		// differential pass: re-reach every state by replaying its shortest path on a fresh object
		var replays, bystanders int64
		for i := 1; i < len(nodes); i++ {
			if c.Expired() || c.TooMany() {
				c.Cap("time budget reached during the fresh-replay pass of start " + st.name)
				break
			}
			fresh := st.build()
			path := c15Path(nodes, i)
			for _, op := range path {
				c15Apply(fresh, op)
			}
			replays++
			if c15KeyCap(fresh, cap(fresh.Words)) != c15KeyCap(nodes[i].tb, nodes[i].wcap) {
				c.Fail(int64(si)<<40|1<<39|int64(i), "replay", "replay", c15Case{Start: st.name, Ops: path}, "state reached on a fresh object: "+clipS(c15KeyCap(fresh, cap(fresh.Words))), "state reached through clones: "+clipS(c15KeyCap(nodes[i].tb, nodes[i].wcap)))
			}
			// bystander: the same history with a second, unrelated TailBitmap operated between the
			// steps must end in the same state (objects do not share state)
			if i%8 == 1 || len(path) <= 3 {
				a := st.build()
				b := bitmap.NewTailBitmap(128)
				for k, op := range path {
					b.Set(int64(128 + (k*37)%200))
					c15Apply(a, op)
					b.Compact()
					b.Set(int64(128 + k))
				}
				bystanders++
				if c15KeyCap(a, cap(a.Words)) != c15KeyCap(fresh, cap(fresh.Words)) {
					c.Fail(int64(si)<<40|1<<38|int64(i), "bystander", "bystander", c15Case{Start: st.name, Ops: path}, "with a second TailBitmap operated in between: "+clipS(c15KeyCap(a, cap(a.Words))), "with a second TailBitmap operated in between: "+clipS(c15KeyCap(fresh, cap(fresh.Words))))
				}
			}
		}
		c.Add("states", int64(len(nodes)))
		c.Add("transitions", trans)
		c.Add("traces_validated_against_impl", trans+replays)
		c.Add("fresh_replays", replays)
		c.Add("bystander_replays", bystanders)
		c.Count(trans, changed)
		c.Max("max_depth", maxDepth)
		c.Set("start/"+st.name, map[string]interface{}{"states": int64(len(nodes)), "transitions": trans, "max_depth": maxDepth, "search_s": tSearch, "total_s": time.Since(t0).Seconds()})
		if len(nodes) > 5 {
			c.ForceSample(c15Case{Start: st.name, Ops: c15Path(nodes, len(nodes)-1)})
		}
	})
}

func clipS(s string) string {
	if len(s) > 300 {
		return s[:140] + " … " + s[len(s)-140:]
	}
	return s
}

func c15Judge(kind string, cs c15Case) (got, want string) {
	var st *c15Start
	for _, th := range []bool{false, true} {
		for _, s := range c15Starts(th) {
			if s.name == cs.Start && st == nil {
				s := s
				st = &s
			}
		}
	}
	if st == nil {
		return "unknown start " + cs.Start, ""
	}
	tb := st.build()
	m := st.model()
	switch kind {
	case "history":
		if s := c15Invariant(tb, tb, m, c15Op{Op: "start"}, st.holes); s != "" {
			return s, "invariant holds"
		}
		for i, op := range cs.Ops {
			prev := c15Clone(tb)
			if p := c15Apply(tb, op); p != "" {
				return fmt.Sprintf("step %d %v: %s", i, op, p), "invariant holds"
			}
			if op.Op == "set" {
				m = m.with(op.Idx)
			}
			if s := c15Invariant(prev, tb, m, op, st.holes); s != "" {
				return fmt.Sprintf("step %d %v: %s", i, op, s), "invariant holds"
			}
		}
		return "invariant holds", "invariant holds"
	case "bystander":
		a := st.build()
		b := bitmap.NewTailBitmap(128)
		for k, op := range cs.Ops {
			b.Set(int64(128 + (k*37)%200))
			c15Apply(a, op)
			b.Compact()
			b.Set(int64(128 + k))
			c15Apply(tb, op)
		}
		return "with a second TailBitmap operated in between: " + clipS(c15KeyCap(a, cap(a.Words))), "with a second TailBitmap operated in between: " + clipS(c15KeyCap(tb, cap(tb.Words)))
	case "replay":
		// clone after every step vs no clone at all
		cl := st.build()
		wc := c15Shrink(cl)
		for _, op := range cs.Ops {
			c15Apply(tb, op)
			cl = c15CloneCap(cl, wc)
			c15Apply(cl, op)
			wc = c15Shrink(cl)
		}
		return "state reached on a fresh object: " + clipS(c15KeyCap(tb, cap(tb.Words))), "state reached through clones: " + clipS(c15KeyCap(cl, wc))
	}
	return "unknown kind " + kind, ""
}
