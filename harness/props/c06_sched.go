//go:build verifsched

package props

import (
	"encoding/json"
	"fmt"
	"os"
	"strings"
	"time"

	"github.com/openacid/low/verifsched"

	"verif/mc"
)

// The scheduled part of C06 (engine E4 on the instrumented pbcmpl package): every
// unordered pair of {Marshal, Unmarshal} × 7 frames as a 2-thread program, each
// thread with its own message, writer and reader, every schedule with at most 2
// (thorough 3) preemptions. Oracle: each thread meets the per-frame obligations of
// the statement exactly as it does alone. Callers share nothing, so whatever one
// call can see of another goes through state of the package itself.

func init() {
	mc.RegisterWorker("c06sched", c06SchedWorker)
}

type c06SchedOut struct {
	Programs, Schedules, Points, Preempted int64
	MaxPoints                              int
	Stuck                                  []string
	Viols                                  []mc.Viol
}

func c06SchedFrames() []c06Frame {
	return append(c06SubAlphabet(), c06Frame{Kind: "pb", Payload: 34})
}

// c06SchedBody returns the body of one thread: op is "marshal" or "unmarshal".
func c06SchedBody(op string, f c06Frame) func() string {
	return func() string {
		var g, w string
		if op == "marshal" {
			g, w = c06MarshalOne(f)
		} else {
			g, w, _ = c06Stream([]c06Frame{f}, mc.NewEnv(nil), 0)
		}
		if g == w {
			return "ok"
		}
		return "got " + g + " WANT " + w
	}
}

func c06SchedPrograms() (ops []string, frames []c06Frame, pairs [][2]int) {
	for _, op := range []string{"marshal", "unmarshal"} {
		for _, f := range c06SchedFrames() {
			ops = append(ops, op)
			frames = append(frames, f)
		}
	}
	for a := range ops {
		for b := a; b < len(ops); b++ {
			pairs = append(pairs, [2]int{a, b})
		}
	}
	return
}

func c06SchedWorker(args []string) int {
	if len(args) == 0 {
		return 2
	}
	switch args[0] {
	case "schedules":
		bound := 2
		if len(args) > 1 && args[1] == "thorough" {
			bound = 3
		}
		var out c06SchedOut
		ops, frames, pairs := c06SchedPrograms()
		// warm-up: every body once, alone
		for i := range ops {
			if r := c06SchedBody(ops[i], frames[i])(); r != "ok" {
				cs, _ := json.Marshal(c06Case{Frames: []c06Frame{frames[i]}, Std: ops[i]})
				out.Viols = append(out.Viols, mc.Viol{Order: int64(i), Kind: "schedule", Class: "schedule/alone", Case: cs, Got: r, Want: "ok"})
			}
		}
		for pi, pr := range pairs {
			bodies := []func() string{c06SchedBody(ops[pr[0]], frames[pr[0]]), c06SchedBody(ops[pr[1]], frames[pr[1]])}
			nviol := 0
			st := mc.ExploreSchedules(bodies, bound, func(f func(int)) { verifsched.Hook = f }, 5*time.Second, func(e *mc.SchedExec) {
				for ti, t := range e.Threads {
					if t.Result != "ok" && nviol < 2 && len(out.Viols) < 40 {
						nviol++
						cs, _ := json.Marshal(c06Case{Frames: []c06Frame{frames[pr[0]], frames[pr[1]]}, Std: ops[pr[0]] + "," + ops[pr[1]], Choices: e.Choices()})
						out.Viols = append(out.Viols, mc.Viol{Order: int64(1000 + pi*4 + ti), Kind: "schedule", Class: "schedule", Case: cs,
							Got: fmt.Sprintf("thread %d (%s): %s", ti, []string{ops[pr[0]], ops[pr[1]]}[ti], t.Result), Want: "every thread: ok (as when it runs alone)"})
					}
				}
			})
			out.Programs++
			out.Schedules += st.Schedules
			out.Points += st.Points
			if st.MaxPoints > out.MaxPoints {
				out.MaxPoints = st.MaxPoints
			}
			if st.Stuck {
				out.Stuck = append(out.Stuck, fmt.Sprint(ops[pr[0]], frames[pr[0]], " | ", ops[pr[1]], frames[pr[1]]))
			}
		}
		b, _ := json.Marshal(out)
		os.Stdout.Write(b)
		return 0
	case "judge":
		var cs c06Case
		if len(args) < 2 || json.Unmarshal([]byte(args[1]), &cs) != nil {
			return 2
		}
		g, w := c06SchedJudge(cs)
		b, _ := json.Marshal([2]string{g, w})
		os.Stdout.Write(b)
		return 0
	}
	return 2
}

func c06SchedJudge(cs c06Case) (got, want string) {
	ops := strings.Split(cs.Std, ",")
	if len(ops) != len(cs.Frames) {
		return "malformed case", ""
	}
	var bodies []func() string
	for i := range ops {
		bodies = append(bodies, c06SchedBody(ops[i], cs.Frames[i]))
		bodies[i]() // warm-up, as in the run
	}
	want = strings.Repeat("ok ", len(ops))
	if len(ops) == 1 {
		return bodies[0]() + " ", want
	}
	e, err := mc.RunSchedule(bodies, cs.Choices, func(f func(int)) { verifsched.Hook = f }, 5*time.Second)
	if err != nil {
		return "stuck: " + err.Error(), want
	}
	for _, t := range e.Threads {
		got += t.Result + " "
	}
	return got, want
}
