// Package model declares a type whose reflect.Type.String() ("model.Rec") and
// Name() are identical to those of verif/props/c20y/model.Rec, a different type.
package model

type Rec struct {
	A byte
}
