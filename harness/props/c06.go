package props

import (
	"bufio"
	"bytes"
	"crypto/sha1"
	"encoding/binary"
	"encoding/json"
	"fmt"
	"io"
	"os"
	"os/exec"
	"strings"

	proto "github.com/golang/protobuf/proto"
	"github.com/golang/protobuf/ptypes/wrappers"

	"github.com/openacid/low/pbcmpl"

	"verif/gen"
	"verif/mc"
)

// C06: pbcmpl frames round-trip (E3: scripted reader with chunking deviations).

type c06Frame struct {
	Kind    string    `json:"kind"` // pb | pbv | legacy | legacyv
	Payload int       `json:"payload_len"`
	Version gen.Bytes `json:"version,omitempty"` // versioned kinds only
}

type c06Case struct {
	Frames  []c06Frame `json:"frames"`
	Choices []int      `json:"choices,omitempty"` // E3 choice vector of the scripted reader
	Uniform int        `json:"uniform_chunk,omitempty"`
	Cut     int        `json:"cut_at,omitempty"`             // one forced short read ending exactly at this stream offset
	Std     string     `json:"std_type,omitempty"`           // a standard-library reader / writer type
	Empty   int        `json:"empty_every,omitempty"`        // > 0: every Empty-th call of the reader returns (0, nil) (a polling source)
	TVer    *string    `json:"target_version_at_first,omitempty"` // streams into one reused versioned target (c06StreamReusedVersioned)
	Sizer   string     `json:"sizing_call_before,omitempty"` // histories on one message object (c06MutJudge): zoo_message names the history
	Zoo     string     `json:"zoo_message,omitempty"`        // an entry of the message zoo (c06_zoo.go), read with uniform_chunk
}

func init() {
	mc.Register(&mc.Property{
		ID:     "C06",
		Word32: true,
		Level:  "model_checking",
		Rule: "Scheduled part (E4 on the instrumented pbcmpl and iohelper packages): every unordered pair of {Marshal, Unmarshal} × 7 frames as a 2-thread program - each thread with its own message, writer and reader -, every schedule with at most 2 (thorough 3) preemptions; each thread must meet the per-frame obligations exactly as when it runs alone. Sequential part: a MESSAGE ZOO (25 messages of 15 generated types given by their hand-written wire bytes: every wire type, negative varints, nested messages, a map entry, and UNKNOWN FIELDS at top level and inside a nested message; each through Marshal / Size and back through Unmarshal into a fresh and into a dirty reused target, proto.Equal + identical re-encoding + identical Size, with a small frame behind it, under whole / 1-byte / 7-byte chunkings); STREAMS INTO ONE REUSED VERSIONED TARGET whose own GetVersion() is the version of the frame before (every ordered pair and triple of five semantic versions with different majors); MESSAGES WITH THEIR OWN CODEC of several shapes (a struct of fixed-size fields encoding as varints, a type whose Size() counts items and whose Unmarshal MERGES, a type with a ProtoSize() method, empty encodings: Marshal count = Size = 32 + own encoding, read back into fresh and dirty reused targets); HISTORIES ON ONE MESSAGE OBJECT (7 messages with a nested message - repeated element, map value, oneof member, two levels down -: sized by pbcmpl.Marshal / pbcmpl.Size / proto.Size / nothing, then changed INSIDE so that the nested message's encoded length changes, then marshalled without a sizing call in between: the frame is the hand-written encoding of the message as it is then); POLLING readers (every 2nd / 3rd / 5th call returns (0, nil) between pieces of 1 / 7 / 16 / 4096 bytes: hundreds of empty reads per frame, never two in a row; frames on both sides of the 1 MiB switch); a payload-length sweep (EVERY length 0..1100, every threshold length up to 70000 and every length 2^20-16..2^20+2 - bodies on both sides of the 1 MiB switch to an incremental read - × 4 message kinds: per-frame obligations, and read-back with a small frame behind it); encoded BODY lengths m·(2^k − h) and ±1 for k = 9..17, h in {0, 8, 16, 32, 64}, m = 1..3 × 4 message kinds (piece sizes of a chunked writer or reader), same obligations; E3 stateless deviation-bounded DFS over a scripted io.Reader: (frames) every frame of the alphabet {generated protobuf message, its versioned wrapper, legacy Marshal/Unmarshal message, its versioned variant} × payload lengths {0,1,2,31,32,33,127,128,129,5000, 2^20+1 (+65535, 65536, 2^20, 2^21+5 thorough)} × versions (every length 0..16, an interior NUL, a leading NUL, trailing spaces, bytes >= 0x80 that are not valid UTF-8): Marshal's count = bytes written = Size = HeaderSize + encoding length, wire bytes = independently built header + encoding, ReadHeader = (version, 32, length) consuming 32 bytes; " +
			"(histories) every stream of 1..3 frames over a 6-frame sub-alphabet, read back by k+1 Unmarshal calls under every reader chunking with ≤B deviations from 'deliver as much as asked' (deviations: return only j bytes for any j, deliver the last bytes together with io.EOF, one (0,nil) read) plus every uniform chunk size 1..len; every stream also through 11 standard-library reader types and every frame marshalled into 4 standard-library writer types (code may special-case dynamic types); every stream also MARSHALLED frame after frame into one writer (the last message object twice) and read back into reused target messages; three streams in which a frame with a body above 1 MiB is followed by further frames, under whole/uniform chunkings and one forced short read around every frame boundary, body start and power of two; each call must return the next message, its version, n = frame length = bytes actually pulled from the reader, and the extra call (0, cause io.EOF). " +
			"states = choice-tree nodes (= executions), transitions = reader answers given. Non-trivial: executions with at least one deviation or a multi-frame stream.",
		Assumptions: []string{
			"readers respect the io.Reader contract apart from the listed deviations; at most B simultaneous deviations",
			"the protobuf encoding of the payload wrapper (tag 0x0a, varint length) is built by hand as the expected body",
		},
		Run:   c06Run,
		Judge: mc.JudgeOf(c06Judge),
	})
}

// ---- message kinds

type c06Legacy struct{ Data []byte }

func (l *c06Legacy) Marshal() ([]byte, error) { return append([]byte{}, l.Data...), nil }
func (l *c06Legacy) Unmarshal(b []byte) error { l.Data = append([]byte{}, b...); return nil }
func (l *c06Legacy) Reset()                   { l.Data = nil }
func (l *c06Legacy) String() string           { return fmt.Sprintf("%x", l.Data) }
func (l *c06Legacy) ProtoMessage()            {}

type c06LegacyV struct {
	c06Legacy
	ver string
}

func (l *c06LegacyV) GetVersion() string { return l.ver }

type c06PBV struct {
	*wrappers.BytesValue
	ver string
}

func (p *c06PBV) GetVersion() string { return p.ver }

func c06Payload(n int) []byte {
	b := make([]byte, n)
	for i := range b {
		b[i] = byte(i*7 + n*13 + 1)
	}
	return b
}

func c06Msg(f c06Frame) proto.Message {
	p := c06Payload(f.Payload)
	switch f.Kind {
	case "pb":
		return &wrappers.BytesValue{Value: p}
	case "pbv":
		return &c06PBV{&wrappers.BytesValue{Value: p}, string(f.Version)}
	case "legacy":
		return &c06Legacy{p}
	case "legacyv":
		return &c06LegacyV{c06Legacy{p}, string(f.Version)}
	}
	panic("unknown kind " + f.Kind)
}

func c06Empty(kind string) proto.Message {
	switch kind {
	case "pb":
		return &wrappers.BytesValue{}
	case "pbv":
		return &c06PBV{&wrappers.BytesValue{}, "target"}
	case "legacy":
		return &c06Legacy{}
	case "legacyv":
		return &c06LegacyV{c06Legacy{}, "target"}
	}
	panic("unknown kind " + kind)
}

func c06PayloadOf(m proto.Message) []byte {
	switch x := m.(type) {
	case *wrappers.BytesValue:
		return x.Value
	case *c06PBV:
		return x.Value
	case *c06Legacy:
		return x.Data
	case *c06LegacyV:
		return x.Data
	}
	return nil
}

func c06Ver(f c06Frame) string {
	if f.Kind == "pbv" || f.Kind == "legacyv" {
		return string(f.Version)
	}
	return "1.0.0" // DefaultVer, from the statement
}

// c06Enc is the expected message encoding, built by hand.
func c06Enc(f c06Frame) []byte {
	p := c06Payload(f.Payload)
	if f.Kind == "legacy" || f.Kind == "legacyv" {
		return p
	}
	if len(p) == 0 {
		return []byte{}
	}
	var lb [10]byte
	n := binary.PutUvarint(lb[:], uint64(len(p)))
	return append(append([]byte{0x0a}, lb[:n]...), p...)
}

// c06Wire is the expected frame: 16-byte NUL-padded version, 32, body length
// (little endian), then the encoding.
func c06Wire(f c06Frame) []byte {
	enc := c06Enc(f)
	h := make([]byte, 32)
	copy(h, c06Ver(f))
	binary.LittleEndian.PutUint64(h[16:], 32)
	binary.LittleEndian.PutUint64(h[24:], uint64(len(enc)))
	return append(h, enc...)
}

// errCause unwraps Cause()/Unwrap() chains.
func errCause(err error) error {
	for err != nil {
		switch x := err.(type) {
		case interface{ Cause() error }:
			if c := x.Cause(); c != nil && c != err {
				err = c
				continue
			}
		case interface{ Unwrap() error }:
			if c := x.Unwrap(); c != nil {
				err = c
				continue
			}
		}
		break
	}
	return err
}

func errName(err error) string {
	c := errCause(err)
	switch {
	case err == nil:
		return "nil"
	case c == io.EOF:
		return "EOF"
	case c == io.ErrUnexpectedEOF:
		return "ErrUnexpectedEOF"
	case c == pbcmpl.ErrInvalidHeaderSize:
		return "ErrInvalidHeaderSize"
	case c == c07ErrInjected:
		return "injected"
	}
	return "error(" + c.Error() + ")"
}

type c06CountWriter struct{ buf bytes.Buffer }

func (w *c06CountWriter) Write(p []byte) (int, error) { return w.buf.Write(p) }

func digest(b []byte) string {
	if len(b) <= 24 {
		return fmt.Sprintf("%x", b)
	}
	s := sha1.Sum(b)
	return fmt.Sprintf("len%d:sha1:%x", len(b), s[:8])
}

// c06MarshalOne judges the per-frame obligations.
func c06MarshalOne(f c06Frame) (got, want string) {
	defer func() {
		if e := recover(); e != nil {
			got += fmt.Sprint(" panic: ", e)
		}
	}()
	wire := c06Wire(f)
	enc := c06Enc(f)
	want = fmt.Sprintf("n=%d err=nil written=%s Size=%d HeaderSize=32 | ReadHeader n=32 err=nil ver=%q hs=32 bs=%d consumed=32",
		len(wire), digest(wire), len(wire), c06Ver(f), len(enc))
	msg := c06Msg(f)
	w := &c06CountWriter{}
	n, err := pbcmpl.Marshal(w, msg)
	got = fmt.Sprintf("n=%d err=%s written=%s Size=%d HeaderSize=%d", n, errName(err), digest(w.buf.Bytes()), pbcmpl.Size(msg), pbcmpl.HeaderSize(msg))
	r := bytes.NewReader(w.buf.Bytes())
	hn, h, herr := pbcmpl.ReadHeader(r)
	if herr != nil || h == nil {
		got += fmt.Sprintf(" | ReadHeader n=%d err=%s", hn, errName(herr))
		return
	}
	got += fmt.Sprintf(" | ReadHeader n=%d err=nil ver=%q hs=%d bs=%d consumed=%d", hn, h.GetVersion(), h.GetHeaderSize(), h.GetBodySize(), w.buf.Len()-r.Len())
	return
}

// ---- scripted reader

type c06Reader struct {
	data    []byte
	pos     int
	env     *mc.Env
	uniform int
	cut     int // > 0: the read that would cross this offset stops exactly there
	reads   int64
	empty   int // > 0: every empty-th call returns (0, nil), which io.Reader permits (a polling source)
	calls   int64
}

func (r *c06Reader) Read(p []byte) (int, error) {
	if len(p) == 0 {
		return 0, nil
	}
	rem := len(r.data) - r.pos
	if rem == 0 {
		return 0, io.EOF
	}
	r.calls++
	if r.empty > 0 && r.calls%int64(r.empty) == 0 {
		return 0, nil
	}
	r.reads++
	max := len(p)
	if rem < max {
		max = rem
	}
	if r.cut > r.pos && r.cut < r.pos+max {
		max = r.cut - r.pos
	}
	if r.env == nil && r.uniform == 0 {
		copy(p, r.data[r.pos:r.pos+max])
		r.pos += max
		return max, nil
	}
	if r.uniform > 0 {
		n := max
		if r.uniform < n {
			n = r.uniform
		}
		copy(p, r.data[r.pos:r.pos+n])
		r.pos += n
		return n, nil
	}
	// alternatives: 0 = deliver max; 1..max-1 = deliver only j bytes;
	// then (if these are the last bytes of the stream) max bytes together with io.EOF;
	// last = one empty read (0, nil)
	width := max + 1
	last := max == rem
	if last {
		width++
	}
	c := r.env.Choose(width)
	switch {
	case c == 0:
		copy(p, r.data[r.pos:r.pos+max])
		r.pos += max
		return max, nil
	case c < max:
		copy(p, r.data[r.pos:r.pos+c])
		r.pos += c
		return c, nil
	case last && c == max:
		copy(p, r.data[r.pos:r.pos+max])
		r.pos += max
		return max, io.EOF
	}
	return 0, nil
}

// c06Stream runs one execution: k+1 Unmarshal calls on the concatenated frames.
func c06Stream(frames []c06Frame, env *mc.Env, uniform int) (got, want string, reads int64) {
	return c06StreamCut(frames, env, uniform, 0)
}

func c06StreamCut(frames []c06Frame, env *mc.Env, uniform, cut int) (got, want string, reads int64) {
	return c06StreamOpt(frames, env, uniform, cut, 0)
}

func c06StreamOpt(frames []c06Frame, env *mc.Env, uniform, cut, empty int) (got, want string, reads int64) {
	defer func() {
		if e := recover(); e != nil {
			if s, ok := e.(string); ok && len(s) > 3 && s[:3] == "mc:" {
				panic(e)
			}
			got += fmt.Sprint(" panic: ", e)
		}
	}()
	var data []byte
	for _, f := range frames {
		data = append(data, c06Wire(f)...)
	}
	r := &c06Reader{data: data, env: env, uniform: uniform, cut: cut, empty: empty}
	for _, f := range frames {
		wl := len(c06Wire(f))
		want += fmt.Sprintf("[n=%d ver=%q err=nil payload=%s pulled=%d]", wl, c06Ver(f), digest(c06Payload(f.Payload)), wl)
		before := r.pos
		m := c06Empty(f.Kind)
		n, ver, err := pbcmpl.Unmarshal(r, m)
		got += fmt.Sprintf("[n=%d ver=%q err=%s payload=%s pulled=%d]", n, ver, errName(err), digest(c06PayloadOf(m)), r.pos-before)
	}
	want += "[n=0 err=EOF pulled=0]"
	before := r.pos
	n, _, err := pbcmpl.Unmarshal(r, c06Empty("legacy"))
	got += fmt.Sprintf("[n=%d err=%s pulled=%d]", n, errName(err), r.pos-before)
	return got, want, r.reads
}

// c06StreamStd reads the stream back through a standard-library reader type.
func c06StreamStd(frames []c06Frame, kind string) (got, want string) {
	defer func() {
		if e := recover(); e != nil {
			got += fmt.Sprint(" panic: ", e)
		}
	}()
	var data []byte
	for _, f := range frames {
		data = append(data, c06Wire(f)...)
	}
	r := c07StdReader(kind, data)
	for _, f := range frames {
		wl := len(c06Wire(f))
		want += fmt.Sprintf("[n=%d ver=%q err=nil payload=%s]", wl, c06Ver(f), digest(c06Payload(f.Payload)))
		m := c06Empty(f.Kind)
		n, ver, err := pbcmpl.Unmarshal(r, m)
		got += fmt.Sprintf("[n=%d ver=%q err=%s payload=%s]", n, ver, errName(err), digest(c06PayloadOf(m)))
	}
	want += "[n=0 err=EOF]"
	n, _, err := pbcmpl.Unmarshal(r, c06Empty("legacy"))
	got += fmt.Sprintf("[n=%d err=%s]", n, errName(err))
	return got, want
}

// c06MarshalStd marshals into a standard-library writer type.
func c06MarshalStd(f c06Frame, kind string) (got, want string) {
	defer func() {
		if e := recover(); e != nil {
			got += fmt.Sprint(" panic: ", e)
		}
	}()
	wire := c06Wire(f)
	want = fmt.Sprintf("n=%d err=nil written=%s", len(wire), digest(wire))
	var buf bytes.Buffer
	var sb strings.Builder
	var w io.Writer
	var flush func() error
	switch kind {
	case "bytes.Buffer":
		w = &buf
	case "bufio16":
		bw := bufio.NewWriterSize(&buf, 16)
		w, flush = bw, bw.Flush
	case "bufio4096":
		bw := bufio.NewWriterSize(&buf, 4096)
		w, flush = bw, bw.Flush
	case "strings.Builder":
		w = &sb
	}
	n, err := pbcmpl.Marshal(w, c06Msg(f))
	if flush != nil {
		flush()
	}
	out := buf.Bytes()
	if kind == "strings.Builder" {
		out = []byte(sb.String())
	}
	return fmt.Sprintf("n=%d err=%s written=%s", n, errName(err), digest(out)), want
}

// c06StreamReusedVersioned reads a stream of versioned frames into ONE reused target per kind whose own
// GetVersion() is the version of the frame read before (the caller keeps it there), tver at first: what the
// target says about itself must not matter to what is read.
func c06StreamReusedVersioned(frames []c06Frame, tver string) (got, want string) {
	defer func() {
		if e := recover(); e != nil {
			got += fmt.Sprint(" panic: ", e)
		}
	}()
	var data []byte
	for _, f := range frames {
		data = append(data, c06Wire(f)...)
	}
	r := bytes.NewReader(data)
	targets := map[string]proto.Message{}
	for _, f := range frames {
		t := targets[f.Kind]
		if t == nil {
			t = c06Empty(f.Kind)
			targets[f.Kind] = t
			switch x := t.(type) {
			case *c06PBV:
				x.ver = tver
			case *c06LegacyV:
				x.ver = tver
			}
		}
		n, ver, err := pbcmpl.Unmarshal(r, t)
		got += fmt.Sprintf("[n=%d ver=%q err=%s payload=%s]", n, ver, errName(err), digest(c06PayloadOf(t)))
		want += fmt.Sprintf("[n=%d ver=%q err=nil payload=%s]", len(c06Wire(f)), c06Ver(f), digest(c06Payload(f.Payload)))
		switch x := t.(type) {
		case *c06PBV:
			x.ver = ver
		case *c06LegacyV:
			x.ver = ver
		}
	}
	return got, want
}

// c06MarshalSeq marshals the frames of a stream one after the other into ONE
// writer (with the same message object marshalled twice at the end) and reads
// them back into REUSED target messages: state must not be carried between calls.
func c06MarshalSeq(frames []c06Frame) (got, want string) {
	defer func() {
		if e := recover(); e != nil {
			got += fmt.Sprint(" panic: ", e)
		}
	}()
	w := &c06CountWriter{}
	var exp []byte
	var last proto.Message
	for _, f := range frames {
		m := c06Msg(f)
		n, err := pbcmpl.Marshal(w, m)
		wire := c06Wire(f)
		exp = append(exp, wire...)
		got += fmt.Sprintf("[n=%d err=%s]", n, errName(err))
		want += fmt.Sprintf("[n=%d err=nil]", len(wire))
		last = m
	}
	// the same object once more
	lf := frames[len(frames)-1]
	n, err := pbcmpl.Marshal(w, last)
	exp = append(exp, c06Wire(lf)...)
	got += fmt.Sprintf("[again n=%d err=%s]", n, errName(err))
	want += fmt.Sprintf("[again n=%d err=nil]", len(c06Wire(lf)))
	got += " written=" + digest(w.buf.Bytes())
	want += " written=" + digest(exp)
	// read back into one reused target per kind
	targets := map[string]proto.Message{}
	r := bytes.NewReader(w.buf.Bytes())
	all := append(append([]c06Frame{}, frames...), lf)
	for _, f := range all {
		t := targets[f.Kind]
		if t == nil {
			t = c06Empty(f.Kind)
			targets[f.Kind] = t
		}
		n, ver, err := pbcmpl.Unmarshal(r, t)
		got += fmt.Sprintf("[n=%d ver=%q err=%s payload=%s]", n, ver, errName(err), digest(c06PayloadOf(t)))
		want += fmt.Sprintf("[n=%d ver=%q err=nil payload=%s]", len(c06Wire(f)), c06Ver(f), digest(c06Payload(f.Payload)))
	}
	return got, want
}

func c06Versions() []string {
	const base = "1.22.333-rc.4+b56"
	var out []string
	for l := 0; l <= 16; l++ {
		out = append(out, base[:l])
	}
	out = append(out, "1.\x000", " ", "1.0 ", "\x00x")
	// bytes that are not ASCII: Latin-1 text, a binary id, 16 bytes cut in the middle of a UTF-8 sequence, the
	// extremes - a version is at most 16 BYTES not ending in NUL, nothing says they form valid UTF-8
	out = append(out, "caf\xe9-1.0", "\xde\xad\xbe\xef", "v1.0.0-pr\xc3\xa9vu\xc3", "\x80", strings.Repeat("\xff", 16), "h\xc3\xa9llo", "\x01\x7f\x80\xfe")
	// the library's own constant and its neighbours: DefaultVer itself, every proper prefix of it, and
	// versions that EXTEND it by 1..11 bytes (a comparison with the default that looks at a prefix only)
	dv := pbcmpl.DefaultVer
	for l := 1; l <= len(dv); l++ {
		out = append(out, dv[:l])
	}
	const ext = "-rc1+build.7"
	for l := 1; l <= 16-len(dv) && l <= len(ext); l++ {
		out = append(out, dv+ext[:l])
	}
	out = append(out, dv+".1", dv+"1", dv+"\x00x", "0"+dv, dv[:len(dv)-1]+"1")
	return out
}

func c06Frames(thorough bool) []c06Frame {
	lens := []int{0, 1, 2, 31, 32, 33, 127, 128, 129, 5000, 1<<20 + 1}
	if thorough {
		lens = append(lens, 65535, 65536, 1<<20, 2<<20+5)
	}
	var out []c06Frame
	for _, k := range []string{"pb", "legacy"} {
		for _, l := range lens {
			out = append(out, c06Frame{Kind: k, Payload: l})
		}
	}
	for _, k := range []string{"pbv", "legacyv"} {
		for _, l := range lens {
			for _, v := range []string{"2.0.1", "0123456789abcdef"} {
				out = append(out, c06Frame{Kind: k, Payload: l, Version: gen.Bytes(v)})
			}
		}
		for _, l := range []int{0, 33} {
			for _, v := range c06Versions() {
				if v == "2.0.1" {
					continue
				}
				out = append(out, c06Frame{Kind: k, Payload: l, Version: gen.Bytes(v)})
			}
		}
	}
	return out
}

func c06SubAlphabet() []c06Frame {
	return []c06Frame{
		{Kind: "pb", Payload: 0},
		{Kind: "pb", Payload: 3},
		{Kind: "legacy", Payload: 33},
		{Kind: "pbv", Payload: 1, Version: "0123456789abcdef"},
		{Kind: "legacyv", Payload: 0, Version: ""},
		{Kind: "legacyv", Payload: 5, Version: "3.1"},
	}
}

func c06Run(c *mc.Ctx) {
	c.NoExpect()
	B := c.Pick(1, 2)
	c.Set("deviation_bound", B)
	frames := c06Frames(c.Thorough)
	c.Set("frames", len(frames))
	// (frames) per-frame obligations + single-frame read back
	c.Par(len(frames), func(fi int) {
		f := frames[fi]
		g, w := c06MarshalOne(f)
		if g != w {
			c.Fail(int64(fi), "marshal", "marshal", c06Case{Frames: []c06Frame{f}}, g, w)
		}
		c.Count(1, 1)
		c.Add("marshal_cases", 1)
		big := f.Payload > 6000
		var execs, nontriv, points, reads int64
		// chunkings with ≤1 deviation (large payloads: the explorer still branches on every cut, so
		// they get the boundary cuts through uniform chunkings instead)
		if !big {
			st := mc.ExploreDev(1, func(e *mc.Env) {
				g, w, rd := c06Stream([]c06Frame{f}, e, 0)
				reads += rd
				if g != w {
					c.Fail(1<<40|int64(fi)<<20|execs, "stream", "stream", c06Case{Frames: []c06Frame{f}, Choices: append([]int(nil), e.Choices...)}, g, w)
				}
				if e.Deviations() > 0 {
					nontriv++
				}
			})
			execs += st.Executions
			points += st.Points
			c.Max("max_choice_points", int64(st.MaxPoints))
		}
		// uniform chunkings
		wl := len(c06Wire(f))
		var sizes []int
		if big {
			sizes = []int{1 << 12, 1 << 16, wl - 1, wl, 4097, 31, 33}
		} else {
			for s := 1; s <= wl; s++ {
				sizes = append(sizes, s)
			}
		}
		for _, s := range sizes {
			g, w, rd := c06Stream([]c06Frame{f}, nil, s)
			reads += rd
			points += rd
			execs++
			nontriv++
			if g != w {
				c.Fail(2<<40|int64(fi)<<20|int64(s), "stream", "stream", c06Case{Frames: []c06Frame{f}, Uniform: s}, g, w)
			}
		}
		c.Count(execs, nontriv)
		c.Add("states", execs)
		c.Add("transitions", points)
		c.Add("single_frame_executions", execs)
	})
	c.ForceSample(map[string]interface{}{"frame": frames[len(frames)/2], "wire_digest": digest(c06Wire(frames[len(frames)/2]))})
	// (histories) streams of 1..3 frames
	sub := c06SubAlphabet()
	var streams [][]c06Frame
	for l := 1; l <= 3; l++ {
		gen.Product(len(sub), l, func(ix []int) {
			s := make([]c06Frame, l)
			for i, k := range ix {
				s[i] = sub[k]
			}
			streams = append(streams, s)
		})
	}
	c.Set("streams", len(streams))
	c.Par(len(streams), func(si int) {
		if c.TooMany() {
			return
		}
		if c.Expired() {
			c.Cap("time budget reached before all streams were explored")
			return
		}
		fr := streams[si]
		var nontriv, reads int64
		var n int64
		st := mc.ExploreDev(B, func(e *mc.Env) {
			g, w, rd := c06Stream(fr, e, 0)
			reads += rd
			n++
			if g != w {
				c.Fail(3<<40|int64(si)<<24|n, "stream", "stream", c06Case{Frames: fr, Choices: append([]int(nil), e.Choices...)}, g, w)
			}
			if e.Deviations() > 0 || len(fr) > 1 {
				nontriv++
			}
		})
		execs, points := st.Executions, st.Points
		total := 0
		for _, f := range fr {
			total += len(c06Wire(f))
		}
		for s := 1; s <= total; s++ {
			g, w, rd := c06Stream(fr, nil, s)
			points += rd
			execs++
			nontriv++
			if g != w {
				c.Fail(4<<40|int64(si)<<24|int64(s), "stream", "stream", c06Case{Frames: fr, Uniform: s}, g, w)
			}
		}
		c.Count(execs, nontriv)
		c.Add("states", execs)
		c.Add("transitions", points)
		c.Add("stream_executions", execs)
		c.Max("max_choice_points", int64(st.MaxPoints))
		for k, v := range st.PerBound {
			c.Add(fmt.Sprintf("stream_executions_with_%d_deviations", k), v)
		}
		if si == len(streams)-7 {
			c.ForceSample(c06Case{Frames: fr, Choices: []int{0, 0, 3, 0, 0}})
		}
	})
	// streams in which a frame with a body above 1 MiB is FOLLOWED by other frames: whole, uniform
	// chunkings, and one forced short read around every frame boundary and power of two
	bigStreams := [][]c06Frame{
		{{Kind: "legacy", Payload: 1<<20 + 1}, {Kind: "pb", Payload: 3}},
		{{Kind: "legacyv", Payload: 5, Version: "3.1"}, {Kind: "pb", Payload: 1<<20 + 5}, {Kind: "legacy", Payload: 33}},
		{{Kind: "pbv", Payload: 2<<20 + 7, Version: "0123456789abcdef"}, {Kind: "legacyv", Payload: 1<<20 + 1, Version: ""}, {Kind: "pb", Payload: 0}},
	}
	type bigJob struct {
		si, uni, cut int
	}
	var bjs []bigJob
	for si, fr := range bigStreams {
		for _, u := range []int{0, 1, 7, 4096, 1 << 16, 1 << 20, 1000003} {
			bjs = append(bjs, bigJob{si, u, 0})
		}
		seen := map[int]bool{}
		off := 0
		total := 0
		for _, f := range fr {
			total += len(c06Wire(f))
		}
		addCut := func(k int) {
			if k > 0 && k < total && !seen[k] {
				seen[k] = true
				bjs = append(bjs, bigJob{si, 0, k}, bigJob{si, 4096, k})
			}
		}
		for _, f := range fr {
			for _, base := range []int{off, off + 32} { // frame start, body start
				for _, d := range []int{-65, -64, -63, -2, -1, 1, 2, 31, 32, 33, 63, 64, 65, 511, 512, 513, 4095, 4096, 4097, 32767, 32768, 32769, 65535, 65536, 65537, 1<<20 - 1, 1 << 20, 1<<20 + 1} {
					addCut(base + d)
				}
			}
			off += len(c06Wire(f))
		}
	}
	c.Par(len(bjs), func(i int) {
		j := bjs[i]
		g, w, rd := c06StreamCut(bigStreams[j.si], nil, j.uni, j.cut)
		if g != w {
			c.Fail(5<<40|int64(i), "stream", "stream/large", c06Case{Frames: bigStreams[j.si], Uniform: j.uni, Cut: j.cut}, g, w)
		}
		c.Count(1, 1)
		c.Add("states", 1)
		c.Add("transitions", rd)
		c.Add("large_stream_executions", 1)
	})
	// every stream once more through every standard-library reader type, and Marshal into
	// standard-library writer types (code may special-case dynamic types)
	c.Par(len(streams), func(si int) {
		fr := streams[si]
		if g, w := c06MarshalSeq(fr); g != w {
			c.Fail(8<<40|int64(si)<<8, "marshalseq", "marshalseq", c06Case{Frames: fr}, g, w)
		}
		c.Count(1, 1)
		c.Add("states", 1)
		c.Add("marshal_sequences", 1)
		for _, rk := range c07StdReaders {
			g, w := c06StreamStd(fr, rk)
			if g != w {
				c.Fail(6<<40|int64(si)<<8, "stream/std", "stream/std", c06Case{Frames: fr, Std: rk}, g, w)
			}
			c.Count(1, 1)
			c.Add("states", 1)
			c.Add("std_reader_executions", 1)
		}
	})
	c.Par(len(frames), func(fi int) {
		for _, wk := range []string{"bytes.Buffer", "bufio16", "bufio4096", "strings.Builder"} {
			g, w := c06MarshalStd(frames[fi], wk)
			if g != w {
				c.Fail(7<<40|int64(fi)<<8, "marshal/std", "marshal/std", c06Case{Frames: []c06Frame{frames[fi]}, Std: wk}, g, w)
			}
			c.Count(1, 1)
			c.Add("std_writer_cases", 1)
		}
	})
	c.Add("traces_validated_against_impl", c.Int("states"))
	// determinism: one recorded execution replayed twice gives identical observations
	{
		fr := streams[len(streams)-1]
		g1, _, _ := c06Stream(fr, mc.NewEnv([]int{0, 2, 0, 1}), 0)
		g2, _, _ := c06Stream(fr, mc.NewEnv([]int{0, 2, 0, 1}), 0)
		if g1 != g2 {
			panic("harness: the same choice vector produced two different observations")
		}
		c.Set("replay_determinism_checked", true)
	}
	// payload-length sweep: EVERY payload length 0..1100 and every threshold length (round numbers ±1) up
	// to 70000, for four message kinds: the per-frame obligations, and the frame read back from a stream in
	// which a small frame follows it (so that a frame that is written short, or read long, shows in its
	// neighbour). An implementation may treat frames below or above some length differently.
	{
		var lens []int
		for l := 0; l <= 1100; l++ {
			lens = append(lens, l)
		}
		lens = append(lens, gen.ThresholdSizes(1101, 70000)...)
		// and every length whose BODY (payload + a few bytes of framing) lies next to 1 MiB, where
		// Unmarshal switches from one allocation to an incremental read (pbcmpl.maxEagerBody)
		for l := 1<<20 - 16; l <= 1<<20+2; l++ {
			lens = append(lens, l)
		}
		kinds := []c06Frame{{Kind: "pb"}, {Kind: "legacy"}, {Kind: "pbv", Version: gen.Bytes("3.1")}, {Kind: "legacyv", Version: gen.Bytes("")}}
		c.Expect(int64(2 * len(lens) * len(kinds)))
		c.Par(len(lens), func(li int) {
			for ki, k := range kinds {
				f := k
				f.Payload = lens[li]
				if g, w := c06MarshalOne(f); g != w {
					c.Fail(10<<50|int64(li)<<8|int64(ki), "marshal", "marshal/length-sweep", c06Case{Frames: []c06Frame{f}}, g, w)
				}
				fs := []c06Frame{f, {Kind: "pb", Payload: 3}}
				if g, w, _ := c06Stream(fs, mc.NewEnv(nil), 0); g != w {
					c.Fail(10<<50|1<<40|int64(li)<<8|int64(ki), "stream", "stream/length-sweep", c06Case{Frames: fs}, g, w)
				}
			}
			c.Count(int64(2*len(kinds)), int64(2*len(kinds)))
			c.Add("payload_length_sweep_cases", int64(2*len(kinds)))
		})
	}
	// BODY lengths at multiples of a piece size: an implementation that writes or reads the body in pieces
	// has a piece size nobody outside knows - a power of two, or one minus the 32-byte header or a small
	// round amount. Encoded BODY length (not payload length) = m·(2^k − h) and ±1 for k = 9..17, h in
	// {0, 8, 16, 32, 64}, m = 1..3, four message kinds: per-frame obligations and the stream with a neighbour
	{
		kinds := []c06Frame{{Kind: "pb"}, {Kind: "legacy"}, {Kind: "pbv", Version: gen.Bytes("3.1")}, {Kind: "legacyv", Version: gen.Bytes("")}}
		seenT := map[int]bool{}
		var targets []int
		for k := 9; k <= 17; k++ {
			for _, h := range []int{0, 8, 16, 32, 64} {
				for m := 1; m <= 3; m++ {
					for d := -1; d <= 1; d++ {
						t := m*(1<<uint(k)-h) + d
						if !seenT[t] {
							seenT[t] = true
							targets = append(targets, t)
						}
					}
				}
			}
		}
		type pj struct{ f c06Frame }
		var pjs []pj
		var unreachable int64
		for _, k := range kinds {
			for _, t := range targets {
				found := false
				for d := 0; d <= 16 && d <= t; d++ {
					f := k
					f.Payload = t - d
					if len(c06Wire(f))-32 == t {
						pjs = append(pjs, pj{f})
						found = true
						break
					}
				}
				if !found {
					unreachable++
				}
			}
		}
		c.Set("piece_multiple_body_lengths_unreachable_for_a_kind", unreachable)
		c.Expect(int64(2 * len(pjs)))
		c.Par(len(pjs), func(i int) {
			f := pjs[i].f
			if g, w := c06MarshalOne(f); g != w {
				c.Fail(17<<50|int64(i), "marshal", "marshal/piece-multiples", c06Case{Frames: []c06Frame{f}}, g, w)
			}
			fs := []c06Frame{f, {Kind: "pb", Payload: 3}}
			if g, w, _ := c06Stream(fs, mc.NewEnv(nil), 0); g != w {
				c.Fail(17<<50|1<<40|int64(i), "stream", "stream/piece-multiples", c06Case{Frames: fs}, g, w)
			}
			c.Count(2, 2)
			c.Add("piece_multiple_body_length_cases", 2)
		})
	}
	// POLLING readers: every 2nd / 3rd / 5th call returns (0, nil) - which io.Reader permits - in between
	// pieces of 1, 7, 16 or 4096 bytes: a frame then sees hundreds or thousands of empty reads in total, never
	// two in a row. Frames of several sizes on both read paths (eager up to 1 MiB, incremental above), each
	// followed by a small frame.
	{
		type job struct {
			f            c06Frame
			chunk, empty int
		}
		var jobs []job
		for _, l := range []int{0, 33, 200, 2048, 5000, 70000, 1<<20 + 1} {
			for _, k := range []c06Frame{{Kind: "pb"}, {Kind: "legacyv", Version: gen.Bytes("3.1")}} {
				for _, ch := range []int{1, 7, 16, 4096} {
					for _, em := range []int{2, 3, 5} {
						if l > 70000 && ch < 16 {
							continue
						}
						f := k
						f.Payload = l
						jobs = append(jobs, job{f, ch, em})
					}
				}
			}
		}
		c.Expect(int64(len(jobs)))
		c.Par(len(jobs), func(i int) {
			j := jobs[i]
			fs := []c06Frame{j.f, {Kind: "pb", Payload: 3}}
			g, w, rd := c06StreamOpt(fs, nil, j.chunk, 0, j.empty)
			if g != w {
				c.Fail(12<<50|int64(i), "stream", "stream/polling-reader", c06Case{Frames: fs, Uniform: j.chunk, Empty: j.empty}, g, w)
			}
			c.Count(1, 1)
			c.Add("states", 1)
			c.Add("transitions", rd)
			c.Add("polling_reader_executions", 1)
		})
	}
	// the message zoo (c06_zoo.go): message CONTENT - fifteen generated types, every wire type, nested
	// messages, unknown fields - under whole, 1-byte and 7-byte chunkings, fresh and dirty reused targets
	{
		zoo := c06ZooList()
		chunks := []int{0, 1, 7}
		c.Expect(int64(len(zoo) * len(chunks)))
		c.Set("zoo_messages", len(zoo))
		c.Par(len(zoo)*len(chunks), func(i int) {
			e, ch := zoo[i/len(chunks)], chunks[i%len(chunks)]
			if ch == 1 && len(e.Raw) > 1<<16 {
				ch = 4093 // the 1 MiB entry: a prime chunk size instead of single bytes
			}
			if g, w := c06ZooJudge(e.Name, ch); g != w {
				c.Fail(11<<50|int64(i), "zoo", "zoo", c06Case{Zoo: e.Name, Uniform: ch}, g, w)
			}
			c.Count(1, 1)
			c.Add("states", 1)
			c.Add("zoo_cases", 1)
		})
	}
	// streams of versioned frames into ONE reused target whose own GetVersion() is a valid version left over
	// from the frame before (or given at first): every ordered pair and triple of five semantic versions with
	// different major numbers, both versioned kinds, three initial target versions
	{
		vs := []string{"1.9.0", "2.0.0", "0.3.1", "1.0.0", "10.0.0"}
		type job struct {
			fr   []c06Frame
			tver string
		}
		var jobs []job
		for _, kind := range []string{"pbv", "legacyv"} {
			for l := 2; l <= 3; l++ {
				gen.Product(len(vs), l, func(ix []int) {
					var fr []c06Frame
					for i, k := range ix {
						fr = append(fr, c06Frame{Kind: kind, Payload: 3 + i, Version: gen.Bytes(vs[k])})
					}
					for _, tv := range []string{"", "1.0.0", "7.7.7"} {
						jobs = append(jobs, job{fr, tv})
					}
				})
			}
		}
		c.Expect(int64(len(jobs)))
		c.Par(len(jobs), func(i int) {
			j := jobs[i]
			if g, w := c06StreamReusedVersioned(j.fr, j.tver); g != w {
				tv := j.tver
				c.Fail(16<<50|int64(i), "stream/reused-versioned-target", "stream/reused-versioned-target", c06Case{Frames: j.fr, TVer: &tv}, g, w)
			}
			c.Count(1, 1)
			c.Add("states", 1)
			c.Add("reused_versioned_target_streams", 1)
		})
	}
	// messages that bring their own codec, of several shapes (c06_zoo.go)
	{
		own := c06OwnCodecList()
		chunks := []int{0, 1, 7}
		c.Expect(int64(len(own) * len(chunks)))
		c.Par(len(own)*len(chunks), func(i int) {
			e, ch := own[i/len(chunks)], chunks[i%len(chunks)]
			if g, w := c06OwnCodecJudge(e.Name, ch); g != w {
				c.Fail(15<<50|int64(i), "own-codec", "own-codec", c06Case{Zoo: e.Name, Uniform: ch}, g, w)
			}
			c.Count(1, 1)
			c.Add("states", 1)
			c.Add("own_codec_cases", 1)
		})
	}
	// histories on one message object: sized (or marshalled), changed inside, marshalled again
	{
		muts := c06MutList()
		c.Expect(int64(len(muts) * len(c06MutSizers)))
		c.Par(len(muts)*len(c06MutSizers), func(i int) {
			e, sz := muts[i/len(c06MutSizers)], c06MutSizers[i%len(c06MutSizers)]
			if g, w := c06MutJudge(e.Name, sz); g != w {
				c.Fail(14<<50|int64(i), "reused-message", "reused-message", c06Case{Zoo: e.Name, Sizer: sz}, g, w)
			}
			c.Count(1, 1)
			c.Add("states", 1)
			c.Add("reused_message_histories", 1)
		})
	}
	c06Scheduled(c)
}

// c06Scheduled runs the E4 part (props/c06_sched.go) in the instrumented binary check.sh built.
func c06Scheduled(c *mc.Ctx) {
	if mc.Variant() != "" {
		return // the main configuration only
	}
	bin := os.Getenv("VERIF_SCHED_BIN")
	if bin == "" {
		c.Cap("no instrumented binary (VERIF_SCHED_BIN unset or the overlay build failed: " + os.Getenv("VERIF_SCHED_ERR") + "): concurrent Marshal / Unmarshal callers were not explored")
		return
	}
	cmd := exec.Command(bin, "-worker", "c06sched", "schedules", c.Tier)
	cmd.Env = append(os.Environ(), "GOMAXPROCS=1")
	cmd.Stderr = os.Stderr
	b, err := cmd.Output()
	var out struct {
		Programs, Schedules, Points int64
		MaxPoints                   int
		Stuck                       []string
		Viols                       []mc.Viol
	}
	if err != nil || json.Unmarshal(b, &out) != nil {
		panic(fmt.Sprintf("harness: scheduled C06 worker failed: %v %s", err, clipS(string(b))))
	}
	c.Add("scheduled_programs", out.Programs)
	c.Add("schedules", out.Schedules)
	c.Add("states", out.Schedules)
	c.Add("transitions", out.Points)
	c.Max("max_points_per_execution", int64(out.MaxPoints))
	c.Count(out.Schedules, out.Schedules)
	c.Expect(out.Schedules)
	for _, st := range out.Stuck {
		c.Cap("a thread blocked outside the scheduler in program " + st)
	}
	for _, v := range out.Viols {
		var cs c06Case
		json.Unmarshal(v.Case, &cs)
		c.Fail(9<<50|v.Order, v.Kind, v.Class, cs, v.Got, v.Want)
	}
}

func c06Judge(kind string, cs c06Case) (got, want string) {
	if kind == "schedule" {
		bin := os.Getenv("VERIF_SCHED_BIN")
		if bin == "" {
			return "this case needs the instrumented binary (VERIF_SCHED_BIN); use /verif/check.sh replay", ""
		}
		raw, _ := json.Marshal(cs)
		out, err := exec.Command(bin, "-worker", "c06sched", "judge", string(raw)).Output()
		var gw [2]string
		if err != nil || json.Unmarshal(out, &gw) != nil {
			return fmt.Sprint("instrumented judge failed: ", err), ""
		}
		return gw[0], gw[1]
	}
	switch kind {
	case "zoo":
		return c06ZooJudge(cs.Zoo, cs.Uniform)
	case "stream/reused-versioned-target":
		tv := ""
		if cs.TVer != nil {
			tv = *cs.TVer
		}
		return c06StreamReusedVersioned(cs.Frames, tv)
	case "own-codec":
		return c06OwnCodecJudge(cs.Zoo, cs.Uniform)
	case "reused-message":
		return c06MutJudge(cs.Zoo, cs.Sizer)
	case "marshalseq":
		return c06MarshalSeq(cs.Frames)
	case "stream/std":
		return c06StreamStd(cs.Frames, cs.Std)
	case "marshal/std":
		return c06MarshalStd(cs.Frames[0], cs.Std)
	case "marshal":
		return c06MarshalOne(cs.Frames[0])
	case "stream":
		var env *mc.Env
		if cs.Uniform == 0 && cs.Cut == 0 {
			env = mc.NewEnv(cs.Choices)
		}
		g, w, _ := c06StreamOpt(cs.Frames, env, cs.Uniform, cs.Cut, cs.Empty)
		return g, w
	}
	return "unknown kind " + kind, ""
}
