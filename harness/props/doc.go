// Package props holds one file per property: the declared space, the oracle
// and the single-case judge used for replay.
package props
