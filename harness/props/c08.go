package props

import (
	"fmt"

	"github.com/openacid/low/bitword"

	"verif/gen"
	"verif/mc"
	"verif/ref"
)

// C08: bitword split / join / index / first-difference against the bit string.

type c08Case struct {
	Width int         `json:"width"`
	A     gen.Bytes   `json:"a"`
	B     gen.Bytes   `json:"b,omitempty"`
	Words []byte      `json:"words,omitempty"`
	From  int         `json:"from,omitempty"`
	End   int         `json:"end,omitempty"`
	List  []gen.Bytes `json:"list,omitempty"`
	// WordLists: the argument of a ToStrs call given as word lists (elements that are NOT whole bytes)
	WordLists [][]byte `json:"word_lists,omitempty"`
	// Prefixes: a ToStrs call whose elements are base[:k] of ONE shared word list (c08SharedBase), k as listed
	Prefixes []int `json:"shared_prefixes,omitempty"`
	// big strings are named by their byte length (and the flipped byte of the second string)
	Big  int `json:"big_len,omitempty"`
	Flip int `json:"flip_byte,omitempty"`
}

func init() {
	mc.Register(&mc.Property{
		ID:     "C08",
		Word32: true,
		Level:  "exploration",
		Rule: "E1 bounded-exhaustive enumeration, per width n in {1,2,4,8}: (split) every string of length ≤2 over all 256 byte values and of length ≤L over {00,01,7f,80,ff,a5,5a,'a'}: FromStr length and every word, Get at every index, ToStr∘FromStr; " +
			"(split, zero runs) FromStr / Get / ToStr(FromStr) on strings of 9..33 bytes in which every run [i, j) of bytes is 0x00; (pack) ToStr on every list of in-range words up to a width-dependent length (every partial-last-byte shape), and on one patterned list of EVERY length up to 2200 / 1100 / 600 / 300 words (widths 1 / 2 / 4 / 8) and of every threshold length up to 2^16 words with every partial-last-byte shape next to it; (diff) FirstDiff on every ordered pair of strings of length ≤D over 6 bytes and of length ≤3 over {c3,a9,a8,'a'} and {e6,97,a5,a6} (well-formed 2- and 3-byte UTF-8 sequences differing in a continuation byte) × every from in [0, words+2] × every end in [-1, words+2]; (diff, far windows) the same pairs with from and/or end far beyond both strings: 2^31, 2^32, 2^60, 2^61, 2^62, 3·2^61 (each ±1), MaxInt-1, MaxInt - every from in [0, words+2] ∪ far × every far end, and every far from × every end in [-1, words+2]; (diff, long) FirstDiff on every ordered pair of 48 strings of 8..19 bytes (4 stem variants × 3 tails) and on single-byte flips of bases of EVERY length 1..40 at every byte position, and on DOUBLE flips (the same mask in two bytes 1, 4, 8 or 16 apart) of bases of 16..40 bytes × every from × 7 ends; (big) strings of EVERY length 2..600 bytes and of every threshold length up to 2^16 (thorough 2^20) bytes: FromStr/ToStr/Get and FirstDiff against copies with one flipped byte; (lists) ToStrs on every list of ≤3 word lists over every partial-last-byte shape (lengths 0..2·(8/n)+1: elements that are not whole bytes), and on every list of ≤3 PREFIXES OF ONE word list (elements sharing memory: the same list twice, a list and its prefix); FromStrs/ToStrs element-wise (and the FromStrs elements once more after appending a byte to each: results must not alias each other) on every list of ≤3 strings over 4 strings and every ordered list of 2..3 strings sharing an 8- or 9-byte prefix with tails over {00,'A','B'}, and on generated lists of every threshold size (round numbers ±1) from 1000 to 70000 strings. " +
			"Oracle: the string's '0'/'1' rendering cut into n-bit groups. A case is one call; non-trivial when the string/list is non-empty.",
		Assumptions: []string{"from < 0 and end < -1 are outside the statement and not called; long strings over the full byte alphabet are not enumerated"},
		Run:         c08Run,
		Judge:       mc.JudgeOf(c08Judge),
	})
}

func bwFromStr(n int, s string) (r []byte, p string) {
	defer func() {
		if e := recover(); e != nil {
			p = fmt.Sprint("panic: ", e)
		}
	}()
	return bitword.BitWord[n].FromStr(s), ""
}

func bwToStr(n int, ws []byte) (r string, p string) {
	defer func() {
		if e := recover(); e != nil {
			p = fmt.Sprint("panic: ", e)
		}
	}()
	return bitword.BitWord[n].ToStr(gen.DirtyBytes(ws)), "" // a window into a larger, non-zero buffer
}

func bwGet(n int, s string, i int) (r byte, p string) {
	defer func() {
		if e := recover(); e != nil {
			p = fmt.Sprint("panic: ", e)
		}
	}()
	return bitword.BitWord[n].Get(s, i), ""
}

func bwFirstDiff(n int, a, b string, from, end int) (r int, p string) {
	defer func() {
		if e := recover(); e != nil {
			p = fmt.Sprint("panic: ", e)
		}
	}()
	return bitword.BitWord[n].FirstDiff(a, b, from, end), ""
}

// refWords cuts the bit string into n-bit numbers.
func refWords(s string, n int) []byte {
	bits := ref.Bits(s)
	out := make([]byte, 0, len(bits)/n)
	for i := 0; i+n <= len(bits); i += n {
		out = append(out, byte(ref.BitsVal(bits[i:i+n])))
	}
	return out
}

// refPack packs in-range words MSB-first, zero padding the last byte.
func refPack(ws []byte, n int) string {
	bb := make([]byte, 0, len(ws)*n+8) // the '0'/'1' rendering, built in linear time
	for _, w := range ws {
		bb = append(bb, ref.BitString(uint64(w), n)...)
	}
	for len(bb)%8 != 0 {
		bb = append(bb, '0')
	}
	bits := string(bb)
	out := make([]byte, len(bits)/8)
	for i := range out {
		out[i] = byte(ref.BitsVal(bits[8*i : 8*i+8]))
	}
	return string(out)
}

// c08FarInts: window bounds far beyond any string: around 2^31 and 2^32 (where a
// 32-bit intermediate wraps), around MaxInt/width for every width (where
// bound*width wraps), and the largest ints. Values that do not fit the
// platform's int are left out.
func c08FarInts() []int {
	const maxInt = int64(^uint(0) >> 1)
	var out []int
	seen := map[int64]bool{}
	for _, b := range []int64{1 << 31, 1 << 32, 1 << 60, 1 << 61, 1 << 62, 1<<62 + 1<<61, 1<<63 - 1} {
		for _, d := range []int64{-1, 0, 1} {
			v := b + d
			if v > 0 && v <= maxInt && (b != 1<<63-1 || d <= 0) && !seen[v] {
				seen[v] = true
				out = append(out, int(v))
			}
		}
	}
	return out
}

func refFirstDiff(a, b string, n, from, end int) int {
	wa, wb := refWords(a, n), refWords(b, n)
	lim := end
	if end == -1 {
		lim = len(wa)
	}
	if lim > len(wa) {
		lim = len(wa)
	}
	if lim > len(wb) {
		lim = len(wb)
	}
	for i := from; i < lim; i++ {
		if wa[i] != wb[i] {
			return i
		}
	}
	return lim
}

func c08SplitOne(c *mc.Ctx, order int64, n int, s string) (evals int64) {
	want := refWords(s, n)
	got, p := bwFromStr(n, s)
	if p != "" || string(got) != string(want) {
		c.Fail(order, "FromStr", "FromStr", c08Case{Width: n, A: gen.Bytes(s)}, p+fmt.Sprint(got), fmt.Sprint(want))
	}
	evals++
	for i := range want {
		g, p := bwGet(n, s, i)
		if p != "" || g != want[i] {
			c.Fail(order, "Get", "Get", c08Case{Width: n, A: gen.Bytes(s), From: i}, p+fmt.Sprint(g), fmt.Sprint(want[i]))
		}
		evals++
	}
	if p == "" {
		back, p2 := bwToStr(n, got)
		if p2 != "" || back != s {
			c.Fail(order, "ToStr(FromStr)", "ToStr", c08Case{Width: n, A: gen.Bytes(s)}, p2+fmt.Sprintf("%x", back), fmt.Sprintf("%x", s))
		}
	}
	evals++
	return
}

var c08Alpha = []byte{0x00, 0x01, 0x7f, 0x80, 0xff, 0xa5, 0x5a, 'a'}
var c08Widths = []int{1, 2, 4, 8}

func c08Run(c *mc.Ctx) {
	L := c.Pick(4, 6)
	D := c.Pick(2, 3)
	c.Set("split_small_alphabet_length", L)
	c.Set("firstdiff_string_length", D)
	// (split) — two string families, made disjoint
	full := gen.Strings(gen.AllBytes(), 2)
	small := gen.Strings(c08Alpha, L)
	var strs []string
	strs = append(strs, full...)
	for _, s := range small {
		if len(s) > 2 {
			strs = append(strs, s)
		}
	}
	for _, n := range []int{7, 8, 9, 15, 16, 17, 31, 32, 33, 64, 65} {
		for v := 0; v < c09StemVariants; v++ {
			strs = append(strs, c09StemV(n, v)+"\xa5\x01")
		}
	}
	for _, n := range c08Widths {
		for _, s := range strs {
			c.Expect(int64(2 + 8*len(s)/n))
		}
	}
	const chunk = 512
	nch := (len(strs) + chunk - 1) / chunk
	c.Par(nch*4, func(k int) {
		if c.TooMany() {
			return
		}
		n := c08Widths[k%4]
		ci := k / 4
		var evals, nontriv int64
		for si := ci * chunk; si < (ci+1)*chunk && si < len(strs); si++ {
			e := c08SplitOne(c, int64(si)<<4|int64(k%4), n, strs[si])
			evals += e
			if len(strs[si]) > 0 {
				nontriv += e
			}
		}
		c.Count(evals, nontriv)
		c.Add("split_cases", evals)
	})
	c.ForceSample(map[string]interface{}{"fn": "FromStr/Get/ToStr", "width": 2, "s": "a55a", "words": refWords("\xa5\x5a", 2)})

	// (pack) every list of in-range words up to a width-dependent length
	maxLen := map[int]int{1: c.Pick(17, 20), 2: c.Pick(9, 11), 4: c.Pick(5, 6), 8: 2}
	for _, n := range c08Widths {
		n := n
		a := 1 << uint(n)
		for l := 0; l <= maxLen[n]; l++ {
			c.Expect(gen.PowInt(a, l))
		}
		c.Par(maxLen[n]+1, func(l int) {
			var evals, nontriv int64
			gen.Product(a, l, func(ix []int) {
				ws := make([]byte, l)
				for i, x := range ix {
					ws[i] = byte(x)
				}
				want := refPack(ws, n)
				got, p := bwToStr(n, ws)
				if p != "" || got != want {
					c.Fail(1<<50|int64(n)<<40|int64(l)<<32|evals, "ToStr", "ToStr", c08Case{Width: n, Words: ws}, p+fmt.Sprintf("%x", got), fmt.Sprintf("%x", want))
				}
				evals++
				if l > 0 {
					nontriv++
				}
			})
			c.Count(evals, nontriv)
			c.Add("pack_cases", evals)
		})
	}
	// (split, zero runs) strings of 9, 16, 17, 24, 25 and 33 bytes in which EVERY run [i, j) of bytes is 0x00
	// and the rest follows a pattern with bytes of every class: zero bytes filling whole aligned 8-byte blocks,
	// straddling them, leading, trailing and in the middle (code that handles 8 bytes at a time is tempted to
	// skip what is "already zero")
	{
		type zr struct{ l, i, j int }
		var zs []zr
		for _, l := range []int{9, 16, 17, 24, 25, 33} {
			for i := 0; i < l; i++ {
				for j := i + 1; j <= l; j++ {
					zs = append(zs, zr{l, i, j})
				}
			}
		}
		for _, z := range zs {
			for _, n := range c08Widths {
				c.Expect(int64(2 + 8*z.l/n))
			}
		}
		c.Par(len(zs), func(k int) {
			z := zs[k]
			b := make([]byte, z.l)
			for x := range b {
				b[x] = []byte{'a', 0x80, 0x01, 0xff, 0x7f, 'z', 0xa5}[(x+z.l)%7]
				if x >= z.i && x < z.j {
					b[x] = 0
				}
			}
			var ev int64
			for _, n := range c08Widths {
				ev += c08SplitOne(c, 7<<50|int64(k)<<4|int64(n), n, string(b))
			}
			c.Count(ev, ev)
		})
		c.Set("zero_run_strings", len(zs))
	}
	// (pack, length sweep) ToStr on a word list of EVERY length 0..2200 (width 1), 1100, 600, 300 (widths 2, 4,
	// 8) - results of 0..275 bytes with every partial-last-byte shape at every byte count - and of every
	// threshold length up to 2^16 words; the words follow a pattern that depends on position and length
	for _, n := range c08Widths {
		n := n
		hi := map[int]int{1: 2200, 2: 1100, 4: 600, 8: 300}[n]
		var lens []int
		for l := maxLen[n] + 1; l <= hi; l++ {
			lens = append(lens, l)
		}
		for _, l := range gen.ThresholdSizes(hi+1, 1<<16) {
			for d := 0; d < 8/n; d++ { // and the partial-last-byte shapes next to every threshold
				lens = append(lens, l+d)
			}
		}
		c.Expect(int64(len(lens)))
		c.Par(len(lens), func(li int) {
			l := lens[li]
			ws := make([]byte, l)
			for i := range ws {
				ws[i] = byte((i*7+l*3+i/9)^(i>>3)) & byte(1<<uint(n)-1)
			}
			want := refPack(ws, n)
			got, p := bwToStr(n, ws)
			if p != "" || got != want {
				c.Fail(6<<50|int64(n)<<40|int64(li), "ToStr", "ToStr/length-sweep", c08Case{Width: n, Words: ws}, p+digest([]byte(got)), digest([]byte(want)))
			}
			c.Count(1, 1)
			c.Add("pack_length_sweep_cases", 1)
		})
	}
	c.ForceSample(map[string]interface{}{"fn": "ToStr", "width": 4, "words": []int{0xa, 0x5, 0xf}, "packed": fmt.Sprintf("%x", refPack([]byte{0xa, 0x5, 0xf}, 4))})

	// (diff)
	ds := gen.Strings([]byte{0x00, 0x01, 0x80, 0xff, 0xa5, 'a'}, D)
	for _, n := range c08Widths {
		for _, a := range ds {
			wa := 8 * len(a) / n
			c.Expect(int64(len(ds)) * int64(wa+3) * int64(wa+4))
		}
	}
	c.Par(len(ds)*4, func(k int) {
		if c.TooMany() {
			return
		}
		n := c08Widths[k%4]
		a := ds[k/4]
		wa := 8 * len(a) / n
		var evals, nontriv int64
		for bi, b := range ds {
			for from := 0; from <= wa+2; from++ {
				for end := -1; end <= wa+2; end++ {
					want := refFirstDiff(a, b, n, from, end)
					got, p := bwFirstDiff(n, a, b, from, end)
					if p != "" || got != want {
						c.Fail(2<<50|int64(k)<<32|int64(bi)<<16|int64(from)<<8|int64(end+1), "FirstDiff", "FirstDiff", c08Case{Width: n, A: gen.Bytes(a), B: gen.Bytes(b), From: from, End: end}, p+fmt.Sprint(got), fmt.Sprint(want))
					}
					evals++
					if len(a) > 0 && len(b) > 0 {
						nontriv++
					}
				}
			}
		}
		c.Count(evals, nontriv)
		c.Add("firstdiff_cases", evals)
	})
	c.ForceSample(map[string]interface{}{"fn": "FirstDiff", "width": 4, "a": "a5ff", "b": "a580", "from": 0, "end": -1, "expected": refFirstDiff("\xa5\xff", "\xa5\x80", 4, 0, -1)})

	// (diff, UTF-8) WELL-FORMED multi-byte sequences: every ordered pair of strings of ≤3 bytes over
	// {c3,a9,a8,'a'} ("é" = c3 a9, "è" = c3 a8) and over {e6,97,a5,a6} ("日" = e6 97 a5, "旦" = e6 97 a6), every
	// window: code that walks a string by rune instead of by byte steps over the continuation bytes of
	// exactly such sequences
	for fi, al := range [][]byte{{0xc3, 0xa9, 0xa8, 'a'}, {0xe6, 0x97, 0xa5, 0xa6}} {
		us := gen.Strings(al, 3)
		for _, n := range c08Widths {
			for _, a := range us {
				wa := 8 * len(a) / n
				c.Expect(int64(len(us)) * int64(wa+3) * int64(wa+4))
			}
		}
		c.Par(len(us)*4, func(k int) {
			if c.TooMany() {
				return
			}
			n := c08Widths[k%4]
			a := us[k/4]
			wa := 8 * len(a) / n
			var evals, nontriv int64
			for bi, b := range us {
				for from := 0; from <= wa+2; from++ {
					for end := -1; end <= wa+2; end++ {
						want := refFirstDiff(a, b, n, from, end)
						got, p := bwFirstDiff(n, a, b, from, end)
						if p != "" || got != want {
							c.Fail(7<<50|int64(fi)<<48|int64(k)<<32|int64(bi)<<16|int64(from)<<8|int64(end+1), "FirstDiff", "FirstDiff/utf8", c08Case{Width: n, A: gen.Bytes(a), B: gen.Bytes(b), From: from, End: end}, p+fmt.Sprint(got), fmt.Sprint(want))
						}
						evals++
						if len(a) > 0 && len(b) > 0 {
							nontriv++
						}
					}
				}
			}
			c.Count(evals, nontriv)
			c.Add("firstdiff_utf8_cases", evals)
		})
	}

	// (diff, far windows) from and/or end far beyond both strings, up to the largest int: "no limit"
	// spelled as MaxInt or 1<<62, and the values at which end*width or from*width leaves the int range
	far := c08FarInts()
	for _, n := range c08Widths {
		for _, a := range ds {
			wa := 8 * len(a) / n
			c.Expect(int64(len(ds)) * int64(len(far)) * int64((wa+3+len(far))+(wa+4)))
		}
	}
	c.Par(len(ds)*4, func(k int) {
		if c.TooMany() {
			return
		}
		n := c08Widths[k%4]
		a := ds[k/4]
		wa := 8 * len(a) / n
		var evals, nontriv int64
		one := func(bi int, b string, from, end int) {
			want := refFirstDiff(a, b, n, from, end)
			got, p := bwFirstDiff(n, a, b, from, end)
			if p != "" || got != want {
				c.Fail(6<<50|int64(k)<<32|int64(bi)<<16|evals&0xffff, "FirstDiff", "FirstDiff/far", c08Case{Width: n, A: gen.Bytes(a), B: gen.Bytes(b), From: from, End: end}, p+fmt.Sprint(got), fmt.Sprint(want))
			}
			evals++
			if len(a) > 0 && len(b) > 0 {
				nontriv++
			}
		}
		for bi, b := range ds {
			for _, end := range far {
				for from := 0; from <= wa+2; from++ {
					one(bi, b, from, end)
				}
				for _, from := range far {
					one(bi, b, from, end)
				}
			}
			for _, from := range far {
				for end := -1; end <= wa+2; end++ {
					one(bi, b, from, end)
				}
			}
		}
		c.Count(evals, nontriv)
		c.Add("firstdiff_far_window_cases", evals)
	})

	// (diff, long) strings of 8..19 bytes: 4 stem variants × tails, all ordered pairs, plus single-byte
	// flips of two bases at every byte position; every from, and ends around the interesting places
	var longs []string
	for _, n := range []int{8, 9, 16, 17} {
		for v := 0; v < c09StemVariants; v++ {
			for _, t := range []string{"", "\x00", "a\xff"} {
				longs = append(longs, c09StemV(n, v)+t)
			}
		}
	}
	type pair struct{ a, b string }
	var pairs []pair
	for _, a := range longs {
		for _, b := range longs {
			pairs = append(pairs, pair{a, b})
		}
	}
	for n := 1; n <= 40; n++ {
		base := c09Stem(n)
		for p := 0; p < n; p++ {
			for _, m := range []byte{0x80, 0x10, 0x01, 0xff} {
				if n != 9 && n != 17 && m != 0x80 && m != 0x01 {
					continue
				}
				fl := []byte(base)
				fl[p] ^= m
				pairs = append(pairs, pair{base, string(fl)}, pair{string(fl), base})
			}
		}
	}
	// DOUBLE flips: the same mask flipped in two bytes d = 1, 4, 8 or 16 apart (two correlated differences: a
	// record repeated every 8 bytes, the same case flip twice) in bases of 16, 17, 24, 33 and 40 bytes, at
	// every position of the first flip
	for _, n := range []int{16, 17, 24, 33, 40} {
		base := c09Stem(n)
		for _, d := range []int{1, 4, 8, 16} {
			for p := 0; p+d < n; p++ {
				for _, m := range []byte{0x80, 0x01} {
					fl := []byte(base)
					fl[p] ^= m
					fl[p+d] ^= m
					pairs = append(pairs, pair{base, string(fl)})
				}
			}
		}
	}
	for _, n := range c08Widths {
		for _, pr := range pairs {
			wa, wb := 8*len(pr.a)/n, 8*len(pr.b)/n
			m := wa
			if wb < m {
				m = wb
			}
			c.Expect(int64(m+2) * 7)
		}
	}
	c.Par(len(pairs)*4, func(k int) {
		if c.TooMany() {
			return
		}
		n := c08Widths[k%4]
		pr := pairs[k/4]
		wa, wb := 8*len(pr.a)/n, 8*len(pr.b)/n
		m := wa
		if wb < m {
			m = wb
		}
		var evals int64
		rwa, rwb := refWords(pr.a, n), refWords(pr.b, n)
		ref := func(from, end int) int {
			lim := end
			if end == -1 {
				lim = len(rwa)
			}
			if lim > len(rwa) {
				lim = len(rwa)
			}
			if lim > len(rwb) {
				lim = len(rwb)
			}
			for i := from; i < lim; i++ {
				if rwa[i] != rwb[i] {
					return i
				}
			}
			return lim
		}
		for from := 0; from <= m+1; from++ {
			for ei, end := range []int{-1, from, from + 1, m - 1, m, m + 1, 64 / n} {
				if end < -1 {
					end = -1
				}
				want := ref(from, end)
				got, p := bwFirstDiff(n, pr.a, pr.b, from, end)
				if p != "" || got != want {
					c.Fail(4<<50|int64(k)<<20|int64(from)<<4|int64(ei), "FirstDiff", "FirstDiff", c08Case{Width: n, A: gen.Bytes(pr.a), B: gen.Bytes(pr.b), From: from, End: end}, p+fmt.Sprint(got), fmt.Sprint(want))
				}
				evals++
			}
		}
		c.Count(evals, evals)
		c.Add("firstdiff_cases", evals)
		c.Add("firstdiff_long_cases", evals)
	})
	// (big) strings whose byte lengths lie next to 2^8, 2^12 and 2^16 (size thresholds)
	{
		type job struct{ l, n int }
		var jobs []job
		// 2^p ± 1 and every round-number threshold (3·2^k, 10^k, 2·10^k, 5·10^k, each ±1) up to 2^16 bytes,
		// thorough up to 2^20 bytes
		seenL := map[int]bool{}
		for _, l := range gen.SizesAround(8, uint(c.Pick(16, 20)), []int{-1, 0, 1}) {
			seenL[l] = true
			for _, n := range c08Widths {
				jobs = append(jobs, job{l, n})
			}
		}
		// and EVERY length 2..600 (the gap between the small complete spaces and the threshold sizes)
		for l := 2; l <= 600; l++ {
			if !seenL[l] {
				for _, n := range c08Widths {
					jobs = append(jobs, job{l, n})
				}
			}
		}
		c.Par(len(jobs), func(ji int) {
			j := jobs[ji]
			b := make([]byte, j.l)
			for i := range b {
				b[i] = byte(i*131 + i>>8 + 7)
			}
			sA := string(b)
			var evals int64
			order := int64(5)<<50 | int64(ji)<<20
			want := refWords(sA, j.n)
			got, p := bwFromStr(j.n, sA)
			if p != "" || string(got) != string(want) {
				c.Fail(order, "FromStr", "FromStr/big", c08Case{Width: j.n, Big: j.l}, p+fmt.Sprintf("%d words", len(got)), fmt.Sprintf("%d words (content differs or length)", len(want)))
			} else if back, p2 := bwToStr(j.n, got); p2 != "" || back != sA {
				c.Fail(order, "ToStr(FromStr)", "ToStr/big", c08Case{Width: j.n, Big: j.l}, p2+"(differs)", "(the string)")
			}
			evals++
			nw := len(want)
			for _, i := range []int{0, 1, nw / 2, nw - 2, nw - 1} {
				if g, p := bwGet(j.n, sA, i); p != "" || g != want[i] {
					c.Fail(order, "Get", "Get/big", c08Case{Width: j.n, Big: j.l, From: i}, p+fmt.Sprint(g), fmt.Sprint(want[i]))
				}
				evals++
			}
			// FirstDiff against copies with one flipped byte
			for _, fp := range []int{0, j.l / 2, j.l - 2, j.l - 1} {
				fb := append([]byte(nil), b...)
				fb[fp] ^= 0x10
				sB := string(fb)
				for _, from := range []int{0, 1, 8*fp/j.n - 1, 8 * fp / j.n, 8*fp/j.n + 8/j.n} {
					if from < 0 {
						continue
					}
					for _, end := range []int{-1, nw, nw - 1} {
						w := refFirstDiff(sA, sB, j.n, from, end)
						g, p := bwFirstDiff(j.n, sA, sB, from, end)
						if p != "" || g != w {
							c.Fail(order, "FirstDiff", "FirstDiff/big", c08Case{Width: j.n, Big: j.l, Flip: fp, From: from, End: end}, p+fmt.Sprint(g), fmt.Sprint(w))
						}
						evals++
					}
				}
			}
			c.Count(evals, evals)
			c.Expect(evals)
			c.Add("big_string_cases", evals)
		})
	}
	// (lists, long) FromStrs / ToStrs on generated lists of every threshold size (round numbers ±1) from
	// 1000 to 70000 strings: an element-wise conversion may be split into chunks above some length
	{
		sizes := gen.ThresholdSizes(1000, 70000)
		type job struct {
			n, w int
			kind string
		}
		var jobs []job
		for i := len(sizes) - 1; i >= 0; i-- {
			for _, w := range c08Widths {
				jobs = append(jobs, job{sizes[i], w, "FromStrsLong"}, job{sizes[i], w, "ToStrsLong"})
			}
		}
		c.Expect(int64(len(jobs)))
		c.Par(len(jobs), func(ji int) {
			j := jobs[ji]
			if g, w := c08LongList(j.kind, j.w, j.n); g != w {
				c.Fail(8<<50|int64(ji), j.kind, "lists/long", c08Case{Width: j.w, Big: j.n}, g, w)
			}
			c.Count(1, 1)
			c.Add("long_list_calls", 1)
		})
	}
	// (lists)
	la := []string{"", "\xa5", "\x01\x80", "a\xff\x00"}
	var lists [][]string
	for l := 0; l <= 3; l++ {
		gen.Product(len(la), l, func(ix []int) {
			ks := make([]string, l)
			for i, k := range ix {
				ks[i] = la[k]
			}
			lists = append(lists, ks)
		})
	}
	// lists of strings that SHARE A PREFIX of 8 and 9 bytes (sorted keys usually do) and continue with tails in
	// which 0x00 stands where a neighbour has another byte: every ordered list of 2 and 3 such strings -
	// element-wise means that no element inherits anything from the one before it
	for _, stem := range []string{"commonpf", "commonpfx"} {
		tails := []string{"", "A", "AB", "B\x00", "\x00", "\x00A", "BB", "\x00\x00"}
		for l := 2; l <= 3; l++ {
			gen.Product(len(tails), l, func(ix []int) {
				ks := make([]string, l)
				for i, k := range ix {
					ks[i] = stem + tails[k]
				}
				lists = append(lists, ks)
			})
		}
	}
	// (lists of word lists) ToStrs on every list of <= 3 word lists over the partial-last-byte shapes: the
	// elements are NOT whole bytes (ToStrs is defined on words, not only on what FromStrs returns)
	for _, n := range c08Widths {
		wl := c08WordLists(n)
		var cnt int64
		for l := 0; l <= 3; l++ {
			gen.Product(len(wl), l, func(ix []int) {
				arg := make([][]byte, l)
				for i, x := range ix {
					arg[i] = wl[x]
				}
				if g, w := c08ToStrsWords(n, arg); g != w {
					c.Fail(4<<50|int64(n)<<40|cnt, "ToStrsWords", "ToStrs/word-lists", c08Case{Width: n, WordLists: append([][]byte(nil), arg...)}, g, w)
				}
				cnt++
			})
			c.Expect(gen.PowInt(len(wl), l))
		}
		c.Count(cnt, cnt-1)
		c.Add("tostrs_word_list_cases", cnt)
	}
	// (lists sharing memory) ToStrs on every list of <= 3 elements that are PREFIXES OF ONE word list (the same
	// list twice, a list and its own prefix): a caller may hand over views of one buffer; element-wise means
	// that every element is packed from the words the caller passed, whatever was packed before it
	for _, n := range c08Widths {
		nb := len(c08SharedBase(n))
		var cnt int64
		for l := 1; l <= 3; l++ {
			gen.Product(nb+1, l, func(ix []int) {
				if g, w := c08ToStrsShared(n, ix); g != w {
					c.Fail(5<<50|int64(n)<<40|cnt, "ToStrsShared", "ToStrs/shared-prefixes", c08Case{Width: n, Prefixes: append([]int(nil), ix...)}, g, w)
				}
				cnt++
			})
			c.Expect(gen.PowInt(nb+1, l))
		}
		c.Count(cnt, cnt)
		c.Add("tostrs_shared_prefix_cases", cnt)
	}
	c.Expect(int64(len(lists)) * 4 * 2)
	for _, n := range c08Widths {
		for li, ks := range lists {
			var want [][]byte
			for _, k := range ks {
				want = append(want, refWords(k, n))
			}
			got, p := func() (r [][]byte, p string) {
				defer func() {
					if e := recover(); e != nil {
						p = fmt.Sprint("panic: ", e)
					}
				}()
				return bitword.BitWord[n].FromStrs(ks), ""
			}()
			if p != "" || fmt.Sprint(got) != fmt.Sprint(want) || len(got) != len(want) {
				c.Fail(3<<50|int64(n)<<32|int64(li), "FromStrs", "FromStrs", c08Case{Width: n, List: gen.BytesList(ks)}, p+fmt.Sprint(got), fmt.Sprint(want))
			} else if g2 := c08AppendPoke(got); fmt.Sprint(g2) != fmt.Sprint(want) {
				// element-wise: appending to one returned element must not change another
				c.Fail(3<<50|int64(n)<<32|int64(li), "FromStrs/append", "FromStrs/append", c08Case{Width: n, List: gen.BytesList(ks)}, "after appending to each element: "+fmt.Sprint(g2), fmt.Sprint(want))
			}
			back, p2 := func() (r []string, p string) {
				defer func() {
					if e := recover(); e != nil {
						p = fmt.Sprint("panic: ", e)
					}
				}()
				return bitword.BitWord[n].ToStrs(want), ""
			}()
			if p2 != "" || fmt.Sprintf("%x", back) != fmt.Sprintf("%x", ks) || len(back) != len(ks) {
				c.Fail(3<<50|int64(n)<<32|int64(li), "ToStrs", "ToStrs", c08Case{Width: n, List: gen.BytesList(ks)}, p2+fmt.Sprintf("%x", back), fmt.Sprintf("%x", ks))
			}
			nt := int64(0)
			if len(ks) > 0 {
				nt = 2
			}
			c.Count(2, nt)
		}
	}
}

// c08WordLists: word lists of width n with every partial-last-byte shape: lengths 0 .. 2·(8/n)+1, the
// words of list k taken from a pattern that depends on k.
func c08WordLists(n int) [][]byte {
	per := 8 / n
	var out [][]byte
	for l := 0; l <= 2*per+1; l++ {
		ws := make([]byte, l)
		for i := range ws {
			ws[i] = byte((0xb7>>uint(i%5)+i+l)&(1<<uint(n)-1)) | byte(i&1)
			ws[i] &= byte(1<<uint(n) - 1)
		}
		out = append(out, ws)
	}
	return out
}

// c08ToStrsWords judges one ToStrs call on word lists: element-wise packing.
func c08ToStrsWords(n int, lists [][]byte) (got, want string) {
	var w []string
	arg := make([][]byte, len(lists))
	for i, ws := range lists {
		w = append(w, refPack(ws, n))
		arg[i] = gen.DirtyBytes(ws)
	}
	g, p := func() (r []string, p string) {
		defer func() {
			if e := recover(); e != nil {
				p = fmt.Sprint("panic: ", e)
			}
		}()
		return bitword.BitWord[n].ToStrs(arg), ""
	}()
	return p + fmt.Sprintf("%d %x", len(g), g), fmt.Sprintf("%d %x", len(w), w)
}

// c08SharedBase: the one word list whose prefixes are the elements of the shared-memory ToStrs family.
func c08SharedBase(n int) []byte {
	wl := c08WordLists(n)
	return wl[len(wl)-1]
}

// c08ToStrsShared judges ToStrs on [base[:k] for k in ks], all views of ONE array, and ToStr on the same
// array once more afterwards.
func c08ToStrsShared(n int, ks []int) (got, want string) {
	pristine := c08SharedBase(n)
	base := append([]byte(nil), pristine...)
	var w []string
	arg := make([][]byte, len(ks))
	for i, k := range ks {
		w = append(w, refPack(pristine[:k], n))
		arg[i] = base[:k]
	}
	g, p := func() (r []string, p string) {
		defer func() {
			if e := recover(); e != nil {
				p = fmt.Sprint("panic: ", e)
			}
		}()
		return bitword.BitWord[n].ToStrs(arg), ""
	}()
	return p + fmt.Sprintf("%d %x", len(g), g), fmt.Sprintf("%d %x", len(w), w)
}

// c08GenList: n strings of 0..4 bytes whose content depends on their position.
func c08GenList(n int) []string {
	ks := make([]string, n)
	for i := range ks {
		b := []byte{byte(i), byte(i >> 8), byte(i>>16) | 0x80, 0xa5}
		ks[i] = string(b[:i%5%len(b)+i%5/4])
	}
	return ks
}

// c08LongList judges FromStrs / ToStrs on a generated list of n strings, element by element.
func c08LongList(kind string, width, n int) (got, want string) {
	defer func() {
		if e := recover(); e != nil {
			got = fmt.Sprint("panic: ", e)
		}
	}()
	want = "every element converted"
	ks := c08GenList(n)
	if kind == "FromStrsLong" {
		r := bitword.BitWord[width].FromStrs(ks)
		if len(r) != n {
			return fmt.Sprintf("%d elements", len(r)), want
		}
		for i, k := range ks {
			if string(r[i]) != string(refWords(k, width)) {
				return fmt.Sprintf("element %d of %d = %v, want %v", i, n, r[i], refWords(k, width)), want
			}
		}
		return want, want
	}
	ws := make([][]byte, n)
	for i, k := range ks {
		ws[i] = refWords(k, width)
	}
	r := bitword.BitWord[width].ToStrs(ws)
	if len(r) != n {
		return fmt.Sprintf("%d elements", len(r)), want
	}
	for i, k := range ks {
		if r[i] != k {
			return fmt.Sprintf("element %d of %d = %x, want %x", i, n, r[i], k), want
		}
	}
	return want, want
}

// c08AppendPoke appends one byte to every returned element (discarding the
// result, as a caller building on a returned slice would) and returns the
// elements as they read afterwards: independent results are unchanged.
func c08AppendPoke(rst [][]byte) [][]byte {
	for i := range rst {
		_ = append(rst[i], 0xEE)
	}
	return rst
}

func c08Judge(kind string, cs c08Case) (got, want string) {
	n := cs.Width
	a, b := string(cs.A), string(cs.B)
	if cs.Big > 0 {
		bb := make([]byte, cs.Big)
		for i := range bb {
			bb[i] = byte(i*131 + i>>8 + 7)
		}
		a = string(bb)
		bb[cs.Flip] ^= 0x10
		b = string(bb)
		if kind == "FromStr" || kind == "ToStr(FromStr)" {
			g, p := bwFromStr(n, a)
			w := refWords(a, n)
			if p != "" || string(g) != string(w) {
				return p + "FromStr differs from the reference", "FromStr equals the reference"
			}
			back, p2 := bwToStr(n, g)
			if p2 != "" || back != a {
				return p2 + "ToStr(FromStr(s)) differs from s", "ToStr(FromStr(s)) == s"
			}
			return "ok", "ok"
		}
	}
	if kind == "FromStrsLong" || kind == "ToStrsLong" {
		return c08LongList(kind, cs.Width, cs.Big)
	}
	switch kind {
	case "FromStr":
		g, p := bwFromStr(n, a)
		return p + fmt.Sprint(g), fmt.Sprint(refWords(a, n))
	case "Get":
		g, p := bwGet(n, a, cs.From)
		return p + fmt.Sprint(g), fmt.Sprint(refWords(a, n)[cs.From])
	case "ToStr(FromStr)":
		g, p := bwFromStr(n, a)
		if p != "" {
			return p, fmt.Sprintf("%x", a)
		}
		back, p2 := bwToStr(n, g)
		return p2 + fmt.Sprintf("%x", back), fmt.Sprintf("%x", a)
	case "ToStr":
		g, p := bwToStr(n, cs.Words)
		if len(cs.Words) > 40 {
			return p + digest([]byte(g)), digest([]byte(refPack(cs.Words, n)))
		}
		return p + fmt.Sprintf("%x", g), fmt.Sprintf("%x", refPack(cs.Words, n))
	case "FirstDiff":
		g, p := bwFirstDiff(n, a, b, cs.From, cs.End)
		return p + fmt.Sprint(g), fmt.Sprint(refFirstDiff(a, b, n, cs.From, cs.End))
	case "FromStrs/append":
		ks := gen.StringsOf(cs.List)
		var w [][]byte
		for _, k := range ks {
			w = append(w, refWords(k, n))
		}
		g := c08AppendPoke(bitword.BitWord[n].FromStrs(ks))
		return "after appending to each element: " + fmt.Sprint(g), "after appending to each element: " + fmt.Sprint(w)
	case "FromStrs":
		ks := gen.StringsOf(cs.List)
		var w [][]byte
		for _, k := range ks {
			w = append(w, refWords(k, n))
		}
		g, p := func() (r [][]byte, p string) {
			defer func() {
				if e := recover(); e != nil {
					p = fmt.Sprint("panic: ", e)
				}
			}()
			return bitword.BitWord[n].FromStrs(ks), ""
		}()
		return p + fmt.Sprint(len(g), g), fmt.Sprint(len(w), w)
	case "ToStrsWords":
		return c08ToStrsWords(n, cs.WordLists)
	case "ToStrsShared":
		return c08ToStrsShared(n, cs.Prefixes)
	case "ToStrs":
		ks := gen.StringsOf(cs.List)
		var w [][]byte
		for _, k := range ks {
			w = append(w, refWords(k, n))
		}
		g, p := func() (r []string, p string) {
			defer func() {
				if e := recover(); e != nil {
					p = fmt.Sprint("panic: ", e)
				}
			}()
			return bitword.BitWord[n].ToStrs(w), ""
		}()
		return p + fmt.Sprintf("%d %x", len(g), g), fmt.Sprintf("%d %x", len(ks), ks)
	}
	return "unknown kind " + kind, ""
}
