package props

import (
	"fmt"
	"sort"
	"strings"

	"github.com/openacid/low/sigbits"

	"verif/gen"
	"verif/mc"
	"verif/ref"
)

// C16: FirstDiffBits / CountPrefixes against the keys' bit strings.
// C17 (c17.go) uses the same key sets.

type c16Case struct {
	Keys []gen.Bytes `json:"keys,omitempty"`
	S    int32       `json:"s,omitempty"`
	E    int32       `json:"e,omitempty"`
	M    int32       `json:"m,omitempty"`
	Max  int32       `json:"max_size,omitempty"`
	// GenN > 0: the key list is not spelled out but generated: c16GenKeys(GenN, GenStyle)
	GenN     int `json:"generated_keys,omitempty"`
	GenStyle int `json:"generated_style,omitempty"`
	// AfterBigM: the judged call is made on a SigBits object that was first asked for c16BigM counters over the
	// whole key set (the history of the run on small sets; a replayed case carries it)
	AfterBigM bool `json:"after_big_m_call_over_the_whole_set,omitempty"`
}

func (cs c16Case) keys() []string {
	if cs.GenN > 0 {
		return c16GenKeys(cs.GenN, cs.GenStyle)
	}
	return gen.StringsOf(cs.Keys)
}

// c16GenKeys returns n strictly ascending keys. Style 0: "k" followed by the
// 3-byte big-endian counter 0..n-1 (every byte value occurs, first differences on
// every bit of the last three bytes); style 1: an 8-byte stem followed by the
// counter as 7 decimal digits (first differences beyond the first 8-byte chunk,
// only inside the digit range 0x30..0x39).
func c16GenKeys(n, style int) []string {
	if style == 2 {
		// LONG keys: n is the length of a stem shared by six of eight keys (first differences at bit
		// 8n and beyond), between a key that differs in the very first byte and agrees afterwards
		// and one that differs in the first byte the other way
		S := strings.Repeat("stemSTEM", n/8+1)[:n]
		return []string{"\x00" + S[1:] + "x", S, S + "\x00", S + "a", S + "a\x00", S + "ab", S + "b", "\xff" + S[1:]}
	}
	if style == 3 {
		// PREFIX CLASSES: for each of n one-byte keys c (0..n-1) also c+01 and c+80: every class gives two
		// adjacent pairs whose first difference is bit 8 (the key ends there), so one bit slot collects 2n pairs
		var ks []string
		for c := 0; c < n; c++ {
			ks = append(ks, string([]byte{byte(c)}), string([]byte{byte(c), 1}), string([]byte{byte(c), 0x80}))
		}
		return ks
	}
	keys := make([]string, n)
	for i := range keys {
		switch style {
		case 0:
			keys[i] = string([]byte{'k', byte(i >> 16), byte(i >> 8), byte(i)})
		default:
			keys[i] = fmt.Sprintf("stemstem%07d", i)
		}
	}
	return keys
}

// c16BigHi: the largest generated key list (threshold sizes up to it are all run).
func c16BigHi(c *mc.Ctx) int { return c.Pick(400001, 1<<20+1) }

// c16Big: FirstDiffBits and CountPrefixes on generated key lists of every
// threshold size (round numbers ±1) from 1000 keys up.
func c16Big(c *mc.Ctx) {
	sizes := gen.ThresholdSizes(1000, c16BigHi(c))
	type job struct{ n, style int }
	var jobs []job
	for i := len(sizes) - 1; i >= 0; i-- { // largest first: better load balance
		jobs = append(jobs, job{sizes[i], 0}, job{sizes[i], 1})
	}
	// LONG keys (style 2): eight keys around a shared stem of every threshold length from 81 bytes to
	// 70000 (thorough 2^20+1) bytes - lengths and first-difference positions beyond 8, 16 bits of range
	for _, l := range c16LongStems(c) {
		jobs = append(jobs, job{l, 2})
	}
	// prefix classes (style 3): 2n pairs in ONE bit slot, for n around 32, 64, 128 and at 256 (pair counts
	// around 64, 128, 256 and 512 in the eighth slot after m0)
	for _, n := range []int{31, 32, 33, 63, 64, 65, 127, 128, 129, 255, 256} {
		jobs = append(jobs, job{n, 3})
	}
	for _, j := range jobs {
		nk := j.n
		if j.style == 2 {
			nk = 8
		}
		if j.style == 3 {
			nk = 3 * j.n
		}
		c.Expect(1 + 4*int64(len(c16BigRanges(int32(nk)))))
	}
	c.Par(len(jobs), func(ji int) {
		if c.TooMany() {
			return
		}
		j := jobs[ji]
		keys := c16GenKeys(j.n, j.style)
		order := int64(5)<<56 | int64(j.n)<<8 | int64(j.style)
		cs := c16Case{GenN: j.n, GenStyle: j.style}
		want := make([]int32, 0, len(keys))
		for k := 0; k+1 < len(keys); k++ {
			want = append(want, refFirstDiff2(keys[k], keys[k+1]))
		}
		got, p := firstDiffBits(keys)
		if p != "" || !eqI32(got, want) {
			c.Fail(order, "FirstDiffBits", "FirstDiffBits", cs, p+c16DiffSummary(got, want), "equal to the reference")
		}
		evals := int64(1)
		// CountPrefixes over the whole list, its halves, and short ranges around every 1/8th
		sb := sigbits.New(keys)
		n := int32(len(keys))
		for _, r := range c16BigRanges(n) {
			m0 := int32(1 << 30)
			mx := int32(0)
			for k := r.s; k+1 < r.e; k++ {
				if want[k] < m0 {
					m0 = want[k]
				}
				if want[k] > mx {
					mx = want[k]
				}
			}
			// m = 1, 7, 17 and the FULL depth: counters for every prefix length up to two bits beyond the
			// deepest first difference of the range (so every slot of the per-bit tally is summed, also the one
			// that half of all adjacent pairs of a dense list fall into)
			for mi, m := range []int32{1, 7, 17, mx - m0 + 3} {
				if mi == 3 && j.style == 2 {
					m = 40 // long stems: the deepest difference is a few bits behind the stem
				}
				cnt := c16CountsFromDiffs(want[r.s:r.e-1], m0, int(m))
				cs2 := cs
				cs2.S, cs2.E, cs2.M = r.s, r.e, m
				gm, gc, p := func() (a int32, b []int32, p string) {
					defer func() {
						if e := recover(); e != nil {
							p = fmt.Sprint("panic: ", e)
						}
					}()
					a, b = sb.CountPrefixes(r.s, r.e, m)
					return
				}()
				if p != "" || gm != m0 || !eqI32(gc, cnt) {
					c.Fail(order|int64(m)<<4, "CountPrefixes", "CountPrefixes", cs2, fmt.Sprintf("%s(%d,%v)", p, gm, gc), fmt.Sprintf("(%d,%v)", m0, cnt))
				}
				evals++
			}
		}
		c.Count(evals, evals)
		c.Add("generated_key_lists", 1)
		if j.style == 2 {
			c.Max("longest_shared_stem_bytes", int64(j.n))
		} else if j.style != 3 {
			c.Max("largest_key_list", int64(j.n))
		}
	})
}

// c16LongStems: the stem lengths of the long-key lists (c16GenKeys style 2).
func c16LongStems(c *mc.Ctx) []int {
	return gen.ThresholdSizes(81, c.Pick(70000, 1<<20+1))
}

type c16Rg struct{ s, e int32 }

// c16BigRanges: the whole list, its halves, and short ranges around every 1/8th.
func c16BigRanges(n int32) []c16Rg {
	rgs := []c16Rg{{0, n}, {0, n/2 + 1}, {n/2 - 1, n}, {1, n - 1}}
	for k := int32(1); k < 8; k++ {
		b := int32(int64(n) * int64(k) / 8)
		rgs = append(rgs, c16Rg{b - 1, b + 1}, c16Rg{b - 2, b + 2}, c16Rg{b, b + 2})
	}
	var out []c16Rg
	for _, r := range rgs {
		if r.s >= 0 && r.e <= n && r.e-r.s >= 2 {
			out = append(out, r)
		}
	}
	return out
}

// c16CountsFromDiffs: the number of distinct t-bit prefixes among ascending keys
// is 1 + the number of adjacent pairs whose first difference lies before bit t
// (a key shorter than t bits counts as itself: it differs from its successor at
// 8*len < t). diffs are the reference first-difference positions of the range.
func c16CountsFromDiffs(diffs []int32, m0 int32, m int) []int32 {
	out := make([]int32, m)
	for i := range out {
		t := m0 + int32(i)
		cnt := int32(1)
		for _, d := range diffs {
			if d < t {
				cnt++
			}
		}
		out[i] = cnt
	}
	return out
}

func c16DiffSummary(got, want []int32) string {
	if len(got) != len(want) {
		return fmt.Sprintf("%d entries, want %d", len(got), len(want))
	}
	for i := range got {
		if got[i] != want[i] {
			return fmt.Sprintf("entry %d (keys %d and %d) is %d, want %d", i, i, i+1, got[i], want[i])
		}
	}
	return "equal to the reference"
}

func init() {
	mc.Register(&mc.Property{
		ID:     "C16",
		Word32: true,
		Level:  "exploration",
		Rule: "E1 bounded-exhaustive enumeration: key sets = every non-empty subset (in sorted order) of the 13 strings of length ≤2 over {00,'a',ff}, each behind the stems of 0/7/8/9/16/17/24/31/32/33/64/65 bytes; every subset of 12 keys built from 4 stem variants (first byte 's'/0x00/0xff, eighth byte 0x80); every subset of the 13 strings of length ≤2 over {'a',80,c3} and over {7f,80,bf} (UTF-8 continuation and lead bytes); every subset of 5 short keys behind EVERY stem length 0..80; two key sets with a full 256-byte fan-out below one key; four large key sets taken whole (31, 63, 121 and 341 keys); every subset of 12 keys built from 3 variants of a 17-byte (and of a 25-byte) stem that differ in the first 8-byte chunk and agree in the later ones × 4 tails; chains a, aa, aaa, ... of 33, 34, 65, 66 keys (C17 also 130 and 258) and a 36-level directory tree taken whole (deep nesting); every subset of the 15 strings of length ≤3 over {00,'a'} and every subset of size ≤4 of the 40 strings of length ≤3 over {00,'a',ff} behind stems of 0 and 8 bytes (thorough adds every subset of the 21 strings of length ≤2 over {00,01,'a',ff} and the subsets of size 5..6 of the 40 strings): FirstDiffBits on the set; New+CountPrefixes for every 0 ≤ s, s+2 ≤ e ≤ len and every m in {1,2,4,7,10,17,26}, preceded - on sets of 2..5 keys - by one call over the whole set with m = 3000 (m has no upper bound) on the same SigBits object; a BYTE-LANE sweep: 8-byte keys with a class byte ('a'/80/ff) in lane L and the difference in lane D, every ordered pair (L, D), all subsets of the 6 keys, stems 0 and 8. Generated key lists of EVERY threshold size n = b-1, b, b+1 (b in 2^k, 3·2^k, 10^k, 2·10^k, 5·10^k) from 1000 up to 400001 keys (thorough: 2^20+1), in two styles ('k'+3-byte big-endian counter; 8-byte stem + 7 decimal digits): FirstDiffBits on the list, CountPrefixes (m in {1,7,17} and the FULL depth: two bits beyond the deepest first difference of the range) over the whole list, its halves and short ranges around every 1/8th. PREFIX CLASSES: lists of n one-byte keys c each followed by c+01 and c+80 (2n adjacent pairs in one bit slot), n around 32, 64, 128 and 256, same calls. LONG keys: eight keys around a shared stem of EVERY threshold length 81..70000 (thorough 2^20+1) bytes (keys and shared prefixes beyond 255, 4095, 65535 bytes), same calls. An m SWEEP: every m from 1 to beyond the deepest first difference on 15 key sets whose spread between smallest and largest first-difference bit runs from a few bits to 800 (one pair differing in its first byte, another behind a shared prefix of 0..100 more bytes), all ranges. UNSORTED lists (the first clause is about every list): FirstDiffBits on every list of 1..4 (thorough 5) keys, repetitions included, over 15 keys (short keys, prefixes of each other, keys sharing 8, 16, 17 and 25 bytes, stem variants that differ early and agree later). " +
			"Oracle: first differing index of the '0'/'1' renderings (8·min(len) for a byte-prefix); m0 = minimum over the range; counter i = number of distinct values of the bit string truncated to m0+i bits (adjacent-compare count in the hot path, cross-checked against a map count). A case is one call; non-trivial when the range holds ≥3 keys or the set has a shared stem; key sets that re-occur in a later family are executed again but counted once.",
		Assumptions: []string{"key sets are drawn from small byte alphabets behind fixed stems; the 8-byte chunk boundaries are crossed through the stems"},
		Run:         c16Run,
		Judge:       mc.JudgeOf(c16Judge),
	})
}

func firstDiffBits(keys []string) (r []int32, p string) {
	defer func() {
		if e := recover(); e != nil {
			p = fmt.Sprint("panic: ", e)
		}
	}()
	return sigbits.FirstDiffBits(keys), ""
}

func countPrefixes(keys []string, s, e, m int32) (min int32, r []int32, p string) {
	defer func() {
		if e := recover(); e != nil {
			p = fmt.Sprint("panic: ", e)
		}
	}()
	sb := sigbits.New(keys)
	min, r = sb.CountPrefixes(s, e, m)
	return min, r, ""
}

// countPrefixesAfterBigM: the same call on an object that was asked for c16BigM counters over all keys first.
func countPrefixesAfterBigM(keys []string, s, e, m int32) (min int32, r []int32, p string) {
	defer func() {
		if e := recover(); e != nil {
			p = fmt.Sprint("panic: ", e)
		}
	}()
	sb := sigbits.New(keys)
	func() {
		defer func() { recover() }()
		sb.CountPrefixes(0, int32(len(keys)), c16BigM)
	}()
	min, r = sb.CountPrefixes(s, e, m)
	return min, r, ""
}

func refFirstDiff2(a, b string) int32 {
	n := len(a)
	if len(b) < n {
		n = len(b)
	}
	for i := 0; i < n; i++ {
		if a[i] != b[i] {
			x := a[i] ^ b[i]
			k := 0
			for x&0x80 == 0 {
				x <<= 1
				k++
			}
			return int32(8*i + k)
		}
	}
	return int32(8 * n)
}

// refCounts returns m0 and the first n counters for keys[s:e] (bit strings given).
func refCounts(bits []string, keys []string, s, e int32, n int) (int32, []int32) {
	m0 := int32(1 << 30)
	for k := s; k+1 < e; k++ {
		if d := refFirstDiff2(keys[k], keys[k+1]); d < m0 {
			m0 = d
		}
	}
	out := make([]int32, n)
	for i := 0; i < n; i++ {
		t := int(m0) + i
		cnt := int32(1)
		for k := s; k+1 < e; k++ {
			a, b := bits[k], bits[k+1]
			if len(a) > t {
				a = a[:t]
			}
			if len(b) > t {
				b = b[:t]
			}
			if a != b {
				cnt++
			}
		}
		out[i] = cnt
	}
	return m0, out
}

// refCountsMap is the definition taken literally: distinct truncations in a map.
func refCountsMap(bits []string, s, e int32, m0 int32, n int) []int32 {
	out := make([]int32, n)
	for i := 0; i < n; i++ {
		t := int(m0) + i
		set := map[string]bool{}
		for k := s; k < e; k++ {
			a := bits[k]
			if len(a) > t {
				a = a[:t]
			}
			set[a] = true
		}
		out[i] = int32(len(set))
	}
	return out
}

var c16Ms = []int32{1, 2, 4, 7, 10, 17, 26}

// c16MaxM: the largest member of c16Ms (the reference computes that many counters once per range).
const c16MaxM = 26

// c16BigM: a number of counters far beyond the bits of any key of the small families; asked for once per key
// set of at most c16BigMKeys keys, before the other ranges of the same SigBits object are judged.
const c16BigM, c16BigMKeys = 3000, 5

var c16Bystander = []string{"", "\x00\x00", "x", "x\x80", "yz"}

// c16KeyFamilies returns the suffix-key universes and stems per tier.
type c16Family struct {
	name    string
	univ    []string
	stems   []int
	maxSize int  // 0 = all subsets
	c17Only bool // large sets: ShardByPrefix only (C16's all-ranges sweep would be quadratic)
}

// c16Whole as maxSize: the universe itself is the only key set of the family.
const c16Whole = 1 << 20

func (f c16Family) hasSize(k int) bool {
	if f.maxSize == c16Whole {
		return k == len(f.univ)
	}
	switch {
	case f.maxSize == 0:
		return true
	case f.maxSize > 0:
		return k <= f.maxSize
	}
	return k >= 5 && k <= -f.maxSize
}

func c16Families(c *mc.Ctx) []c16Family {
	sortS := func(x []string) []string { sort.Strings(x); return x }
	f := []c16Family{{"len≤2 over {00,'a',ff}", sortS(gen.Strings([]byte{0, 'a', 0xff}, 2)), []int{0, 7, 8, 9, 16, 17, 24, 31, 32, 33, 64, 65}, 0, false}}
	// keys whose stems differ in their first byte (by ≥128) and in the last byte of the first 8-byte chunk
	var mixed []string
	for v := 0; v < c09StemVariants; v++ {
		for _, t := range []string{"", "\x00", "a"} {
			mixed = append(mixed, c09StemV(9, v)+t)
		}
	}
	f = append(f, c16Family{"4 stem variants × {'',00,'a'}", sortS(mixed), []int{0}, 0, false})
	// every stem length 0..80 (so the first difference falls on every byte position up to 80)
	var allStems []int
	for n := 0; n <= 80; n++ {
		allStems = append(allStems, n)
	}
	f = append(f, c16Family{"5 short keys behind every stem length 0..80", sortS([]string{"", "\x00", "a", "a\xff", "b"}), allStems, 0, false})
	// byte classes: UTF-8 continuation bytes (0x80..0xbf), a lead byte, 0x7f/0x80 neighbours
	f = append(f,
		c16Family{"len≤2 over {'a',80,c3}", sortS(gen.Strings([]byte{'a', 0x80, 0xc3}, 2)), []int{0, 8}, 0, false},
		c16Family{"len≤2 over {7f,80,bf}", sortS(gen.Strings([]byte{0x7f, 0x80, 0xbf}, 2)), []int{0}, 0, false})
	// large key sets taken whole (deep recursion of the sharding, long ranges)
	f = append(f,
		c16Family{"all 31 strings of len≤4 over {a,b}", sortS(gen.Strings([]byte{'a', 'b'}, 4)), []int{0, 8}, c16Whole, false},
		c16Family{"all 63 strings of len≤5 over {00,'a'}", sortS(gen.Strings([]byte{0, 'a'}, 5)), []int{0, 9}, c16Whole, false},
		c16Family{"all 121 strings of len≤4 over {00,'a',ff}", sortS(gen.Strings([]byte{0, 'a', 0xff}, 4)), []int{0, 8}, c16Whole, false},
		c16Family{"all 341 strings of len≤4 over {00,01,'a',ff}", sortS(gen.Strings([]byte{0, 1, 'a', 0xff}, 4)), []int{0}, c16Whole, false})
	// LONG stems that differ EARLY and agree LATER: 17- and 25-byte stems in 3 variants (first byte 's' /
	// 0x00 / 0xff ... eighth byte 0x80) × tails {'', 'a', 'b', 00}: adjacent keys share two or three whole
	// 8-byte chunks, the next key differs in the first chunk and repeats the later ones (what a scan that
	// resumes where the previous pair stopped would skip)
	for _, n := range []int{17, 25} {
		var ks []string
		for _, v := range []int{0, 1, 3} {
			for _, t := range []string{"", "a", "b", "\x00"} {
				ks = append(ks, c09StemV(n, v)+t)
			}
		}
		f = append(f, c16Family{name: fmt.Sprintf("3 variants of a %d-byte stem × 4 tails", n), univ: sortS(ks), stems: []int{0}, maxSize: 0})
	}
	// deep NESTING: chains in which every key is a prefix of the next (a, aa, aaa, ...: as many oversized
	// ranges nested in one another as there are keys) of 33, 34, 65, 66, 130 and 258 keys, and a
	// 36-level "directory tree" (a^k and a^k b): explicit stacks and depth limits sit at 32, 64, 128, 256
	chain := func(n int) []string {
		var ks []string
		for i := 1; i <= n; i++ {
			ks = append(ks, strings.Repeat("a", i))
		}
		return ks
	}
	for _, n := range []int{33, 34, 65, 66} {
		f = append(f, c16Family{name: fmt.Sprintf("chain of %d keys a, aa, aaa, ...", n), univ: sortS(chain(n)), stems: []int{0}, maxSize: c16Whole})
	}
	for _, n := range []int{130, 258} {
		f = append(f, c16Family{name: fmt.Sprintf("chain of %d keys a, aa, aaa, ...", n), univ: sortS(chain(n)), stems: []int{0}, maxSize: c16Whole, c17Only: true})
	}
	{
		var tree []string
		for i := 1; i <= 36; i++ {
			tree = append(tree, strings.Repeat("a", i), strings.Repeat("a", i)+"b")
		}
		f = append(f, c16Family{name: "36-level directory tree a^k, a^k b", univ: sortS(tree), stems: []int{0}, maxSize: c16Whole})
	}
	// BYTE-LANE sweep (the analogue of C02's lane sweep): whole 8-byte words in which ONE lane L holds a byte
	// of another class ('a' / 0x80 / 0xff) and ANOTHER lane D holds the difference ('X' / 'Y'), for every
	// ordered pair of lanes (L, D): the keys fill their 8-byte word completely, so code that loads a word at a
	// time (in halves, with shifts, with signed intermediates) sees a high byte in every lane while the first
	// difference lies before it, in it or after it. All subsets of the 6 keys, behind stems of 0 and 8 bytes.
	for L := 0; L < 8; L++ {
		for D := 0; D < 8; D++ {
			if D == L {
				continue
			}
			var ks []string
			for _, h := range []byte{'a', 0x80, 0xff} {
				for _, d := range []byte{'X', 'Y'} {
					k := []byte("aaaaaaaa")
					k[L], k[D] = h, d
					ks = append(ks, string(k))
				}
			}
			f = append(f, c16Family{name: fmt.Sprintf("byte lanes: 8-byte keys, class byte in lane %d, difference in lane %d", L, D), univ: sortS(ks), stems: []int{0, 8}, maxSize: 0})
		}
	}
	f = append(f, c16Family{"len≤3 over {00,'a'}", sortS(gen.Strings([]byte{0, 'a'}, 3)), []int{0, 8}, 0, false},
		c16Family{"len≤3 over {00,'a',ff}, size≤4", sortS(gen.Strings([]byte{0, 'a', 0xff}, 3)), []int{0, 8}, 4, false})
	if c.Thorough {
		f = append(f,
			c16Family{"len≤2 over {00,01,'a',ff}", sortS(gen.Strings([]byte{0, 1, 'a', 0xff}, 2)), []int{0, 8}, 0, false},
			c16Family{"len≤3 over {00,'a',ff}, size 5..6", sortS(gen.Strings([]byte{0, 'a', 0xff}, 3)), []int{0, 8}, -6, false})
	}
	// full byte fan-out: a key, the key followed by EVERY byte value (257-way split), and a few
	// deeper keys so that some sub-range has to split again
	var fan []string
	fan = append(fan, "p")
	for b := 0; b < 256; b++ {
		fan = append(fan, "p"+string([]byte{byte(b)}))
	}
	fan = append(fan, "p\x05a", "p\x05b", "p\x05c", "p\x80\x00", "p\x80\x01", "p\xff\xff", "p\xff\xff\x00")
	var single []string
	single = append(single, "")
	for b := 0; b < 256; b++ {
		single = append(single, string([]byte{byte(b)}))
	}
	single = append(single, "a\x00", "aa", "ab")
	f = append(f,
		c16Family{"full fan-out: p, p+every byte, deeper keys (264 keys)", sortS(fan), []int{0, 7}, c16Whole, false},
		c16Family{"empty key, every single byte, 3 deeper keys (260 keys)", sortS(single), []int{0}, c16Whole, false})
	// key sets of a thousand and more keys (C17 only)
	ten := []byte{0x00, 0x01, '0', 'A', 'a', 'z', 0x7f, 0x80, 0xc3, 0xff}
	var sixtyfour []byte
	for b := 0; b < 256; b += 4 {
		sixtyfour = append(sixtyfour, byte(b))
	}
	f = append(f,
		c16Family{name: "all 1111 strings of len≤3 over 10 bytes", univ: sortS(gen.Strings(ten, 3)), stems: []int{0, 8}, maxSize: c16Whole, c17Only: true},
		c16Family{name: "all 4161 strings of len≤2 over 64 bytes", univ: sortS(gen.Strings(sixtyfour, 2)), stems: []int{0}, maxSize: c16Whole, c17Only: true})
	return f
}

// eachSubset enumerates non-empty subsets of [0,n) of size ≤ max (0 = any), ascending index order inside.
func eachSubset(n, max int, lo, hi uint64, f func(ix []int)) {
	if max == c16Whole {
		if lo == 0 {
			ix := make([]int, n)
			for i := range ix {
				ix[i] = i
			}
			f(ix)
		}
		return
	}
	if max == 0 {
		ix := make([]int, 0, n)
		for m := lo; m < hi; m++ {
			if m == 0 {
				continue
			}
			ix = ix[:0]
			for k := 0; k < n; k++ {
				if m>>uint(k)&1 == 1 {
					ix = append(ix, k)
				}
			}
			f(ix)
		}
		return
	}
	// combinations by size; lo/hi select the first element
	minSize := 1
	if max < 0 {
		max = -max
		minSize = 5
	}
	var rec func(ix []int, start int)
	rec = func(ix []int, start int) {
		if len(ix) >= minSize {
			f(ix)
		}
		if len(ix) == max {
			return
		}
		for k := start; k < n; k++ {
			rec(append(ix, k), k+1)
		}
	}
	for first := int(lo); first < int(hi) && first < n; first++ {
		rec([]int{first}, first+1)
	}
}

// c16Dup reports whether the key set (suffix keys, before the stem) of family fi
// also occurs in an earlier family with the same stem; such repeats are executed
// but not counted as distinct non-trivial cases.
func c16Dup(fams []c16Family, fi, stem int, ix []int) bool {
	if fams[fi].maxSize == c16Whole {
		return false
	}
	for j := 0; j < fi; j++ {
		g := fams[j]
		if !g.hasSize(len(ix)) {
			continue
		}
		okStem := false
		for _, st := range g.stems {
			okStem = okStem || st == stem
		}
		if !okStem {
			continue
		}
		all := true
		for _, k := range ix {
			found := false
			for _, u := range g.univ {
				if u == fams[fi].univ[k] {
					found = true
					break
				}
			}
			if !found {
				all = false
				break
			}
		}
		if all {
			return true
		}
	}
	return false
}

type c16Shard struct {
	fam    int
	stem   int
	lo, hi uint64
}

func c16Shards(fams []c16Family) []c16Shard {
	var out []c16Shard
	for fi, f := range fams {
		for _, st := range f.stems {
			if f.maxSize == c16Whole {
				out = append(out, c16Shard{fi, st, 0, 1})
			} else if f.maxSize == 0 {
				total := uint64(1) << uint(len(f.univ))
				step := total / 64
				if step == 0 {
					step = total
				}
				for lo := uint64(0); lo < total; lo += step {
					out = append(out, c16Shard{fi, st, lo, lo + step})
				}
			} else {
				for first := 0; first < len(f.univ); first++ {
					out = append(out, c16Shard{fi, st, uint64(first), uint64(first + 1)})
				}
			}
		}
	}
	return out
}

func c16Run(c *mc.Ctx) {
	var fams []c16Family
	for _, f := range c16Families(c) {
		if !f.c17Only {
			fams = append(fams, f)
		}
	}
	shards := c16Shards(fams)
	c.NoExpectNote("the number of (set, s, e, m) cases is Σ over subsets of 1 + 6·C(size,2)-ish terms; it is fed from a separate counting pass over subset sizes")
	// counting pass: per subset size k: 1 FirstDiffBits + 6·(number of (s,e) with e-s≥2)
	for _, f := range fams {
		n := len(f.univ)
		for k := 1; k <= n; k++ {
			if !f.hasSize(k) {
				continue
			}
			ranges := int64(k-1) * int64(k) / 2 // pairs s<e with e-s ≥ 2: C(k+1,2)-k = k(k-1)/2
			c.Expect(binom(n, k) * int64(len(f.stems)) * (1 + int64(len(c16Ms))*ranges))
			if k >= 2 && k <= c16BigMKeys {
				c.Expect(binom(n, k) * int64(len(f.stems))) // the one call with a very large m
			}
		}
	}
	c.Par(len(shards), func(si int) {
		if c.TooMany() {
			return
		}
		sh := shards[si]
		f := fams[sh.fam]
		stem := c09Stem(sh.stem)
		univ := make([]string, len(f.univ))
		ubits := make([]string, len(f.univ))
		for i, k := range f.univ {
			univ[i] = stem + k
			ubits[i] = ref.Bits(univ[i])
		}
		var evals, nontriv, sets, cross int64
		keys := make([]string, 0, 16)
		bits := make([]string, 0, 16)
		eachSubset(len(univ), f.maxSize, sh.lo, sh.hi, func(ix []int) {
			sets++
			keys, bits = keys[:0], bits[:0]
			for _, k := range ix {
				keys = append(keys, univ[k])
				bits = append(bits, ubits[k])
			}
			dup := c16Dup(fams, sh.fam, sh.stem, ix)
			order := int64(si)<<36 | sets<<12
			mk := func(s, e, m int32) c16Case {
				return c16Case{Keys: gen.BytesList(append([]string(nil), keys...)), S: s, E: e, M: m, AfterBigM: len(keys) >= 2 && len(keys) <= c16BigMKeys && m != c16BigM}
			}
			// FirstDiffBits
			want := make([]int32, 0, len(keys))
			for k := 0; k+1 < len(keys); k++ {
				want = append(want, refFirstDiff2(keys[k], keys[k+1]))
			}
			got, p := firstDiffBits(keys)
			if p != "" || !eqI32(got, want) {
				c.Fail(order, "FirstDiffBits", "FirstDiffBits", mk(0, 0, 0), p+fmt.Sprint(got), fmt.Sprint(want))
			}
			evals++
			if !dup && (len(keys) >= 3 || sh.stem > 0) {
				nontriv++
			}
			n := int32(len(keys))
			if n < 2 {
				return
			}
			sb := sigbits.New(keys)
			// bystander: another SigBits built afterwards must not influence this one
			_ = sigbits.New(c16Bystander)
			// m has no upper bound in the statement: on small sets ONE call over the whole set asks for c16BigM
			// counters (far more than there are bits) FIRST; every range of the same object is judged afterwards
			if n <= c16BigMKeys {
				m0, cnt := refCounts(bits, keys, 0, n, c16BigM)
				gm, gc, p := func() (a int32, b []int32, p string) {
					defer func() {
						if e := recover(); e != nil {
							p = fmt.Sprint("panic: ", e)
						}
					}()
					a, b = sb.CountPrefixes(0, n, c16BigM)
					return
				}()
				if p != "" || gm != m0 || !eqI32(gc, cnt) {
					c.Fail(order|int64(n)<<8|1<<30, "CountPrefixes", "CountPrefixes", mk(0, n, c16BigM), fmt.Sprintf("%s(%d,%s)", p, gm, c16DiffSummary(gc, cnt)), fmt.Sprintf("(%d,equal to the reference)", m0))
				}
				evals++
				if !dup {
					nontriv++
				}
			}
			for s := int32(0); s+2 <= n; s++ {
				for e := s + 2; e <= n; e++ {
					m0, cnt := refCounts(bits, keys, s, e, c16MaxM)
					if sh.stem == 0 && sh.fam == 0 {
						if mc := refCountsMap(bits, s, e, m0, c16MaxM); !eqI32(mc, cnt) {
							panic(fmt.Sprintf("harness: adjacent-compare count disagrees with the map count on %q [%d,%d): %v vs %v", keys, s, e, cnt, mc))
						}
						cross++
					}
					for _, m := range c16Ms {
						gm, gc, p := func() (a int32, b []int32, p string) {
							defer func() {
								if e := recover(); e != nil {
									p = fmt.Sprint("panic: ", e)
								}
							}()
							a, b = sb.CountPrefixes(s, e, m)
							return
						}()
						if p != "" || gm != m0 || !eqI32(gc, cnt[:m]) {
							c.Fail(order|int64(s)<<8|int64(e), "CountPrefixes", "CountPrefixes", mk(s, e, m), fmt.Sprintf("%s(%d,%v)", p, gm, gc), fmt.Sprintf("(%d,%v)", m0, cnt[:m]))
						}
						evals++
						if !dup && (e-s >= 3 || sh.stem > 0) {
							nontriv++
						}
					}
				}
			}
			if sets%1777 == 5 && si%16 == 3 {
				c.ForceSample(map[string]interface{}{"keys_hex": gen.BytesList(append([]string(nil), keys...)), "firstdiffbits": want, "ranges": int64(n) * int64(n-1) / 2, "m": c16Ms})
			}
		})
		c.Count(evals, nontriv)
		c.Add("key_sets", sets)
		c.Add("map_count_crosschecks", cross)
	})
	c16Big(c)
	c16Unsorted(c)
	c16MSweep(c)
}

// c16Unsorted: the first clause holds for EVERY non-empty list of keys, sorted or not, with repeated
// keys or not: FirstDiffBits on every list of 1..4 (thorough 5) keys over 15 keys (short keys, prefixes
// of each other, keys sharing 8, 16, 17 and 25 bytes, stem variants that differ early and agree later).
// c16MSweep: EVERY m from 1 to beyond the deepest first difference, on key sets in which one pair differs in
// its first byte and another only behind a shared prefix of L more bytes (L = 0..100 around 8, 16, 32, 64): the
// spread between the smallest and the largest first-difference bit runs from a few bits to 800, and m crosses
// it - and every round number on the way (256, 257, 512) - one step at a time. All ranges, one SigBits object.
func c16MSweep(c *mc.Ctx) {
	Ls := []int{0, 1, 7, 8, 15, 16, 30, 31, 32, 33, 40, 63, 64, 65, 100}
	for _, L := range Ls {
		c.Expect(6 * int64(8*(L+3)+12))
	}
	c.Par(len(Ls), func(li int) {
		L := Ls[li]
		x := strings.Repeat("x", L)
		keys := []string{"a", "b" + x + "0", "b" + x + "1", "c"}
		bits := make([]string, len(keys))
		for i, k := range keys {
			bits[i] = ref.Bits(k)
		}
		maxM := 8*(L+3) + 12
		sb := sigbits.New(keys)
		n := int32(len(keys))
		var evals int64
		for s := int32(0); s+2 <= n; s++ {
			for e := s + 2; e <= n; e++ {
				m0, cnt := refCounts(bits, keys, s, e, maxM)
				for m := int32(1); m <= int32(maxM); m++ {
					gm, gc, p := func() (a int32, b []int32, p string) {
						defer func() {
							if e := recover(); e != nil {
								p = fmt.Sprint("panic: ", e)
							}
						}()
						a, b = sb.CountPrefixes(s, e, m)
						return
					}()
					if p != "" || gm != m0 || !eqI32(gc, cnt[:m]) {
						c.Fail(int64(6)<<56|int64(li)<<32|int64(s)<<28|int64(e)<<24|int64(m), "CountPrefixes", "CountPrefixes/m-sweep",
							c16Case{Keys: gen.BytesList(append([]string(nil), keys...)), S: s, E: e, M: m}, fmt.Sprintf("%s(%d,%s)", p, gm, c16DiffSummary(gc, cnt[:m])), fmt.Sprintf("(%d,equal to the reference)", m0))
					}
					evals++
				}
			}
		}
		c.Count(evals, evals)
		c.Add("m_sweep_cases", evals)
	})
}

func c16Unsorted(c *mc.Ctx) {
	u := []string{"", "a", "b", "\x00", "a\x00", "ab",
		c09StemV(8, 0), c09StemV(8, 0) + "a", c09StemV(9, 0), c09StemV(16, 0),
		c09StemV(17, 0) + "a", c09StemV(17, 0) + "b", c09StemV(17, 1) + "a",
		c09StemV(25, 0) + "x", c09StemV(25, 3) + "x"}
	maxLen := c.Pick(4, 5)
	c.Set("unsorted_lists_universe", len(u))
	c.Set("unsorted_lists_max_len", maxLen)
	ubits := make([]string, len(u))
	for i, k := range u {
		ubits[i] = ref.Bits(k)
	}
	// pairwise reference
	pair := make([][]int32, len(u))
	for i := range u {
		pair[i] = make([]int32, len(u))
		for j := range u {
			a, b := ubits[i], ubits[j]
			d := 0
			for d < len(a) && d < len(b) && a[d] == b[d] {
				d++
			}
			pair[i][j] = int32(d)
		}
	}
	for l := 1; l <= maxLen; l++ {
		c.Expect(gen.PowInt(len(u), l))
	}
	c.Par(len(u), func(first int) {
		var evals, nontriv int64
		for l := 1; l <= maxLen; l++ {
			gen.Product(len(u), l-1, func(rest []int) {
				ix := append([]int{first}, rest...)
				keys := make([]string, l)
				want := make([]int32, 0, l)
				sorted := true
				for k, x := range ix {
					keys[k] = u[x]
					if k > 0 {
						want = append(want, pair[ix[k-1]][x])
						if u[ix[k-1]] >= u[x] {
							sorted = false
						}
					}
				}
				got, p := firstDiffBits(keys)
				if p != "" || !eqI32(got, want) {
					c.Fail(20<<50|int64(first)<<40|evals, "FirstDiffBits", "FirstDiffBits/unsorted", c16Case{Keys: gen.BytesList(keys)}, p+fmt.Sprint(got), fmt.Sprint(want))
				}
				evals++
				if !sorted && l >= 3 {
					nontriv++
				}
			})
		}
		c.Count(evals, nontriv)
		c.Add("unsorted_lists", evals)
	})
}

func binom(n, k int) int64 {
	if k < 0 || k > n {
		return 0
	}
	r := int64(1)
	for i := 1; i <= k; i++ {
		r = r * int64(n-k+i) / int64(i)
	}
	return r
}

func c16Judge(kind string, cs c16Case) (got, want string) {
	keys := cs.keys()
	if cs.GenN > 0 {
		// generated lists: the reference is the byte-wise first difference (the bit-string
		// rendering of 10^6 keys is not needed)
		diffs := make([]int32, 0, len(keys))
		for k := 0; k+1 < len(keys); k++ {
			diffs = append(diffs, refFirstDiff2(keys[k], keys[k+1]))
		}
		switch kind {
		case "FirstDiffBits":
			g, p := firstDiffBits(keys)
			return p + c16DiffSummary(g, diffs), "equal to the reference"
		case "CountPrefixes":
			m0 := int32(1 << 30)
			for _, d := range diffs[cs.S : cs.E-1] {
				if d < m0 {
					m0 = d
				}
			}
			cnt := c16CountsFromDiffs(diffs[cs.S:cs.E-1], m0, int(cs.M))
			gm, gc, p := countPrefixes(keys, cs.S, cs.E, cs.M)
			return fmt.Sprintf("%s(%d,%v)", p, gm, gc), fmt.Sprintf("(%d,%v)", m0, cnt)
		}
	}
	bits := make([]string, len(keys))
	for i, k := range keys {
		bits[i] = ref.Bits(k)
	}
	switch kind {
	case "FirstDiffBits":
		w := []int32{}
		for k := 0; k+1 < len(keys); k++ {
			a, b := bits[k], bits[k+1]
			d := 0
			for d < len(a) && d < len(b) && a[d] == b[d] {
				d++
			}
			w = append(w, int32(d))
		}
		g, p := firstDiffBits(keys)
		return p + fmt.Sprint(g), fmt.Sprint(w)
	case "CountPrefixes":
		m0, _ := refCounts(bits, keys, cs.S, cs.E, 0)
		cnt := refCountsMap(bits, cs.S, cs.E, m0, int(cs.M))
		if cs.M == c16BigM || cs.M > 40 {
			gm, gc, p := countPrefixes(keys, cs.S, cs.E, cs.M)
			return fmt.Sprintf("%s(%d,%s)", p, gm, c16DiffSummary(gc, cnt)), fmt.Sprintf("(%d,equal to the reference)", m0)
		}
		f := countPrefixes
		if cs.AfterBigM {
			f = countPrefixesAfterBigM
		}
		gm, gc, p := f(keys, cs.S, cs.E, cs.M)
		return fmt.Sprintf("%s(%d,%v)", p, gm, gc), fmt.Sprintf("(%d,%v)", m0, cnt)
	}
	return "unknown kind " + kind, ""
}
