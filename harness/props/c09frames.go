package props

import "github.com/openacid/low/bitstr"

// StrCmpUpto's hidden input. The function reinterprets a 2-word string header
// as a 3-word slice header, so (before its repair) the capacity it hands to
// CmpUpto is whatever word follows the string in the caller's frame. The harness
// owns that nondeterminism by calling it from a fixed alphabet of call frames,
// each after a call that fills the dead stack with a known pattern.

var c09Sink int

//go:noinline
func c09Poison(v byte) int {
	var buf [2048]byte
	for i := range buf {
		buf[i] = v
	}
	s := 0
	for i := 0; i < len(buf); i += 97 {
		s += int(buf[i])
	}
	return s
}

//go:noinline
func c09FrameDirect(a string, b []byte) int { return bitstr.StrCmpUpto(a, b) }

//go:noinline
func c09FrameFuncValue(a string, b []byte) int {
	f := bitstr.StrCmpUpto
	if c09Sink == 12345 {
		f = nil
	}
	return f(a, b)
}

//go:noinline
func c09KeepS(p *string) { _ = p }

//go:noinline
func c09KeepB(p *[]byte) { _ = p }

//go:noinline
func c09KeepI(p *[2]int) { _ = p }

// The callers below own address-taken locals, which the compiler must keep in
// the frame next to the (inlined) string argument. The gc compiler orders frame
// slots by (has pointers, needs zeroing, size, name): locals of the string's
// size class whose name sorts before the inlined parameter name "a" end up
// directly above it — hence the upper-case names.

//go:noinline
func c09FrameZeroString(a string, b []byte) int {
	var Z string
	c09KeepS(&Z)
	r := bitstr.StrCmpUpto(a, b)
	c09KeepS(&Z)
	return r
}

//go:noinline
func c09FrameTwoZeroStrings(a string, b []byte) int {
	var Y, Z string
	c09KeepS(&Y)
	c09KeepS(&Z)
	r := bitstr.StrCmpUpto(a, b)
	c09KeepS(&Y)
	c09KeepS(&Z)
	return r
}

//go:noinline
func c09FrameNilSlice(a string, b []byte) int {
	var Z []byte
	c09KeepB(&Z)
	r := bitstr.StrCmpUpto(a, b)
	c09KeepB(&Z)
	return r
}

//go:noinline
func c09FrameSmallInts(a string, b []byte) int {
	Z := [2]int{1, 1}
	c09KeepI(&Z)
	r := bitstr.StrCmpUpto(a, b)
	c09KeepI(&Z)
	return r
}

//go:noinline
func c09FrameZeroInts(a string, b []byte) int {
	var Z [2]int
	c09KeepI(&Z)
	r := bitstr.StrCmpUpto(a, b)
	c09KeepI(&Z)
	return r
}

//go:noinline
func c09FrameLoop(a string, b []byte) int {
	r := 0
	for i := 0; i < 2; i++ {
		r = bitstr.StrCmpUpto(a, b)
	}
	return r
}

type c09Frame struct {
	Name string
	F    func(string, []byte) int
}

var c09Frames = []c09Frame{
	{"direct", c09FrameDirect},
	{"funcvalue", c09FrameFuncValue},
	{"zerostring", c09FrameZeroString},
	{"twozerostrings", c09FrameTwoZeroStrings},
	{"nilslice", c09FrameNilSlice},
	{"smallints", c09FrameSmallInts},
	{"zeroints", c09FrameZeroInts},
	{"loop", c09FrameLoop},
}
