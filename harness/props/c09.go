package props

import (
	"fmt"
	"sort"

	"github.com/openacid/low/bitstr"

	"verif/gen"
	"verif/mc"
	"verif/ref"
)

// C09: bitstr encodings order and truncate-compare like the bits they hold.

type c09Src struct {
	S    gen.Bytes `json:"s"`
	From int32     `json:"from"`
	To   int32     `json:"to"`
}

type c09Case struct {
	A     c09Src    `json:"a"`
	B     *c09Src   `json:"b,omitempty"`
	Plain gen.Bytes `json:"plain,omitempty"`
	// very long sources are named, not spelled out: c09LongSrc(len, flip) with window [0, to)
	LongA *c09Long `json:"long_a,omitempty"`
	LongB *c09Long `json:"long_b,omitempty"`
}

type c09Long struct {
	Len  int   `json:"len"`
	Flip int   `json:"flip"` // -1: none; otherwise the byte whose top bit is flipped
	To   int32 `json:"to"`
}

// c09LongSrc: the generated string of l bytes, byte `flip` with its top bit flipped.
func c09LongSrc(l, flip int) string {
	bb := make([]byte, l)
	for i := range bb {
		bb[i] = byte(i*29 + 5)
	}
	if flip >= 0 {
		bb[flip] ^= 0x80
	}
	return string(bb)
}

// c09RefCmpPrefix compares the first ta bits of a with the first tb bits of b as bit strings
// (lexicographic, proper prefix first), byte-wise - for strings too long to render as '0'/'1'.
func c09RefCmpPrefix(a string, ta int, b string, tb int) int {
	m := ta
	if tb < m {
		m = tb
	}
	if x, y := a[:m/8], b[:m/8]; x != y {
		if x < y {
			return -1
		}
		return 1
	}
	if r := m % 8; r != 0 {
		x, y := a[m/8]>>uint(8-r), b[m/8]>>uint(8-r)
		if x != y {
			if x < y {
				return -1
			}
			return 1
		}
	}
	switch {
	case ta < tb:
		return -1
	case ta > tb:
		return 1
	}
	return 0
}

// c09LongOne judges Len, Cmp (both orders), CmpUpto and StrCmpUpto for one pair of very long sources.
func c09LongOne(a, b c09Long) (got, want string) {
	sa, sb := c09LongSrc(a.Len, a.Flip), c09LongSrc(b.Len, b.Flip)
	ea, p1 := bsNew(sa, 0, a.To)
	eb, p2 := bsNew(sb, 0, b.To)
	if p1 != "" || p2 != "" {
		return "New: " + p1 + p2, "two encodings"
	}
	la, p3 := bsLen(ea)
	ea, eb = gen.DirtyBytes(ea), gen.DirtyBytes(eb)
	c1, pp1 := bsCmp(ea, eb)
	c2, pp2 := bsCmp(eb, ea)
	w := c09RefCmpPrefix(sa, int(a.To), sb, int(b.To))
	// the plain bytes of a's source against b's encoding: only b's bits count
	ta := 8 * len(sa)
	if ta > int(b.To) {
		ta = int(b.To)
	}
	wu := c09RefCmpPrefix(sa, ta, sb, int(b.To))
	u1, pp3 := bsCmpUpto(gen.DirtyBytes([]byte(sa)), eb)
	u2, pp4 := bsStrCmpUpto(c09Frames[0].F, sa, eb)
	return fmt.Sprintf("Len(a)=%s%d Cmp(a,b)=%d Cmp(b,a)=%d CmpUpto(plain a,b)=%d StrCmpUpto=%d panics=%v", p3, la, c1, c2, u1, u2, []bool{pp1, pp2, pp3, pp4}),
		fmt.Sprintf("Len(a)=%d Cmp(a,b)=%d Cmp(b,a)=%d CmpUpto(plain a,b)=%d StrCmpUpto=%d panics=%v", a.To, w, -w, wu, wu, []bool{false, false, false, false})
}

func init() {
	mc.Register(&mc.Property{
		ID:     "C09",
		Word32: true,
		Level:  "exploration",
		Rule: "E1 bounded-exhaustive enumeration: sources (s,from,to) = every string of length ≤3 over a small byte alphabet, every byte value as a one-byte string, also behind stems of 7/8/9 (thorough: 15/16/17) bytes in 4 variants (first byte 's' / 0x00 / 0xff, eighth byte 0x80), × every 0 ≤ from ≤ to ≤ 8·len, plus a from sweep (every start bit of strings of 9 / 17 / 33 bytes with ends at the start, one bit on and at the last two positions), plus a byte-lane sweep (8-byte words with a class byte 'a'/80/ff in lane L and the difference in lane D, every ordered pair of lanes, alone and followed by one byte), plus EVERY stem length 0..40 with the last 10 bit positions as ends (stemmed: from in {0,8}, to around the stem end and in the tail); per source Len(New(..)) and Cmp with the canonical encoding of the same bit string must be 0; Cmp on ALL ordered pairs of canonical encodings (one per distinct bit string); " +
			"plus 96 sources of 2^8 and 2^12 (±1) bytes compared in all pairs, and 48 sources of 2^16 (±1) bytes (thorough also 2^20+1) in all ordered pairs: Len, Cmp both ways, CmpUpto, StrCmpUpto against a byte-wise reference; CmpUpto and StrCmpUpto (from a fixed alphabet of call frames, after poisoning the dead stack with 0x00 and 0xff) on plain strings × all canonical encodings, plus a LENGTH SWEEP: encodings of every payload length 1..136 bytes × 4 end bits against plain keys 2 shorter .. 3 longer and 40 longer, equal or differing in the last compared byte / the first byte beyond it. Oracle: Go string comparison of '0'/'1' renderings (lexicographic, proper prefix first). A case is one call; non-trivial when both bit strings are non-empty.",
		Assumptions: []string{
			"byte values outside the alphabet and longer strings are not enumerated; lengths straddle the 8-byte fast-path switch through the stems",
			"StrCmpUpto's dependence on neighbouring stack words is covered for the harness's call frames and this toolchain only",
		},
		Run:   c09Run,
		Judge: mc.JudgeOf(c09Judge),
	})
}

func bsNew(s string, from, to int32) (r []byte, p string) {
	defer func() {
		if e := recover(); e != nil {
			p = fmt.Sprint("panic: ", e)
		}
	}()
	return bitstr.New(s, from, to), ""
}

func bsLen(b []byte) (r int32, p string) {
	defer func() {
		if e := recover(); e != nil {
			p = fmt.Sprint("panic: ", e)
		}
	}()
	return bitstr.Len(b), ""
}

func bsCmp(a, b []byte) (r int, p bool) {
	defer func() {
		if recover() != nil {
			p = true
		}
	}()
	return bitstr.Cmp(a, b), false
}

func bsCmpUpto(a, b []byte) (r int, p bool) {
	defer func() {
		if recover() != nil {
			p = true
		}
	}()
	return bitstr.CmpUpto(a, b), false
}

func bsStrCmpUpto(f func(string, []byte) int, a string, b []byte) (r int, p bool) {
	defer func() {
		if recover() != nil {
			p = true
		}
	}()
	return f(a, b), false
}

// c09Bits is the bit string a source denotes.
func c09Bits(s string, from, to int32) string {
	return ref.Bits(s)[8*(from/8) : to]
}

type c09Enc struct {
	src  c09Src
	bits string
	enc  []byte
}

func c09Stem(n int) string {
	const base = "stemSTEMstemSTEMstemSTEMstemSTEMstemSTEMstemSTEMstemSTEMstemSTEMstemSTEMstemSTEMstemSTEMstemSTEM"
	return base[:n]
}

// c09StemV is stem variant v: the stems differ in their FIRST byte (0x00 / 0xff
// against 's': differences of 128 and more at the most significant end of an
// 8-byte word) and in the last byte of the first 8-byte word, so that pairs of
// long strings differ inside, at the end of and after their first word.
const c09StemVariants = 4

func c09StemV(n, v int) string {
	b := []byte(c09Stem(n))
	switch v {
	case 1:
		if n > 0 {
			b[0] = 0x00
		}
	case 2:
		if n > 0 {
			b[0] = 0xff
		}
	case 3:
		if n > 7 {
			b[7] = 0x80
		}
	}
	return string(b)
}

// c09Sources lists the declared sources in simplest-first order.
func c09Sources(c *mc.Ctx) []c09Src {
	alpha := []byte{0x00, 0x01, 0x7f, 0x80, 0xff, 'a', 0xc3}
	stems := []int{7, 8, 9}
	if c.Thorough {
		alpha = []byte{0x00, 0x01, 0x7f, 0x80, 0xff, 'a', 0xc3, 0xbf, 0xa5}
		stems = []int{7, 8, 9, 15, 16, 17}
	}
	tails := gen.Strings(alpha, 3)
	var out []c09Src
	for _, s := range tails {
		n := int32(8 * len(s))
		for from := int32(0); from <= n; from++ {
			for to := from; to <= n; to++ {
				out = append(out, c09Src{gen.Bytes(s), from, to})
			}
		}
	}
	short := gen.Strings(alpha, 2)
	// every byte value as a one-byte string (aligned end and an unaligned one)
	inAlpha := map[byte]bool{}
	for _, b := range alpha {
		inAlpha[b] = true
	}
	for b := 0; b < 256; b++ {
		if !inAlpha[byte(b)] {
			x := gen.Bytes([]byte{byte(b)})
			out = append(out, c09Src{x, 0, 8}, c09Src{x, 0, 5})
		}
	}
	seen := map[string]bool{}
	// every stem length 0..40 with two tails and the last 10 bit positions as ends
	for st := 0; st <= 40; st++ {
		for _, v := range []int{0, 2} {
			for _, t := range []string{"", "\x80"} {
				s := c09StemV(st, v) + t
				n := int32(8 * len(s))
				for _, from := range []int32{0, 8} {
					for to := n - 10; to <= n; to++ {
						if to >= from && from <= n {
							out = append(out, c09Src{gen.Bytes(s), from, to})
						}
					}
				}
			}
		}
	}
	// FROM sweep on longer strings: every start bit 0..8*len of strings of 9, 17 and 33 bytes (two stem
	// variants, tail 0x80) with ends right at the start, one bit on, and at the last two positions - New keeps
	// the bytes from 8*floor(from/8) on, wherever that lies relative to the 8-byte words of the string
	for _, st := range []int{8, 16, 32} {
		for _, v := range []int{0, 2} {
			s := c09StemV(st, v) + "\x80"
			n := int32(8 * len(s))
			for from := int32(0); from <= n; from++ {
				for _, to := range []int32{from, from + 1, n - 1, n} {
					if to >= from && to <= n {
						out = append(out, c09Src{gen.Bytes(s), from, to})
					}
				}
			}
		}
	}
	// BYTE-LANE sweep (as in C16/C17, round 11): whole 8-byte words with a class byte ('a' / 0x80 / 0xff) in
	// lane L and the difference ('X' / 'Y') in lane D, for every ordered pair of lanes - alone and followed by
	// one more byte, aligned end and an end 3 bits short
	for _, k := range c09LaneKeys() {
		for _, t := range []string{"", "z"} {
			s := k + t
			n := int32(8 * len(s))
			out = append(out, c09Src{gen.Bytes(s), 0, n})
			if t == "" {
				out = append(out, c09Src{gen.Bytes(s), 0, n - 3})
			}
		}
	}
	for _, st := range stems {
		for v := 0; v < c09StemVariants; v++ {
			stem := c09StemV(st, v)
			if seen[stem] {
				continue
			}
			seen[stem] = true
			for _, t := range short {
				s := stem + t
				n := int32(8 * len(s))
				for _, from := range []int32{0, 8} {
					for to := int32(8*st - 9); to <= n; to++ {
						if to >= from {
							out = append(out, c09Src{gen.Bytes(s), from, to})
						}
					}
				}
			}
		}
	}
	return out
}

// c09LaneKeys: the distinct 8-byte strings "aaaaaaaa" with lane L set to 'a' / 0x80 / 0xff and lane D != L set
// to 'X' / 'Y'.
func c09LaneKeys() []string {
	seen := map[string]bool{}
	var out []string
	for L := 0; L < 8; L++ {
		for D := 0; D < 8; D++ {
			if D == L {
				continue
			}
			for _, h := range []byte{'a', 0x80, 0xff} {
				for _, d := range []byte{'X', 'Y'} {
					k := []byte("aaaaaaaa")
					k[L], k[D] = h, d
					if !seen[string(k)] {
						seen[string(k)] = true
						out = append(out, string(k))
					}
				}
			}
		}
	}
	return out
}

func c09Plains(c *mc.Ctx) []string {
	alpha := []byte{0x00, 0x01, 0x7f, 0x80, 0xff, 'a'}
	stems := []int{0, 7, 8, 9}
	if c.Thorough {
		stems = []int{0, 6, 7, 8, 9, 15, 16, 17}
	}
	var out []string
	seen := map[string]bool{}
	for st := 10; st <= 40; st++ {
		if st >= 15 && st <= 17 {
			continue // in the stem list of the thorough tier
		}
		for _, v := range []int{0, 2} {
			out = append(out, c09StemV(st, v), c09StemV(st, v)+"\x80")
		}
	}
	out = append(out, c09LaneKeys()...)
	for _, st := range stems {
		for v := 0; v < c09StemVariants; v++ {
			stem := c09StemV(st, v)
			if seen[stem] && st > 0 {
				continue
			}
			if st == 0 && v > 0 {
				continue
			}
			seen[stem] = true
			for _, t := range gen.Strings(alpha, 2) {
				out = append(out, stem+t)
			}
		}
	}
	return out
}

func c09Run(c *mc.Ctx) {
	srcs := c09Sources(c)
	c.Set("sources", len(srcs))
	// per source: New, Len, and agreement with the canonical encoding of the same bits
	canon := map[string]int{}
	var encs []c09Enc
	var evals, nontriv int64
	c.Expect(int64(len(srcs)) * 2)
	for si, src := range srcs {
		bits := c09Bits(string(src.S), src.From, src.To)
		e, p := bsNew(string(src.S), src.From, src.To)
		if p != "" {
			c.Fail(int64(si), "New", "New", c09Case{A: src}, p, "an encoding of "+bits)
			evals += 2
			continue
		}
		l, p2 := bsLen(e)
		if p2 != "" || int(l) != len(bits) {
			c.Fail(int64(si), "Len", "Len", c09Case{A: src}, p2+fmt.Sprint(l), fmt.Sprint(len(bits)))
		}
		ci, ok := canon[bits]
		if !ok {
			canon[bits] = len(encs)
			// kept with dirty spare capacity (a window into a larger buffer): Cmp/CmpUpto/StrCmpUpto
			// must not read beyond the length of an encoding
			encs = append(encs, c09Enc{src, bits, gen.DirtyBytes(e)})
		} else {
			r, pp := bsCmp(e, encs[ci].enc)
			r2, pp2 := bsCmp(encs[ci].enc, e)
			if pp || pp2 || r != 0 || r2 != 0 {
				b := encs[ci].src
				c.Fail(int64(si), "Cmp", "Cmp/equal-bits", c09Case{A: src, B: &b}, "", "")
			}
		}
		evals += 2
		if len(bits) > 0 {
			nontriv += 2
		}
	}
	c.Count(evals, nontriv)
	c.Set("distinct_bit_strings", len(encs))
	if len(encs) > 40 {
		e := encs[len(encs)/2]
		c.ForceSample(map[string]interface{}{"fn": "New/Len", "s": fmt.Sprintf("%x", string(e.src.S)), "from": e.src.From, "to": e.src.To, "bits": e.bits, "encoding": fmt.Sprintf("%x", e.enc)})
	}

	// Cmp on all ordered pairs
	n := len(encs)
	c.Expect(int64(n) * int64(n))
	c.Par(n, func(i int) {
		if c.TooMany() {
			return
		}
		a := encs[i]
		var nt int64
		for j := range encs {
			b := encs[j]
			want := ref.Sign(a.bits, b.bits)
			got, p := bsCmp(a.enc, b.enc)
			if p || got != want {
				bs := b.src
				c.Fail(1<<40|int64(i)<<20|int64(j), "Cmp", "Cmp", c09Case{A: a.src, B: &bs}, "", "")
			}
			if len(a.bits) > 0 && len(b.bits) > 0 {
				nt++
			}
		}
		c.Count(int64(n), nt)
		c.Add("cmp_pairs", int64(n))
	})

	// CmpUpto / StrCmpUpto
	plains := c09Plains(c)
	nf := int64(len(c09Frames))
	c.Expect(int64(len(plains)) * int64(n) * (1 + 2*nf))
	c.Par(len(plains), func(pi int) {
		if c.TooMany() {
			return
		}
		a := plains[pi]
		abits := ref.Bits(a)
		var nt int64
		for j := range encs {
			b := encs[j]
			t := abits
			if len(t) > len(b.bits) {
				t = t[:len(b.bits)]
			}
			want := ref.Sign(t, b.bits)
			buf := gen.DirtyBytes([]byte(a)) // the key, too, is a window into a larger buffer
			got, p := bsCmpUpto(buf, b.enc)
			bs := b.src
			if p || got != want {
				c.Fail(2<<40|int64(pi)<<20|int64(j), "CmpUpto", "CmpUpto", c09Case{A: b.src, Plain: gen.Bytes(a)}, "", "")
			}
			if string(buf) != a {
				c.Fail(2<<40|int64(pi)<<20|int64(j), "CmpUpto/writes", "CmpUpto/writes", c09Case{A: b.src, Plain: gen.Bytes(a)}, "", "")
			}
			bad := false
			for _, pat := range []byte{0x00, 0xff} {
				for _, fr := range c09Frames {
					c09Sink += c09Poison(pat)
					g2, p2 := bsStrCmpUpto(fr.F, a, b.enc)
					if (p2 || g2 != want) && !bad {
						bad = true
						c.Fail(3<<40|int64(pi)<<20|int64(j), "StrCmpUpto", "StrCmpUpto", c09Case{A: bs, Plain: gen.Bytes(a)}, "", "")
					}
				}
			}
			if len(abits) > 0 && len(b.bits) > 0 {
				nt += 1 + 2*nf
			}
		}
		c.Count(int64(n)*(1+2*nf), nt)
		c.Add("cmpupto_pairs", int64(n))
	})
	// big strings: sources of 2^8 and 2^12 (±1) bytes, compared among themselves and with plain keys
	{
		var big []c09Enc
		var evals int64
		pow := map[int]bool{255: true, 256: true, 257: true, 4095: true, 4096: true, 4097: true}
		{
			// plus every round-number threshold in between (3·2^k, 10^k, 2·10^k, 5·10^k, 2^k, each ±1), with
			// fewer variants each
			for _, l := range gen.SizesAround(8, 12, []int{-1, 0, 1}) {
				flips := []int{-1, 0, l / 2, l - 1}
				tos := []int32{int32(8 * l), int32(8*l - 3), int32(8*l - 8), int32(8*l - 13)}
				if !pow[l] {
					flips, tos = []int{-1, l - 1}, tos[:2]
				}
				for _, flip := range flips {
					bb := make([]byte, l)
					for i := range bb {
						bb[i] = byte(i*29 + 5)
					}
					if flip >= 0 {
						bb[flip] ^= 0x80
					}
					sB := string(bb)
					for _, to := range tos {
						src := c09Src{gen.Bytes(sB), 0, to}
						e, pp := bsNew(sB, 0, to)
						bits := c09Bits(sB, 0, to)
						if pp != "" {
							c.Fail(4<<40|int64(l)<<8, "New", "New/big", c09Case{A: src}, pp, "an encoding")
							continue
						}
						if ln, p2 := bsLen(e); p2 != "" || int(ln) != len(bits) {
							c.Fail(4<<40|int64(l)<<8, "Len", "Len/big", c09Case{A: src}, p2+fmt.Sprint(ln), fmt.Sprint(len(bits)))
						}
						evals++
						big = append(big, c09Enc{src, bits, gen.DirtyBytes(e)})
					}
				}
			}
		}
		for i := range big {
			for j := range big {
				a, b := big[i], big[j]
				if got, pp := bsCmp(a.enc, b.enc); pp || got != ref.Sign(a.bits, b.bits) {
					bs := b.src
					c.Fail(4<<40|int64(i)<<20|int64(j), "Cmp", "Cmp/big", c09Case{A: a.src, B: &bs}, "", "")
				}
				// the plain bytes of a's source against b's encoding
				plain := string(a.src.S)
				t := ref.Bits(plain)
				if len(t) > len(b.bits) {
					t = t[:len(b.bits)]
				}
				want := ref.Sign(t, b.bits)
				if got, pp := bsCmpUpto(gen.DirtyBytes([]byte(plain)), b.enc); pp || got != want {
					c.Fail(4<<40|int64(i)<<20|int64(j), "CmpUpto", "CmpUpto/big", c09Case{A: b.src, Plain: gen.Bytes(plain)}, "", "")
				}
				if got, pp := bsStrCmpUpto(c09Frames[0].F, plain, b.enc); pp || got != want {
					c.Fail(4<<40|int64(i)<<20|int64(j), "StrCmpUpto", "StrCmpUpto/big", c09Case{A: b.src, Plain: gen.Bytes(plain)}, "", "")
				}
				evals += 3
			}
		}
		c.Count(evals, evals)
		c.Expect(evals)
		c.Add("big_string_cases", evals)
	}
	// LENGTH SWEEP for CmpUpto / StrCmpUpto: an encoding of EVERY payload length 1..136 bytes (4 end bits in
	// the last byte) against plain keys of the same bytes that are 2 shorter .. 3 longer and 40 longer than
	// the payload - equal, and differing (below / above) in the last compared byte or in the first byte
	// beyond it: a copy into a fixed-size buffer, a length class, an off-by-one on the trailing mask byte
	{
		base := make([]byte, 200)
		for i := range base {
			base[i] = byte('a' + (i*7+i/13)%23)
		}
		type lj struct {
			p, to, k, at int
			d            int
		}
		var ljs []lj
		for p := 1; p <= 136; p++ {
			for _, to := range []int{8*p - 7, 8*p - 4, 8*p - 1, 8 * p} {
				for _, k := range []int{p - 2, p - 1, p, p + 1, p + 2, p + 3, p + 40} {
					if k < 0 {
						continue
					}
					ljs = append(ljs, lj{p, to, k, -1, 0})
					for _, at := range []int{p - 1, p} {
						if at < k {
							ljs = append(ljs, lj{p, to, k, at, -1}, lj{p, to, k, at, 1})
						}
					}
				}
			}
		}
		c.Expect(int64(2 * len(ljs)))
		c.Par(len(ljs), func(i int) {
			j := ljs[i]
			plain := append([]byte(nil), base[:j.k]...)
			if j.at >= 0 {
				plain[j.at] = byte(int(plain[j.at]) + j.d*0x11)
			}
			cs := c09Case{A: c09Src{gen.Bytes(base[:j.p]), 0, int32(j.to)}, Plain: gen.Bytes(plain)}
			for ki, kind := range []string{"CmpUpto", "StrCmpUpto"} {
				if g, w := c09Judge(kind, cs); g != w {
					c.Fail(6<<40|int64(i)<<1|int64(ki), kind, kind+"/length-sweep", cs, g, w)
				}
			}
			c.Count(2, 2)
			c.Add("upto_length_sweep_cases", 2)
		})
	}
	// very long strings: 2^16 (±1) bytes, thorough also 2^20+1 - lengths and bit counts beyond 16 bits of
	// range; 16 sources per length (top bit of no byte / the first / the middle / the last byte flipped ×
	// 4 window ends), all ordered pairs, byte-wise reference
	{
		lens := []int{65535, 65536, 65537}
		if c.Thorough {
			lens = append(lens, 1<<20+1)
		}
		var srcs []c09Long
		for _, l := range lens {
			for _, flip := range []int{-1, 0, l / 2, l - 1} {
				for _, to := range []int32{int32(8 * l), int32(8*l - 3), int32(8*l - 8), int32(8*l - 13)} {
					srcs = append(srcs, c09Long{l, flip, to})
				}
			}
		}
		c.Expect(int64(len(srcs)) * int64(len(srcs)))
		c.Par(len(srcs), func(i int) {
			if c.TooMany() {
				return
			}
			for j := range srcs {
				a, b := srcs[i], srcs[j]
				if g, w := c09LongOne(a, b); g != w {
					c.Fail(6<<40|int64(i)<<20|int64(j), "Long", "very-long-strings", c09Case{LongA: &a, LongB: &b}, g, w)
				}
			}
			c.Count(int64(len(srcs)), int64(len(srcs)))
			c.Add("very_long_string_pairs", int64(len(srcs)))
		})
	}
	if n > 40 {
		b := encs[n/3]
		c.ForceSample(map[string]interface{}{"fn": "CmpUpto/StrCmpUpto", "plain": fmt.Sprintf("%x", plains[len(plains)/2]), "b_bits": b.bits, "frames": len(c09Frames), "stack_patterns": []string{"0x00", "0xff"}})
	}
}

func c09Judge(kind string, cs c09Case) (got, want string) {
	if kind == "Long" {
		return c09LongOne(*cs.LongA, *cs.LongB)
	}
	abits := c09Bits(string(cs.A.S), cs.A.From, cs.A.To)
	ea, p := bsNew(string(cs.A.S), cs.A.From, cs.A.To)
	if kind != "New" && kind != "Len" && p == "" {
		ea = gen.DirtyBytes(ea)
	}
	switch kind {
	case "New":
		return p + fmt.Sprintf("%x", ea), "an encoding of " + abits
	case "Len":
		if p != "" {
			return p, fmt.Sprint(len(abits))
		}
		l, p2 := bsLen(ea)
		return p2 + fmt.Sprint(l), fmt.Sprint(len(abits))
	case "Cmp":
		bbits := c09Bits(string(cs.B.S), cs.B.From, cs.B.To)
		eb, p2 := bsNew(string(cs.B.S), cs.B.From, cs.B.To)
		if p != "" || p2 != "" {
			return "New: " + p + p2, ""
		}
		eb = gen.DirtyBytes(eb)
		r, pp := bsCmp(ea, eb)
		r2, pp2 := bsCmp(eb, ea)
		return fmt.Sprintf("Cmp(a,b)=%d Cmp(b,a)=%d panics=%v,%v (a=%x b=%x)", r, r2, pp, pp2, ea, eb),
			fmt.Sprintf("Cmp(a,b)=%d Cmp(b,a)=%d panics=false,false (a=%x b=%x)", ref.Sign(abits, bbits), ref.Sign(bbits, abits), ea, eb)
	case "CmpUpto", "CmpUpto/writes", "StrCmpUpto":
		if p != "" {
			return "New: " + p, ""
		}
		plain := string(cs.Plain)
		t := ref.Bits(plain)
		if len(t) > len(abits) {
			t = t[:len(abits)]
		}
		w := ref.Sign(t, abits)
		if kind == "CmpUpto" {
			r, pp := bsCmpUpto(gen.DirtyBytes([]byte(plain)), ea)
			return fmt.Sprintf("%d panic=%v", r, pp), fmt.Sprintf("%d panic=false", w)
		}
		if kind == "CmpUpto/writes" {
			buf := []byte(plain)
			bsCmpUpto(buf, ea)
			return fmt.Sprintf("argument after the call: %x", buf), fmt.Sprintf("argument after the call: %x", plain)
		}
		var gs, ws []string
		for _, pat := range []byte{0x00, 0xff} {
			for _, fr := range c09Frames {
				c09Sink += c09Poison(pat)
				r, pp := bsStrCmpUpto(fr.F, plain, ea)
				gs = append(gs, fmt.Sprintf("%s/%#02x:%d,panic=%v", fr.Name, pat, r, pp))
				ws = append(ws, fmt.Sprintf("%s/%#02x:%d,panic=false", fr.Name, pat, w))
			}
		}
		return fmt.Sprint(gs), fmt.Sprint(ws)
	}
	return "unknown kind " + kind, ""
}

var _ = sort.Ints
