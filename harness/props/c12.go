package props

import (
	"fmt"
	mbits "math/bits"
	"sort"
	"strings"

	"github.com/openacid/low/bitmap"

	"verif/gen"
	"verif/mc"
)

// C12: construction (Of, OfMany, Builder) and inspection (ToArray, Get*, SafeGet*)
// agree on which bits are set. Reference model: a set of ints.

type c12Seg struct {
	Pos  []int32 `json:"pos"`
	Size int32   `json:"size"`
}

type c12Op struct {
	Op    string  `json:"op"` // extend | set
	Pos   []int32 `json:"pos,omitempty"`
	Size  int32   `json:"size,omitempty"`
	At    int32   `json:"at,omitempty"`
	Value int32   `json:"value,omitempty"`
	// Form: an Extend with NO positions hands over gen.EmptyI32(Form): nil (0), non-nil, spare capacity, tail
	Form int `json:"empty_form,omitempty"`
}

// arg is the position list handed to Extend.
func (o *c12Op) arg() []int32 {
	if len(o.Pos) == 0 {
		return gen.EmptyI32(o.Form)
	}
	return o.Pos
}

type c12Case struct {
	Pos      []int32  `json:"pos,omitempty"`
	HasN     bool     `json:"has_n,omitempty"`
	N        int32    `json:"n,omitempty"`
	Probe    int32    `json:"probe,omitempty"`
	Segs     []c12Seg `json:"segs,omitempty"`
	Prealloc int32    `json:"prealloc,omitempty"`
	Ops      []c12Op  `json:"ops,omitempty"`
	// Words: a dense bitmap given word by word (ToArray / Get on bitmaps that no position list produced)
	Words gen.Words `json:"words,omitempty"`
	// EmptyForm-1: the form (gen.EmptyI32) in which the EMPTY position list - of Of, or of segment Probe of
	// OfMany - is handed over
	EmptyForm int    `json:"empty_form,omitempty"`
	FormName  string `json:"empty_form_name,omitempty"`
}

// c12OfEmpty: Of on the empty position list in form f (no wrapping: the very slice is the argument).
func c12OfEmpty(f int, hasN bool, n int32) (got, want string) {
	pos := gen.EmptyI32(f)
	var w []uint64
	p := ""
	func() {
		defer func() {
			if e := recover(); e != nil {
				p = fmt.Sprint("panic: ", e)
			}
		}()
		if hasN {
			w = bitmap.Of(pos, n)
		} else {
			w = bitmap.Of(pos)
		}
	}()
	return "Of: " + p + hexs(w), "Of: " + hexs(refOf(nil, hasN, n))
}

// c12OfManyEmpty: OfMany of three segments of sizes 64, 70, 3 with segment k empty in form f (the others
// hold {0, 63}, {1, 69}, {2}).
func c12OfManyEmpty(f, k int) (got, want string) {
	segs := []c12Seg{{Pos: []int32{0, 63}, Size: 64}, {Pos: []int32{1, 69}, Size: 70}, {Pos: []int32{2}, Size: 3}}
	segs[k].Pos = nil
	all, total, _ := c12Shift(segs)
	subs := make([][]int32, len(segs))
	sizes := make([]int32, len(segs))
	for i, sg := range segs {
		subs[i], sizes[i] = sg.Pos, sg.Size
	}
	subs[k] = gen.EmptyI32(f)
	w, p := ofMany(subs, sizes)
	return p + hexs(w), hexs(refOf(all, true, total))
}

func init() {
	mc.Register(&mc.Property{
		ID:     "C12",
		Word32: true,
		Level:  "exploration",
		Rule: "E1 + depth-bounded E2: (of) every subset of the 11 boundary positions {0,1,62,63,64,65,127,128,129,191,192} × n in {absent,-5,0,1,63,64,65,128,129,193,300}, and EVERY n in [-1100, 1100] plus far negative ones with the empty list and five short lists: word count and exact bit set of Of, ToArray(Of(l)) = l, Of(ToArray(b)) = b up to trailing zero words, and Get/Get1 inside plus SafeGet/SafeGet1 at every probe in [-70, 64·words+70); " +
			"(of, far) every subset of {0,63,64,4095,4096,4097,65535,65536,2^20-1,2^20} × 6 sizes with probes around every position and end; (ofmany) every sequence of ≤3 segments (positions ⊂ {0,1,63,64,65}, size in {0,1,63,64,65,130}; positions ≥ size included, so the shifted concatenation need not be ascending) whose shifted bits all fit into the word count the statement gives, against the set model and that word count; " +
			"(dense) ToArray, Of(ToArray(b)) and Get / Get1 / SafeGet / SafeGet1 at every position on every bitmap of ≤4 words over the 12-word core alphabet and ≤2 words with one wide word (dense bitmaps: all-ones words and runs of them), on ~9000 single words by POPULATION CLASS (every word with one or two 0-bits, three over 16 boundary positions, 0-runs cut at 4 or 6 of 12 boundaries, complements, 6 words of every popcount 0..64) alone, behind an all-ones word and in front of a sparse one, and on long dense bitmaps of every length 5..300 words and every threshold length to 1100 words × 4 patterns (position lists of up to 70400 entries); (ofmany, many segments) OfMany on every threshold number of segments (round numbers ±1) from 1000 to 70000; (giant, 64-bit builds) the top of the int32 position range: Of on 12 (positions, n) combinations whose last bit or size lies within 65 of MaxInt32 (bitmaps of 2^25-1 and 2^25 words), with ToArray on two of them, Get/SafeGet probes next to every bit and SafeGet at MinInt32, and OfMany / a Builder whose running offset ends 50 below MaxInt32; reference arithmetic in int64; " +
			"(builder) every sequence of ≤3 operations over the 234-operation alphabet (and every sequence of 4..R operations over a 10-operation sub-alphabet) {Extend(those 192 segments, the 6 without positions in each of 4 forms: nil, non-nil, with dirty spare capacity, empty tail of a longer array), Set(pos in {0,1,63,64,65,200}, value in 0..3)} executed on a real Builder from NewBuilder(0) and NewBuilder(256) (depth ≤2 also from NewBuilder(64) and NewBuilder(130)), with a second Builder extended and set between the steps (objects must not share state): set bits, Offset, capacity for every bit, and exact equality with the reference Of for Extend-only histories with ascending positions. A case is one call / one history; non-trivial when at least one bit is set.",
		Assumptions: []string{"positions beyond 300 and longer histories are not enumerated; non-ascending lists are outside Of's and OfMany's statement"},
		Run:         c12Run,
		Judge:       mc.JudgeOf(c12Judge),
	})
}

// refOf is the statement's Of: ceil(max(n,last+1,0)/64) words, exactly the listed bits.
func refOf(pos []int32, hasN bool, n int32) []uint64 {
	bits := int32(0)
	if hasN {
		bits = n
	}
	if len(pos) > 0 && pos[len(pos)-1]+1 > bits {
		bits = pos[len(pos)-1] + 1
	}
	if bits < 0 {
		bits = 0
	}
	w := make([]uint64, (bits+63)/64)
	for _, p := range pos {
		w[p/64] |= 1 << uint(p%64)
	}
	return w
}

func of(pos []int32, hasN bool, n int32) (r []uint64, p string) {
	defer func() {
		if e := recover(); e != nil {
			p = fmt.Sprint("panic: ", e)
		}
	}()
	pos = gen.DirtyI32(pos) // a window into a larger, non-zero buffer
	if hasN {
		return bitmap.Of(pos, n), ""
	}
	return bitmap.Of(pos), ""
}

func toArray(w []uint64) (r []int32, p string) {
	defer func() {
		if e := recover(); e != nil {
			p = fmt.Sprint("panic: ", e)
		}
	}()
	return bitmap.ToArray(w), ""
}

func ofMany(subs [][]int32, sizes []int32) (r []uint64, p string) {
	defer func() {
		if e := recover(); e != nil {
			p = fmt.Sprint("panic: ", e)
		}
	}()
	return bitmap.OfMany(subs, sizes), ""
}

type c12Probe struct {
	get, get1, sget, sget1 uint64
	pg, ps                 bool
}

func probe(w []uint64, i int32, inside bool) (o c12Probe) {
	func() {
		defer func() {
			if recover() != nil {
				o.ps = true
			}
		}()
		o.sget, o.sget1 = bitmap.SafeGet(w, i), bitmap.SafeGet1(w, i)
	}()
	if inside {
		func() {
			defer func() {
				if recover() != nil {
					o.pg = true
				}
			}()
			o.get, o.get1 = bitmap.Get(w, i), bitmap.Get1(w, i)
		}()
	}
	return
}

var c12Boundary = []int32{0, 1, 62, 63, 64, 65, 127, 128, 129, 191, 192}
var c12Ns = []struct {
	has bool
	n   int32
}{{false, 0}, {true, -5}, {true, 0}, {true, 1}, {true, 63}, {true, 64}, {true, 65}, {true, 128}, {true, 129}, {true, 193}, {true, 300}}

func i32s(a []int32) string { return fmt.Sprint(a) }

// c12OfOne judges Of + ToArray + all probes for one (list, n).
func c12OfOne(pos []int32, hasN bool, n int32, onlyProbe *int32) (got, want string, probes int64) {
	w, p := of(pos, hasN, n)
	exp := refOf(pos, hasN, n)
	if p != "" || !eqU64(w, exp) {
		return "Of: " + p + hexs(w), "Of: " + hexs(exp), 0
	}
	arr, p2 := toArray(w)
	wantArr := append([]int32{}, pos...)
	if p2 != "" || !eqI32(arr, wantArr) {
		return "ToArray(Of): " + p2 + i32s(arr), "ToArray(Of): " + i32s(wantArr), 0
	}
	// Of(ToArray(b)) = b up to trailing zero words
	back, p3 := of(arr, false, 0)
	trim := func(x []uint64) []uint64 {
		for len(x) > 0 && x[len(x)-1] == 0 {
			x = x[:len(x)-1]
		}
		return x
	}
	if p3 != "" || !eqU64(trim(back), trim(exp)) {
		return "Of(ToArray): " + p3 + hexs(back), "Of(ToArray): " + hexs(trim(exp)) + " (+ zero words)", 0
	}
	set := map[int32]bool{}
	for _, x := range pos {
		set[x] = true
	}
	nb := int32(64 * len(exp))
	lo, hi := int32(-70), nb+70
	if onlyProbe != nil {
		lo, hi = *onlyProbe, *onlyProbe+1
	}
	var probes_ []int32
	if hi-lo <= 2000 {
		for i := lo; i < hi; i++ {
			probes_ = append(probes_, i)
		}
	} else {
		// long bitmaps: every probe within 2 of a listed position, of either end and of a word
		// boundary next to them
		seenP := map[int32]bool{}
		addP := func(x int32) {
			for d := int32(-2); d <= 2; d++ {
				if y := x + d; y >= lo && y < hi && !seenP[y] {
					seenP[y] = true
					probes_ = append(probes_, y)
				}
			}
		}
		for _, x := range pos {
			addP(x)
			addP(x &^ 63)
			addP(x | 63)
		}
		addP(0)
		addP(nb)
		addP(-64)
		addP(nb + 64)
	}
	for _, i := range probes_ {
		inside := i >= 0 && i < nb
		o := probe(w, i, inside)
		var b uint64
		if set[i] {
			b = 1
		}
		wo := c12Probe{sget: b << uint(i&63), sget1: b}
		if inside {
			wo.get, wo.get1 = b<<uint(i&63), b
		}
		probes++
		if o != wo {
			return fmt.Sprintf("probe %d: %+v", i, o), fmt.Sprintf("probe %d: %+v", i, wo), probes
		}
	}
	return "ok", "ok", probes
}

func c12Segments() []c12Seg {
	base := []int32{0, 1, 63, 64, 65}
	sizes := []int32{0, 1, 63, 64, 65, 130}
	var out []c12Seg
	for m := 0; m < 1<<uint(len(base)); m++ {
		var pos []int32
		for k, b := range base {
			if m>>uint(k)&1 == 1 {
				pos = append(pos, b)
			}
		}
		if pos == nil {
			pos = []int32{}
		}
		for _, s := range sizes {
			out = append(out, c12Seg{pos, s})
		}
	}
	return out
}

func c12Ops() []c12Op {
	var ops []c12Op
	for _, s := range c12Segments() {
		ops = append(ops, c12Op{Op: "extend", Pos: s.Pos, Size: s.Size})
		if len(s.Pos) == 0 {
			// the empty segment in the other forms a caller can hand it over
			for f := 1; f < gen.EmptyForms; f++ {
				ops = append(ops, c12Op{Op: "extend", Size: s.Size, Form: f})
			}
		}
	}
	for _, at := range []int32{0, 1, 63, 64, 65, 200} {
		for v := int32(0); v < 4; v++ {
			ops = append(ops, c12Op{Op: "set", At: at, Value: v})
		}
	}
	return ops
}

// c12InDomain: OfMany is defined as "the bitmap Of would build from the shifted
// positions". Segments may hold positions ≥ their size, so the concatenation
// need not be ascending; Of sizes its result by the LAST listed position
// (statement: ceil(max(n, last+1, 0)/64) words). The call is inside the
// statement exactly when every shifted bit fits into that many words; then the
// expected bitmap has exactly the shifted bits.
func c12InDomain(all []int32, total int32) bool {
	bits := total
	if len(all) > 0 && all[len(all)-1]+1 > bits {
		bits = all[len(all)-1] + 1
	}
	if bits < 0 {
		bits = 0
	}
	words := (bits + 63) / 64
	for _, p := range all {
		if p < 0 || p >= 64*words {
			return false
		}
	}
	return true
}

// c12Shift returns the shifted concatenation and whether it is strictly ascending.
func c12Shift(segs []c12Seg) (all []int32, total int32, asc bool) {
	asc = true
	all = []int32{}
	for _, s := range segs {
		for _, p := range s.Pos {
			v := total + p
			if len(all) > 0 && v <= all[len(all)-1] {
				asc = false
			}
			all = append(all, v)
		}
		total += s.Size
	}
	return
}

// c12OfManyOK is the fast path of c12OfManyOne (no strings).
func c12OfManyOK(segs []c12Seg, all []int32, total int32, subs [][]int32, sizes []int32) bool {
	subs, sizes = subs[:0], sizes[:0]
	for _, s := range segs {
		subs, sizes = append(subs, s.Pos), append(sizes, s.Size)
	}
	w, p := ofMany(subs, sizes)
	if p != "" {
		return false
	}
	bits := total
	if len(all) > 0 && all[len(all)-1]+1 > bits {
		bits = all[len(all)-1] + 1
	}
	if len(w) != int((bits+63)/64) {
		return false
	}
	var model [8]uint64
	for _, x := range all {
		model[x>>6] |= 1 << uint(x&63)
	}
	for i, x := range w {
		if i >= len(model) || x != model[i] {
			return false
		}
	}
	return true
}

func c12OfManyOne(segs []c12Seg) (got, want string) {
	all, total, _ := c12Shift(segs)
	subs := make([][]int32, len(segs))
	sizes := make([]int32, len(segs))
	for i, s := range segs {
		subs[i], sizes[i] = s.Pos, s.Size
	}
	w, p := ofMany(subs, sizes)
	exp := refOf(all, true, total)
	return p + hexs(w), hexs(exp)
}

// c12HistoryOK is the allocation-free fast path of c12History: same model
// (bit set, offset, exact words for ascending Extend-only histories), returns
// only whether everything agrees.
func c12HistoryOK(prealloc int32, ops []c12Op) (ok bool) {
	defer func() {
		if recover() != nil {
			ok = false
		}
	}()
	var model [40]uint64
	off, maxEnd, last := int32(0), int32(0), int32(-1)
	extendOnly, asc := true, true
	b := bitmap.NewBuilder(prealloc)
	by := bitmap.NewBuilder(64) // bystander: a second Builder used between the steps must not matter
	for i := range ops {
		o := &ops[i]
		by.Extend(c12ByPos, 67)
		by.Set(int32(5+i), 1)
		if o.Op == "extend" {
			b.Extend(o.arg(), o.Size)
			for _, p := range o.Pos {
				v := off + p
				if v <= last {
					asc = false
				}
				last = v
				model[v>>6] |= 1 << uint(v&63)
				if v+1 > maxEnd {
					maxEnd = v + 1
				}
			}
			off += o.Size
		} else {
			b.Set(o.At, o.Value)
			extendOnly = false
			if o.Value&1 == 1 {
				model[o.At>>6] |= 1 << uint(o.At&63)
			}
			if off <= o.At {
				off = o.At + 1
			}
		}
	}
	if b.Offset != off {
		return false
	}
	for i := range model {
		var w uint64
		if i < len(b.Words) {
			w = b.Words[i]
		}
		if w != model[i] {
			return false
		}
	}
	for i := len(model); i < len(b.Words); i++ {
		if b.Words[i] != 0 {
			return false
		}
	}
	if extendOnly && asc {
		bits := off
		if maxEnd > bits {
			bits = maxEnd
		}
		if len(b.Words) != int((bits+63)/64) {
			return false
		}
	}
	return true
}

var c12ByPos = []int32{0, 3, 66}

// c12History runs ops on a real Builder next to the set model.
func c12History(prealloc int32, ops []c12Op) (got, want string) {
	var b *bitmap.Builder
	set := map[int32]bool{}
	off := int32(0)
	extendOnly, asc := true, true
	var shifted []int32
	pan := func() (p string) {
		defer func() {
			if e := recover(); e != nil {
				p = fmt.Sprint("panic: ", e)
			}
		}()
		b = bitmap.NewBuilder(prealloc)
		by := bitmap.NewBuilder(64)
		for i, o := range ops {
			by.Extend(c12ByPos, 67)
			by.Set(int32(5+i), 1)
			switch o.Op {
			case "extend":
				b.Extend(o.arg(), o.Size)
			case "set":
				b.Set(o.At, o.Value)
			}
		}
		return ""
	}()
	for _, o := range ops {
		switch o.Op {
		case "extend":
			for _, p := range o.Pos {
				v := off + p
				if len(shifted) > 0 && v <= shifted[len(shifted)-1] {
					asc = false
				}
				shifted = append(shifted, v)
				set[v] = true
			}
			off += o.Size
		case "set":
			extendOnly = false
			if o.Value&1 == 1 {
				set[o.At] = true
			}
			if off <= o.At {
				off = o.At + 1
			}
		}
	}
	var bits []int32
	for v := range set {
		bits = append(bits, v)
	}
	sort.Slice(bits, func(i, j int) bool { return bits[i] < bits[j] })
	if bits == nil {
		bits = []int32{}
	}
	want = fmt.Sprintf("bits=%v offset=%d", bits, off)
	if pan != "" {
		return pan, want
	}
	have := []int32{}
	for i := 0; i < 64*len(b.Words); i++ {
		if b.Words[i>>6]>>uint(i&63)&1 == 1 {
			have = append(have, int32(i))
		}
	}
	got = fmt.Sprintf("bits=%v offset=%d", have, b.Offset)
	if got != want {
		return got, want
	}
	if extendOnly && asc {
		exp := refOf(shifted, true, off)
		if !eqU64(b.Words, exp) {
			return got + " words=" + hexs(b.Words), want + " words=" + hexs(exp)
		}
	}
	return got, want
}

func c12SetsBit(h []c12Op) bool {
	for i := range h {
		if (h[i].Op == "extend" && len(h[i].Pos) > 0) || (h[i].Op == "set" && h[i].Value&1 == 1) {
			return true
		}
	}
	return false
}

func c12Run(c *mc.Ctx) {
	// (of)
	c.Expect(int64(1<<uint(len(c12Boundary))) * int64(len(c12Ns)))
	c.Par(1<<uint(len(c12Boundary)), func(m int) {
		if c.TooMany() {
			return
		}
		pos := []int32{}
		for k, b := range c12Boundary {
			if m>>uint(k)&1 == 1 {
				pos = append(pos, b)
			}
		}
		var evals, nontriv, probes int64
		for ni, n := range c12Ns {
			g, w, pr := c12OfOne(pos, n.has, n.n, nil)
			probes += pr
			if g != w {
				cs := c12Case{Pos: pos, HasN: n.has, N: n.n}
				c.Fail(int64(m)<<8|int64(ni), "Of", "Of", cs, g, w)
			}
			evals++
			if len(pos) > 0 {
				nontriv++
			}
		}
		c.Count(evals, nontriv)
		c.Add("probe_calls", probes*4)
		if m == 0x2d5 {
			c.ForceSample(map[string]interface{}{"fn": "Of/ToArray/Get*", "positions": pos, "n": "each of absent,-5,0,1,63,64,65,128,129,193,300", "probes_per_case": "[-70, 64*words+70)"})
		}
	})
	// (of, n sweep) EVERY n in [-1100, 1100] and a few far negative ones, with the empty list and five short
	// lists: "all n (negative, smaller and larger than last+1)" - the word count is ceil(max(n, last+1, 0)/64)
	{
		var ns []int32
		for n := int32(-1100); n <= 1100; n++ {
			ns = append(ns, n)
		}
		ns = append(ns, -1<<31, -1<<31+1, -1<<30, -65537, -65536, -65535, -4097, -4096, -4095)
		lists := [][]int32{{}, {0}, {5}, {63}, {64}, {1, 200}}
		c.Expect(int64(len(ns) * len(lists)))
		c.Par(len(ns), func(ni int) {
			for li, pos := range lists {
				g, w, pr := c12OfOne(pos, true, ns[ni], nil)
				if g != w {
					c.Fail(9<<40|int64(ni)<<8|int64(li), "Of", "Of/n-sweep", c12Case{Pos: pos, HasN: true, N: ns[ni]}, g, w)
				}
				c.Add("probe_calls", pr*4)
			}
			c.Count(int64(len(lists)), int64(len(lists)))
			c.Add("of_n_sweep_cases", int64(len(lists)))
		})
	}
	// (of, empty forms) the EMPTY position list in every form a caller can hand it over (nil, non-nil,
	// dirty spare capacity, empty tail of a longer array) × every n; and as each segment of an OfMany
	for f := 0; f < gen.EmptyForms; f++ {
		for ni, n := range c12Ns {
			if g, w := c12OfEmpty(f, n.has, n.n); g != w {
				c.Fail(11<<50|int64(f)<<8|int64(ni), "OfEmpty/"+gen.EmptyFormName(f), "OfEmpty", c12Case{HasN: n.has, N: n.n, EmptyForm: f + 1, FormName: gen.EmptyFormName(f)}, g, w)
			}
		}
		for k := 0; k < 3; k++ {
			if g, w := c12OfManyEmpty(f, k); g != w {
				c.Fail(12<<50|int64(f)<<8|int64(k), "OfManyEmpty/"+gen.EmptyFormName(f), "OfManyEmpty", c12Case{Probe: int32(k), EmptyForm: f + 1, FormName: gen.EmptyFormName(f)}, g, w)
			}
		}
		c.Count(int64(len(c12Ns))+3, 3)
	}
	c.Expect(int64(gen.EmptyForms) * (int64(len(c12Ns)) + 3))
	// (of, far) positions thousands of bits apart
	far := []int32{0, 63, 64, 4095, 4096, 4097, 65535, 65536, 1<<20 - 1, 1 << 20}
	farNs := []struct {
		has bool
		n   int32
	}{{false, 0}, {true, 0}, {true, 4096}, {true, 4097}, {true, 70000}, {true, 1<<20 + 1}}
	c.Expect(int64(1<<uint(len(far))) * int64(len(farNs)))
	c.Par(1<<uint(len(far)), func(m int) {
		if c.TooMany() {
			return
		}
		pos := []int32{}
		for k, b := range far {
			if m>>uint(k)&1 == 1 {
				pos = append(pos, b)
			}
		}
		var evals, nontriv, probes int64
		for ni, n := range farNs {
			g, w, pr := c12OfOne(pos, n.has, n.n, nil)
			probes += pr
			if g != w {
				c.Fail(1<<36|int64(m)<<8|int64(ni), "Of", "Of", c12Case{Pos: pos, HasN: n.has, N: n.n}, g, w)
			}
			evals++
			if len(pos) > 0 {
				nontriv++
			}
		}
		c.Count(evals, nontriv)
		c.Add("probe_calls", probes*4)
	})
	// (dense) ToArray, Get/Get1 and Of(ToArray(b)) on DENSE bitmaps: every bitmap of ≤4 words over the
	// 12-word core alphabet (all-ones words, runs of them followed by any other word, ...) - the position
	// lists above never fill a word
	{
		sp := gen.BMSpace{MaxCore: 4, MaxWide: 2}
		shards := sp.Shards()
		c.Expect(sp.Card())
		c.Par(len(shards), func(si int) {
			var n int64
			shards[si].Each(func(w []uint64) {
				n++
				var want []int32
				for i := 0; i < 64*len(w); i++ {
					if w[i>>6]>>uint(i&63)&1 == 1 {
						want = append(want, int32(i))
					}
				}
				got, p := toArray(w)
				if p != "" || !eqI32(got, want) {
					c.Fail(9<<50|int64(si)<<32|n, "ToArrayDense", "ToArray/dense", c12Case{Words: append(gen.Words(nil), w...)}, p+clipS(fmt.Sprint(got)), clipS(fmt.Sprint(want)))
					return
				}
				// Get / Get1 / SafeGet / SafeGet1 at every position of the dense bitmap and just outside it
				for i := int32(-2); i < int32(64*len(w))+2; i++ {
					inside := i >= 0 && i < int32(64*len(w))
					var bit uint64
					if inside {
						bit = w[i>>6] >> uint(i&63) & 1
					}
					o := probe(w, i, inside)
					if o.ps || o.pg || o.sget != bit<<uint(i&63) || o.sget1 != bit || (inside && (o.get != bit<<uint(i&63) || o.get1 != bit)) {
						c.Fail(9<<50|int64(si)<<32|n, "GetDense", "Get/dense", c12Case{Words: append(gen.Words(nil), w...), Probe: i}, fmt.Sprintf("%+v", o), fmt.Sprintf("bit %d", bit))
						break
					}
				}
				c.Add("dense_probe_calls", int64(4*64*len(w)+8))
				back, p2 := of(got, false, 0)
				tw := w
				for len(tw) > 0 && tw[len(tw)-1] == 0 {
					tw = tw[:len(tw)-1]
				}
				tb := back
				for len(tb) > 0 && tb[len(tb)-1] == 0 {
					tb = tb[:len(tb)-1]
				}
				if p2 != "" || !eqU64(tb, tw) {
					c.Fail(9<<50|int64(si)<<32|n, "ToArrayDense", "Of(ToArray)/dense", c12Case{Words: append(gen.Words(nil), w...)}, p2+hexs(back), hexs(tw)+" (+ zero words)")
				}
			})
			c.Count(n, n)
			c.Add("dense_bitmaps", n)
		})
		// POPULATION CLASSES of one word (a ToArray that treats sparse, ordinary and dense words differently):
		// every word with one, two or (over 16 boundary positions) three 0-bits, every word whose 1-runs
		// and 0-runs are cut at 4 or 6 of 12 boundary positions, the complement of each, and 6 words of
		// every popcount 0..64 - alone, behind an all-ones word and in front of a sparse one
		{
			pw := c12PopWords()
			c.Expect(int64(3 * len(pw)))
			c.Par(len(pw), func(i int) {
				for v, w := range [][]uint64{{pw[i]}, {^uint64(0), pw[i]}, {pw[i], 1 << 40}} {
					cs := c12Case{Words: append(gen.Words(nil), w...)}
					if g, wnt := c12Judge("ToArrayDense", cs); g != wnt {
						c.Fail(14<<50|int64(i)<<2|int64(v), "ToArrayDense", "ToArray/population-classes", cs, g, wnt)
					}
				}
				c.Count(3, 3)
				c.Add("population_class_bitmaps", 3)
			})
		}
		// LONG dense bitmaps: every length 5..300 words and every threshold length up to 1100 words × 4
		// patterns (all ones; AA../55../0 cycling; one word at the end; pseudo-random): position lists of
		// up to 70400 entries through ToArray and back through Of
		var lens []int
		for l := 5; l <= 300; l++ {
			lens = append(lens, l)
		}
		lens = append(lens, gen.ThresholdSizes(301, 1100)...)
		c.Expect(int64(4 * len(lens)))
		c.Par(len(lens), func(li int) {
			for _, pat := range []int{0, 1, 2, 3} {
				l := lens[li]
				if g, w := c12Judge("ToArrayLong", c12Case{N: int32(l), Probe: int32(pat)}); g != w {
					c.Fail(13<<50|int64(l)<<8|int64(pat), "ToArrayLong", "ToArray/long-dense", c12Case{N: int32(l), Probe: int32(pat)}, g, w)
				}
			}
			c.Count(4, 4)
			c.Add("long_dense_bitmaps", 4)
		})
	}
	// (ofmany, many segments) every threshold number of segments (round numbers ±1) from 1000 to 70000:
	// segment i has size 1 + i%3 and sets its bit 0 when i%5 != 0 (so sizes and emptiness vary)
	{
		sizes := gen.ThresholdSizes(1000, 70000)
		c.Expect(int64(len(sizes)))
		c.Par(len(sizes), func(si int) {
			n := sizes[si]
			if got, want := c12ManySegments(n); got != want {
				c.Fail(8<<50|int64(n), "OfManySegments", "OfMany/many-segments", c12Case{N: int32(n)}, got, want)
			}
			c.Count(1, 1)
			c.Add("ofmany_many_segment_calls", 1)
		})
	}
	// (giant) the top of the int32 position range: bitmaps of 2^25-1 and 2^25 words (256 MiB)
	if mbits.UintSize == 64 {
		gs := c12Giants()
		c.Expect(int64(len(gs)) + 2)
		c.Par(len(gs)+2, func(gi int) {
			switch {
			case gi < len(gs):
				g := gs[gi]
				probeFlag := int32(0)
				if g.toArray {
					probeFlag = 1
				}
				if got, want := c12GiantOne(g.pos, g.hasN, g.n, g.toArray); got != want {
					c.Fail(7<<50|int64(gi), "OfGiant", "Of/giant", c12Case{Pos: g.pos, HasN: g.hasN, N: g.n, Probe: probeFlag}, got, want)
				}
			case gi == len(gs):
				if got, want := c12GiantMany("OfMany"); got != want {
					c.Fail(7<<50|int64(gi), "OfManyGiant", "OfMany/giant", c12Case{Segs: []c12Seg{}}, got, want)
				}
			default:
				if got, want := c12GiantMany("Builder"); got != want {
					c.Fail(7<<50|int64(gi), "BuilderGiant", "Builder/giant", c12Case{}, got, want)
				}
			}
			c.Count(1, 1)
			c.Add("giant_bitmap_cases", 1)
		})
	}
	// (ofmany)
	segs := c12Segments()
	ns := len(segs)
	c.Set("segment_alphabet", ns)
	// sequences of length 0..3; only those in Of's domain are cases
	var inDomain, skipped int64
	c.NoExpectNote("OfMany: the number of sequences inside the statement (every shifted bit fits into the result) has no closed form; all 1+192+192²+192³ sequences are generated and the in-domain ones counted")
	c.Par(ns+2, func(k int) {
		if c.TooMany() {
			return
		}
		var evals, nontriv, skip int64
		subsBuf := make([][]int32, 0, 4)
		sizesBuf := make([]int32, 0, 4)
		run := func(ss []c12Seg) {
			all, total, _ := c12Shift(ss)
			if !c12InDomain(all, total) {
				skip++
				return
			}
			if !c12OfManyOK(ss, all, total, subsBuf[:0], sizesBuf[:0]) {
				g, w := c12OfManyOne(ss)
				c.Fail(1<<40|int64(k)<<20|evals, "OfMany", "OfMany", c12Case{Segs: append([]c12Seg(nil), ss...)}, g, w)
			}
			evals++
			if len(all) > 0 {
				nontriv++
			}
		}
		switch {
		case k == ns:
			run(nil)
		case k == ns+1:
			for _, a := range segs {
				run([]c12Seg{a})
				for _, b := range segs {
					run([]c12Seg{a, b})
				}
			}
		default:
			a := segs[k]
			for _, b := range segs {
				for _, d := range segs {
					run([]c12Seg{a, b, d})
				}
			}
		}
		c.Count(evals, nontriv)
		c.Expect(evals)
		c.Add("ofmany_calls", evals)
		c.Add("ofmany_sequences_outside_domain", skip)
		_ = inDomain
		_ = skipped
	})
	c.ForceSample(map[string]interface{}{"fn": "OfMany", "segments": []c12Seg{{[]int32{0, 63}, 64}, {[]int32{1, 65}, 0}, {[]int32{64}, 130}}})
	// (builder) all histories to depth D
	ops := c12Ops()
	D := 3
	c.Set("builder_depth", D)
	c.Set("builder_alphabet", len(ops))
	c.Expect(2*gen.SeqCount(len(ops), D) + 2*gen.SeqCount(len(ops), 2))
	for _, pre := range []int32{0, 256, 64, 130} {
		pre := pre
		D := D
		if pre == 64 || pre == 130 {
			D = 2 // other capacities (1 and 2 words): histories of depth ≤ 2
		}
		c.Par(len(ops)+1, func(k int) {
			if c.TooMany() {
				return
			}
			var evals, nontriv int64
			run := func(h []c12Op) {
				if !c12HistoryOK(pre, h) {
					g, w := c12History(pre, h)
					c.Fail(2<<40|int64(k)<<20|evals, "Builder", "Builder", c12Case{Prealloc: pre, Ops: append([]c12Op(nil), h...)}, g, w)
				}
				evals++
				if c12SetsBit(h) {
					nontriv++
				}
			}
			if k == len(ops) {
				run(nil)
			} else {
				h := []c12Op{ops[k]}
				run(h)
				if D >= 2 {
					for _, b := range ops {
						h2 := append(h, b)
						run(h2)
						if D >= 3 {
							for _, d := range ops {
								run(append(h2, d))
							}
						}
					}
				}
			}
			c.Count(evals, nontriv)
			c.Add("builder_histories", evals)
		})
	}
	// longer histories (running offsets accumulated over many segments) over a reduced alphabet
	red := []c12Op{
		{Op: "extend", Pos: []int32{}, Size: 0}, {Op: "extend", Pos: []int32{0}, Size: 1}, {Op: "extend", Pos: []int32{63}, Size: 64},
		{Op: "extend", Pos: []int32{0, 64}, Size: 65}, {Op: "extend", Pos: []int32{65}, Size: 0}, {Op: "extend", Pos: []int32{1, 63, 64}, Size: 130},
		{Op: "set", At: 0, Value: 1}, {Op: "set", At: 64, Value: 1}, {Op: "set", At: 200, Value: 0}, {Op: "set", At: 63, Value: 3},
	}
	DR := c.Pick(5, 7)
	c.Set("builder_reduced_alphabet", len(red))
	c.Set("builder_reduced_depth", DR)
	for l := 4; l <= DR; l++ {
		c.Expect(2 * gen.PowInt(len(red), l))
	}
	c.Par(2*len(red)*len(red), func(k int) {
		if c.TooMany() {
			return
		}
		pre := int32(256 * (k & 1))
		a, b := red[(k>>1)%len(red)], red[(k>>1)/len(red)]
		var evals, nontriv int64
		for l := 4; l <= DR; l++ {
			gen.Product(len(red), l-2, func(ix []int) {
				h := make([]c12Op, 0, l)
				h = append(h, a, b)
				for _, x := range ix {
					h = append(h, red[x])
				}
				if !c12HistoryOK(pre, h) {
					g, w := c12History(pre, h)
					c.Fail(3<<40|int64(k)<<24|evals, "Builder", "Builder", c12Case{Prealloc: pre, Ops: h}, g, w)
				}
				evals++
				if c12SetsBit(h) {
					nontriv++
				}
			})
		}
		c.Count(evals, nontriv)
		c.Add("builder_histories", evals)
	})
	c.ForceSample(map[string]interface{}{"fn": "Builder", "prealloc": 256, "ops": []c12Op{{Op: "extend", Pos: []int32{1, 65}, Size: 63}, {Op: "set", At: 200, Value: 3}}})
}

// ---- the top of the int32 position range (64-bit builds): bitmaps of up to 2^25 words

// c12SparseBits lists the set bits of a long, mostly empty bitmap (int64 positions).
// c12PopWords: single words by population class and run structure (see the dense family).
func c12PopWords() []uint64 {
	seen := map[uint64]bool{}
	var out []uint64
	add := func(w uint64) {
		for _, x := range []uint64{w, ^w} {
			if !seen[x] {
				seen[x] = true
				out = append(out, x)
			}
		}
	}
	for a := 0; a < 64; a++ {
		add(^(uint64(1) << uint(a)))
		for b := a + 1; b < 64; b++ {
			add(^(uint64(1)<<uint(a) | uint64(1)<<uint(b)))
		}
	}
	bp := []int{0, 1, 2, 7, 8, 15, 16, 31, 32, 33, 47, 48, 55, 56, 62, 63}
	for i := range bp {
		for j := i + 1; j < len(bp); j++ {
			for k := j + 1; k < len(bp); k++ {
				add(^(uint64(1)<<uint(bp[i]) | uint64(1)<<uint(bp[j]) | uint64(1)<<uint(bp[k])))
			}
		}
	}
	// runs cut at 4 or 6 of 12 boundaries: bits [c0,c1) and [c2,c3) (and [c4,c5)) are 0, the rest 1
	cuts := []int{0, 1, 5, 8, 16, 31, 32, 33, 40, 48, 63, 64}
	run := func(lo, hi int) uint64 {
		var m uint64
		for i := lo; i < hi; i++ {
			m |= 1 << uint(i)
		}
		return m
	}
	var rec func(start int, chosen []int, k int)
	rec = func(start int, chosen []int, k int) {
		if len(chosen) == k {
			var z uint64
			for i := 0; i < k; i += 2 {
				z |= run(chosen[i], chosen[i+1])
			}
			add(^z)
			return
		}
		for i := start; i < len(cuts); i++ {
			rec(i+1, append(chosen, cuts[i]), k)
		}
	}
	rec(0, nil, 4)
	rec(0, nil, 6)
	// 6 words of every popcount
	x := uint64(0x9e3779b97f4a7c15)
	for p := 0; p <= 64; p++ {
		add(run(0, p))
		add(run(64-p, 64))
		var sp uint64 // spread evenly
		for i := 0; i < p; i++ {
			sp |= 1 << uint(i*64/maxInt(p, 1))
		}
		add(sp)
		for r := 0; r < 3; r++ { // pseudo-random: set p distinct bits
			var w uint64
			for n := 0; n < p; {
				x ^= x << 13
				x ^= x >> 7
				x ^= x << 17
				b := uint(x % 64)
				if w>>b&1 == 0 {
					w |= 1 << b
					n++
				}
			}
			add(w)
		}
	}
	return out
}

func maxInt(a, b int) int {
	if a > b {
		return a
	}
	return b
}

func c12SparseBits(w []uint64) []int64 {
	var out []int64
	for i, x := range w {
		for x != 0 {
			out = append(out, int64(i)*64+int64(mbits.TrailingZeros64(x)))
			x &= x - 1
		}
	}
	return out
}

// c12GiantOne judges Of (and optionally ToArray, Get*, SafeGet*) for positions at
// the top of int32, with all reference arithmetic in int64.
func c12GiantOne(pos []int32, hasN bool, n int32, withToArray bool) (got, want string) {
	bitsWanted := int64(0)
	if hasN {
		bitsWanted = int64(n)
	}
	if len(pos) > 0 && int64(pos[len(pos)-1])+1 > bitsWanted {
		bitsWanted = int64(pos[len(pos)-1]) + 1
	}
	if bitsWanted < 0 {
		bitsWanted = 0
	}
	wantWords := int((bitsWanted + 63) / 64)
	wantBits := fmt.Sprint(pos)
	if len(pos) == 0 {
		wantBits = "[]"
	}
	w, p := of(pos, hasN, n)
	if p != "" {
		return "Of: " + p, fmt.Sprintf("Of: %d words with bits %s", wantWords, wantBits)
	}
	have := c12SparseBits(w)
	hb := "[]"
	if len(have) > 0 {
		hb = fmt.Sprint(have)
	}
	if len(w) != wantWords || hb != wantBits {
		return fmt.Sprintf("Of: %d words with bits %s", len(w), hb), fmt.Sprintf("Of: %d words with bits %s", wantWords, wantBits)
	}
	for _, i := range pos {
		for d := int64(-1); d <= 1; d++ {
			j := int64(i) + d
			if j < 0 || j >= 64*int64(len(w)) || j > 1<<31-1 {
				continue
			}
			var b uint64
			for _, x := range pos {
				if int64(x) == j {
					b = 1
				}
			}
			o := probe(w, int32(j), true)
			wo := c12Probe{get: b << uint(j&63), get1: b, sget: b << uint(j&63), sget1: b}
			if o != wo {
				return fmt.Sprintf("probe %d: %+v", j, o), fmt.Sprintf("probe %d: %+v", j, wo)
			}
		}
	}
	for _, j := range []int32{-1 << 31, -1<<31 + 1, -1} {
		if o := probe(w, j, false); o != (c12Probe{}) {
			return fmt.Sprintf("probe %d: %+v", j, o), fmt.Sprintf("probe %d: %+v", j, c12Probe{})
		}
	}
	if withToArray {
		arr, p2 := toArray(w)
		ga := "[]"
		if len(arr) > 0 {
			ga = fmt.Sprint(arr)
		}
		if p2 != "" || ga != wantBits {
			return "ToArray(Of): " + p2 + clipS(ga), "ToArray(Of): " + wantBits
		}
	}
	return "ok", "ok"
}

// c12ManySegments judges OfMany on n generated segments.
func c12ManySegments(n int) (got, want string) {
	subs := make([][]int32, n)
	sizes := make([]int32, n)
	var bits []int64
	total := int64(0)
	for i := range subs {
		sizes[i] = int32(1 + i%3)
		if i%5 != 0 {
			subs[i] = []int32{0}
			bits = append(bits, total)
		}
		total += int64(sizes[i])
	}
	want = fmt.Sprintf("%d words, %d bits set as listed", (total+63)/64, len(bits))
	w, p := ofMany(subs, sizes)
	if p != "" {
		return p, want
	}
	have := c12SparseBits(w)
	if int64(len(w)) != (total+63)/64 || len(have) != len(bits) {
		return fmt.Sprintf("%d words, %d bits set", len(w), len(have)), want
	}
	for i := range bits {
		if have[i] != bits[i] {
			return fmt.Sprintf("bit %d of the result is at %d, want %d", i, have[i], bits[i]), want
		}
	}
	return want, want
}

type c12Giant struct {
	pos     []int32
	hasN    bool
	n       int32
	toArray bool
}

func c12Giants() []c12Giant {
	const M = int32(1<<31 - 1)
	return []c12Giant{
		{[]int32{0, 1 << 30, M}, false, 0, true}, // 2^25 words, the last position an int32 can name
		{[]int32{3, M - 64}, false, 0, true},     // 2^25-1 words
		{[]int32{M - 65}, false, 0, false},
		{[]int32{M - 63}, false, 0, false},
		{[]int32{M - 1}, false, 0, false},
		{[]int32{M}, true, -5, false},
		{[]int32{5}, true, M - 64, false},
		{[]int32{5}, true, M - 63, false},
		{[]int32{5}, true, M - 62, false},
		{[]int32{5}, true, M - 1, false},
		{[]int32{5}, true, M, false},
		{nil, true, M, false},
	}
}

// c12GiantMany: OfMany and a Builder whose running offset ends 50 bits below the last int32.
func c12GiantMany(kind string) (got, want string) {
	const M = int32(1<<31 - 1)
	want = fmt.Sprintf("%d words with bits [1 %d]", (int64(M)-50+63)/64, int64(M)-100+7)
	switch kind {
	case "OfMany":
		w, p := ofMany([][]int32{{1}, {7}}, []int32{M - 100, 50})
		if p != "" {
			return p, want
		}
		return fmt.Sprintf("%d words with bits %v", len(w), c12SparseBits(w)), want
	default:
		var w []uint64
		var off int32
		p := func() (p string) {
			defer func() {
				if e := recover(); e != nil {
					p = fmt.Sprint("panic: ", e)
				}
			}()
			b := bitmap.NewBuilder(0)
			b.Extend([]int32{1}, M-100)
			b.Extend([]int32{7}, 50)
			w, off = b.Words, b.Offset
			return ""
		}()
		if p != "" {
			return p, want
		}
		// a Builder only promises enough words for every bit; trailing zero words are allowed
		need := (int64(M) - 50 + 63) / 64
		if int64(len(w)) < need || off != M-50 {
			return fmt.Sprintf("%d words, Offset %d", len(w), off), fmt.Sprintf("at least %d words, Offset %d", need, M-50)
		}
		return fmt.Sprintf("enough words with bits %v", c12SparseBits(w)), fmt.Sprintf("enough words with bits [1 %d]", int64(M)-100+7)
	}
}

func c12Judge(kind string, cs c12Case) (got, want string) {
	if i := strings.Index(kind, "Empty/"); i >= 0 {
		kind = kind[:i+5]
	}
	switch kind {
	case "GetDense":
		w, i := []uint64(cs.Words), cs.Probe
		inside := i >= 0 && i < int32(64*len(w))
		var bit uint64
		if inside {
			bit = w[i>>6] >> uint(i&63) & 1
		}
		o := probe(w, i, inside)
		want := c12Probe{sget: bit << uint(i&63), sget1: bit}
		if inside {
			want.get, want.get1 = want.sget, bit
		}
		return fmt.Sprintf("%+v", o), fmt.Sprintf("%+v", want)
	case "ToArrayLong":
		// N words of sweep pattern Probe (props/c01.go c01SweepBitmap)
		w := c01SweepBitmap(int(cs.N), int(cs.Probe))
		var want []int32
		for i := 0; i < 64*len(w); i++ {
			if w[i>>6]>>uint(i&63)&1 == 1 {
				want = append(want, int32(i))
			}
		}
		g, p := toArray(w)
		if p != "" || !eqI32(g, want) {
			return p + c16DiffSummary(g, want), "equal to the reference"
		}
		back, p2 := of(g, false, 0)
		for len(w) > 0 && w[len(w)-1] == 0 {
			w = w[:len(w)-1]
		}
		for len(back) > 0 && back[len(back)-1] == 0 {
			back = back[:len(back)-1]
		}
		if p2 != "" || !eqU64(back, w) {
			return "Of(ToArray(b)): " + p2 + fmt.Sprintf("%d words, differs from b", len(back)), "Of(ToArray(b)) = b"
		}
		return "equal to the reference", "equal to the reference"
	case "OfEmpty":
		return c12OfEmpty(cs.EmptyForm-1, cs.HasN, cs.N)
	case "OfManyEmpty":
		return c12OfManyEmpty(cs.EmptyForm-1, int(cs.Probe))
	case "OfGiant":
		return c12GiantOne(cs.Pos, cs.HasN, cs.N, cs.Probe == 1)
	case "ToArrayDense":
		w := []uint64(cs.Words)
		var want []int32
		for i := 0; i < 64*len(w); i++ {
			if w[i>>6]>>uint(i&63)&1 == 1 {
				want = append(want, int32(i))
			}
		}
		g, p := toArray(w)
		if p != "" || !eqI32(g, want) {
			return p + clipS(fmt.Sprint(g)), clipS(fmt.Sprint(want))
		}
		back, p2 := of(g, false, 0)
		for len(w) > 0 && w[len(w)-1] == 0 {
			w = w[:len(w)-1]
		}
		for len(back) > 0 && back[len(back)-1] == 0 {
			back = back[:len(back)-1]
		}
		return "Of(ToArray): " + p2 + hexs(back), "Of(ToArray): " + hexs(w)
	case "OfManySegments":
		return c12ManySegments(int(cs.N))
	case "OfManyGiant":
		return c12GiantMany("OfMany")
	case "BuilderGiant":
		g, w := c12GiantMany("Builder")
		return g, w
	}
	switch kind {
	case "Of":
		g, w, _ := c12OfOne(cs.Pos, cs.HasN, cs.N, nil)
		return g, w
	case "OfMany":
		return c12OfManyOne(cs.Segs)
	case "Builder":
		return c12History(cs.Prealloc, cs.Ops)
	}
	return "unknown kind " + kind, ""
}

var _ = gen.Core
