//go:build verifsched

package props

import (
	"encoding/json"
	"fmt"
	"hash"
	"hash/fnv"
	"os"
	"os/exec"
	"reflect"
	"sort"
	"strconv"
	"strings"
	"sync"
	"time"
	"unsafe"

	"github.com/openacid/low/verifsched"

	"verif/mc"
)

// Instrumented half of C19: compiled only into the binary built with the
// instrumentation overlay (virtual package verifsched inside the repository
// module).

func init() {
	mc.RegisterWorker("c19sched", c19SchedWorker)
}

// ---- deep hash of all registered package-level variables

func c19HashGlobals() uint64 {
	h := fnv.New64a()
	gs := verifsched.Globals()
	for _, g := range gs {
		h.Write([]byte(g.Pkg + "." + g.Name))
		deepHash(h, reflect.ValueOf(g.Ptr).Elem(), 0, map[uintptr]bool{})
	}
	return h.Sum64()
}

func c19HashEach() map[string]uint64 {
	out := map[string]uint64{}
	for _, g := range verifsched.Globals() {
		h := fnv.New64a()
		deepHash(h, reflect.ValueOf(g.Ptr).Elem(), 0, map[uintptr]bool{})
		out[g.Pkg+"."+g.Name] = h.Sum64()
	}
	return out
}

func wr(h hash.Hash64, x uint64) {
	var b [8]byte
	for i := range b {
		b[i] = byte(x >> (8 * uint(i)))
	}
	h.Write(b[:])
}

// deepHash walks a value including unexported fields (reading is allowed
// through reflect as long as no Interface() is taken).
func deepHash(h hash.Hash64, v reflect.Value, depth int, seen map[uintptr]bool) {
	if depth > 12 {
		return
	}
	// The internals of sync.Pool and of the lock types change with garbage collections and with
	// use; they are runtime bookkeeping, not library tables. What such an object GUARDS is hashed
	// through the other variables; misuse shows in results, in returned values that change later,
	// in the footprint and in the race pass.
	if pp := v.Type().PkgPath(); pp == "sync/atomic" && v.Kind() == reflect.Struct {
		// atomics are plain cells: what they HOLD is state like any other (a memo in an atomic.Value, a
		// published table in an atomic.Pointer); their representation does not change with collections
		if name := v.Type().Name(); strings.HasPrefix(name, "Pointer[") && v.NumField() == 3 && v.Field(0).Type().Kind() == reflect.Array {
			// atomic.Pointer[T]: struct{ _ [0]*T; _ noCopy; v unsafe.Pointer }
			t := v.Field(0).Type().Elem().Elem()
			ptr := v.Field(2).UnsafePointer()
			if ptr == nil {
				wr(h, 0)
				return
			}
			if seen[uintptr(ptr)] {
				wr(h, 0xc1c1e)
				return
			}
			seen[uintptr(ptr)] = true
			deepHash(h, reflect.NewAt(t, ptr).Elem(), depth+1, seen)
			delete(seen, uintptr(ptr))
			return
		}
		for i := 0; i < v.NumField(); i++ {
			deepHash(h, v.Field(i), depth+1, seen)
		}
		return
	} else if pp == "sync" {
		switch v.Type().Name() {
		case "Once":
			// done or not done: stable after the warm-up
			if f := v.FieldByName("done"); f.IsValid() {
				deepHash(h, f, depth+1, seen)
				return
			}
		case "Map":
			// contents through Range where the value is reachable through exported names
			if v.CanAddr() && v.Addr().CanInterface() {
				if m, ok := v.Addr().Interface().(*sync.Map); ok {
					var ks []uint64
					m.Range(func(k, val interface{}) bool {
						kh := fnv.New64a()
						deepHash(kh, reflect.ValueOf(k), depth+1, seen)
						deepHash(kh, reflect.ValueOf(val), depth+1, seen)
						ks = append(ks, kh.Sum64())
						return true
					})
					sort.Slice(ks, func(i, j int) bool { return ks[i] < ks[j] })
					for _, k := range ks {
						wr(h, k)
					}
					return
				}
			}
		}
		// sync.Pool, mutexes, wait groups: runtime bookkeeping that changes with garbage collections
		wr(h, 0x5c)
		return
	}
	switch v.Kind() {
	case reflect.Bool:
		if v.Bool() {
			wr(h, 1)
		} else {
			wr(h, 0)
		}
	case reflect.Int, reflect.Int8, reflect.Int16, reflect.Int32, reflect.Int64:
		wr(h, uint64(v.Int()))
	case reflect.Uint, reflect.Uint8, reflect.Uint16, reflect.Uint32, reflect.Uint64, reflect.Uintptr:
		wr(h, v.Uint())
	case reflect.Float32, reflect.Float64:
		wr(h, uint64(v.Float()*1e6))
	case reflect.String:
		h.Write([]byte(v.String()))
		wr(h, uint64(v.Len()))
	case reflect.Array:
		if v.Len() > 0 && v.Type().Elem().Kind() == reflect.Uint64 && v.CanAddr() {
			p := unsafe.Slice((*uint64)(unsafe.Pointer(v.UnsafeAddr())), v.Len())
			for _, x := range p {
				wr(h, x)
			}
			return
		}
		if v.Len() > 0 && v.Type().Elem().Kind() == reflect.Uint8 && v.CanAddr() {
			h.Write(unsafe.Slice((*byte)(unsafe.Pointer(v.UnsafeAddr())), v.Len()))
			return
		}
		for i := 0; i < v.Len(); i++ {
			deepHash(h, v.Index(i), depth+1, seen)
		}
	case reflect.Slice:
		wr(h, uint64(v.Len()))
		if v.IsNil() {
			wr(h, 0xdead)
			return
		}
		for i := 0; i < v.Len(); i++ {
			deepHash(h, v.Index(i), depth+1, seen)
		}
		// the SPARE CAPACITY of a package-level slice is package state too: a scratch buffer that is cut back to
		// length 0 after every call keeps what the call wrote (and hands it to the next caller)
		if c := v.Cap(); c > v.Len() && c-v.Len() <= 1<<20 {
			switch v.Type().Elem().Kind() {
			case reflect.Bool, reflect.Int, reflect.Int8, reflect.Int16, reflect.Int32, reflect.Int64, reflect.Uint, reflect.Uint8,
				reflect.Uint16, reflect.Uint32, reflect.Uint64, reflect.Uintptr, reflect.Float32, reflect.Float64:
				wr(h, uint64(c))
				full := v.Slice(0, c)
				for i := v.Len(); i < c; i++ {
					deepHash(h, full.Index(i), depth+1, seen)
				}
			}
		}
	case reflect.Map:
		wr(h, uint64(v.Len()))
		if v.IsNil() {
			return
		}
		// sorted by the hash of the key, so iteration order does not matter
		type kv struct {
			k uint64
			v reflect.Value
		}
		var kvs []kv
		it := v.MapRange()
		for it.Next() {
			kh := fnv.New64a()
			deepHash(kh, it.Key(), depth+1, seen)
			kvs = append(kvs, kv{kh.Sum64(), it.Value()})
		}
		sort.Slice(kvs, func(i, j int) bool { return kvs[i].k < kvs[j].k })
		for _, e := range kvs {
			wr(h, e.k)
			deepHash(h, e.v, depth+1, seen)
		}
	case reflect.Ptr:
		if v.IsNil() {
			wr(h, 0)
			return
		}
		p := v.Pointer()
		if seen[p] {
			wr(h, 0xc1c1e)
			return
		}
		seen[p] = true
		deepHash(h, v.Elem(), depth+1, seen)
		delete(seen, p)
	case reflect.Interface:
		if v.IsNil() {
			wr(h, 0)
			return
		}
		h.Write([]byte(v.Elem().Type().String()))
		deepHash(h, v.Elem(), depth+1, seen)
	case reflect.Struct:
		for i := 0; i < v.NumField(); i++ {
			deepHash(h, v.Field(i), depth+1, seen)
		}
	default:
		// func, chan, unsafe pointer: identity only
		wr(h, 0xf00)
	}
}

// ---- worker

func c19SchedWorker(args []string) int {
	if len(args) == 0 {
		return 2
	}
	var out c19WorkerOut
	switch args[0] {
	case "globals":
		c19GlobalsPass(&out)
	case "schedules":
		tier := args[1]
		shard, _ := strconv.Atoi(args[2])
		shards, _ := strconv.Atoi(args[3])
		c19SchedulesPass(&out, tier == "thorough", shard, shards)
	case "cold1":
		// one schedule of one program from a cold start: args[1] = threads JSON, args[2] = prefix JSON
		var threads []string
		var prefix []int
		if json.Unmarshal([]byte(args[1]), &threads) != nil || json.Unmarshal([]byte(args[2]), &prefix) != nil {
			return 2
		}
		b, _ := json.Marshal(c19ColdOne(threads, prefix))
		os.Stdout.Write(b)
		return 0
	case "cold":
		tier := args[1]
		shard, _ := strconv.Atoi(args[2])
		shards, _ := strconv.Atoi(args[3])
		c19ColdPass(&out, tier == "thorough", shard, shards)
	case "judge":
		var cs c19Case
		if err := json.Unmarshal([]byte(args[2]), &cs); err != nil {
			return 2
		}
		g, w := c19JudgeInstr(args[1], cs)
		b, _ := json.Marshal([2]string{g, w})
		os.Stdout.Write(b)
		return 0
	default:
		return 2
	}
	b, _ := json.Marshal(out)
	os.Stdout.Write(b)
	return 0
}

// c19GlobalsPass: warm-up forward pass over everything, snapshot, then a reverse
// pass in which every single call must leave the package state unchanged.
func c19GlobalsPass(out *c19WorkerOut) {
	alpha := c19Alphabet()
	out.Globals = len(verifsched.Globals())
	var ins []*c19In
	var all [][][]string
	for set := 0; set < c19InputSets; set++ {
		in := c19Build(set, heapAlloc{})
		ins = append(ins, in)
		all = append(all, c19Forward(alpha, in))
	}
	out.Digest = c19Digest(all)
	base := c19HashGlobals()
	for set := c19InputSets - 1; set >= 0; set-- {
		for ci := len(alpha) - 1; ci >= 0; ci-- {
			for k := len(all[set][ci]) - 1; k >= 0; k-- {
				r := c19Safe(&alpha[ci], ins[set], k)
				out.GlobalCalls++
				if hsh := c19HashGlobals(); hsh != base {
					g, _ := c19GlobalsOne(alpha, ci, k, set)
					cs, _ := json.Marshal(c19Case{Call: alpha[ci].Name, Variant: k, Input: set})
					out.Viols = append(out.Viols, mc.Viol{Order: int64(len(out.Viols)), Kind: "globals", Class: "globals", Case: cs, Got: g, Want: "package state unchanged"})
					base = hsh // report each change once
					if len(out.Viols) > 40 {
						return
					}
				}
				if r != all[set][ci][k] {
					cs, _ := json.Marshal(c19Case{Call: alpha[ci].Name, Variant: k, Input: set, Note: "instrumented binary, reverse pass"})
					out.Viols = append(out.Viols, mc.Viol{Order: int64(len(out.Viols)), Kind: "order", Class: "order", Case: cs, Got: r, Want: all[set][ci][k]})
				}
			}
		}
	}
}

// c19GlobalsOne re-executes one call after a full warm-up and names the
// variables whose deep hash changed.
func c19GlobalsOne(alpha []c19Call, ci, k, set int) (got, want string) {
	var ins []*c19In
	for s := 0; s < c19InputSets; s++ {
		in := c19Build(s, heapAlloc{})
		ins = append(ins, in)
		c19Forward(alpha, in)
	}
	// warm this very call too, then observe a second execution... of a DIFFERENT variant first,
	// so that state which merely remembers the last arguments shows up
	n := alpha[ci].N(ins[set])
	c19Safe(&alpha[ci], ins[set], (k+1)%n)
	before := c19HashEach()
	c19Safe(&alpha[ci], ins[set], k)
	after := c19HashEach()
	var changed []string
	for name, h := range before {
		if after[name] != h {
			changed = append(changed, name)
		}
	}
	sort.Strings(changed)
	if len(changed) == 0 {
		return "package state unchanged", "package state unchanged"
	}
	return fmt.Sprintf("package state changed by the call: %v", changed), "package state unchanged"
}

func c19SchedulesPass(out *c19WorkerOut, thorough bool, shard, shards int) {
	alpha := c19Alphabet()
	in := c19Build(0, heapAlloc{})
	seq := c19Forward(alpha, in) // also the warm-up
	target := 24
	if thorough {
		target = 40
	}
	pick := c19PickByLength(alpha, in, target)
	progs := c19Programs(thorough, pick)
	base := c19HashGlobals()
	setHook := func(f func(int)) { verifsched.Hook = f }
	for pi := shard; pi < len(progs); pi += shards {
		p := progs[pi]
		bodies := make([]func() string, len(p.Threads))
		want := make([]string, len(p.Threads))
		for i, t := range p.Threads {
			t := t
			bodies[i] = func() string { return c19Str(alpha[t.Call].Do(in, t.Variant)) }
			want[i] = seq[t.Call][t.Variant]
		}
		nviol := 0
		st := mc.ExploreSchedules(bodies, p.Bound, setHook, 5*time.Second, func(e *mc.SchedExec) {
			pre := false
			for i := 1; i < len(e.Trace); i++ {
				if e.Trace[i] != e.Trace[i-1] && e.Sites[i-1] >= 0 {
					pre = true
				}
			}
			if pre {
				out.Preempted++
			}
			bad := ""
			if e.Diverged {
				bad = "the same schedule prefix met different scheduling points than before: control flow depends on state left behind by an earlier execution"
			}
			for i, t := range e.Threads {
				if bad != "" {
					break
				}
				if t.Result != want[i] {
					bad = fmt.Sprintf("thread %d (%s) returned %s", i, p.names(alpha)[i], t.Result)
					break
				}
			}
			if bad == "" {
				if h := c19HashGlobals(); h != base {
					bad = "package state differs after the execution"
					base = h
				}
			}
			if bad != "" && nviol < 2 && len(out.Viols) < 40 {
				nviol++
				cs, _ := json.Marshal(c19Case{Threads: p.names(alpha), Choices: append([]int(nil), schedChoices(e)...), Bound: p.Bound, Input: 0})
				out.Viols = append(out.Viols, mc.Viol{Order: int64(pi)<<8 | int64(nviol), Kind: "schedule", Class: "schedule", Case: cs, Got: bad, Want: fmt.Sprintf("sequential results %q, package state unchanged", want)})
			}
		})
		out.Programs++
		out.Schedules += st.Schedules
		out.Points += st.Points
		if st.MaxPoints > out.MaxPoints {
			out.MaxPoints = st.MaxPoints
		}
		if len(st.Outcomes) > out.MaxOutcomes {
			out.MaxOutcomes = len(st.Outcomes)
		}
		if len(st.Outcomes) > 1 {
			out.MultiOutcome++
		}
		if st.Diverged {
			out.Diverged++
		}
		if st.Stuck {
			out.Stuck = append(out.Stuck, fmt.Sprint(p.names(alpha)))
			// goroutines of the stuck execution are lost; a fresh process would be cleaner,
			// but the remaining programs do not share state with them apart from the library's own
		}
		if out.Sample == nil && st.Schedules > 20 {
			out.Sample = &c19Case{Threads: p.names(alpha), Bound: p.Bound, Note: fmt.Sprintf("%d schedules, %d scheduling points at most, %d outcome(s)", st.Schedules, st.MaxPoints, len(st.Outcomes))}
		}
	}
}

func schedChoices(e *mc.SchedExec) []int { return e.Choices() }

// ---- cold-start exploration: every schedule in a fresh process, nothing warmed up
//
// A lazily initialised table, cache or pool is only interesting the FIRST time it
// is used; after the warm-up passes above it is a non-event. Here each execution
// is a child process that builds the inputs with reference code, runs exactly one
// schedule of the program and only afterwards computes the sequential results.

// c19ColdHorizon: preemptions of a cold-start execution are explored at its first 60 points.
const c19ColdHorizon = 60

// c19Instrumented: alphabet entries offer their long variants (thousands of scheduling points
// each) to the plain and -race binaries only.
const c19Instrumented = true

type c19ColdRun struct {
	mc.SchedRun
	Want []string
	Err  string
}

func c19ParseThread(alpha []c19Call, tn string) (ci, v int) {
	for i := len(tn) - 1; i >= 0; i-- {
		if tn[i] == '#' {
			v, _ = strconv.Atoi(tn[i+1:])
			name := tn[:i]
			for k := range alpha {
				if alpha[k].Name == name {
					return k, v
				}
			}
		}
	}
	return -1, 0
}

func c19ColdOne(threads []string, prefix []int) c19ColdRun {
	alpha := c19Alphabet()
	in := c19Build(0, heapAlloc{})
	var bodies []func() string
	var cis, vs []int
	for _, tn := range threads {
		ci, v := c19ParseThread(alpha, tn)
		if ci < 0 {
			return c19ColdRun{Err: "unknown call " + tn}
		}
		cis, vs = append(cis, ci), append(vs, v)
		bodies = append(bodies, func() string { return c19Str(alpha[ci].Do(in, v)) })
	}
	// a schedule that preempts a thread inside a critical section the other one wants blocks: such
	// an execution is given up quickly (it is a fresh process; nothing is lost) and skipped
	watchdog := 5 * time.Second
	if len(prefix) > 0 {
		watchdog = 500 * time.Millisecond
	}
	e, err := mc.RunSchedule(bodies, prefix, func(f func(int)) { verifsched.Hook = f }, watchdog)
	out := c19ColdRun{SchedRun: e.Info()}
	if err != nil {
		out.Stuck = true
		return out
	}
	// the reference: the same calls, sequentially, afterwards
	for i := range cis {
		out.Want = append(out.Want, c19Safe(&alpha[cis[i]], in, vs[i]))
	}
	return out
}

func c19ColdPrograms(alpha []c19Call, in *c19In, thorough bool) [][]c19Thread {
	pick := func(ci, slot int) int {
		n := alpha[ci].N(in)
		return []int{n / 2, n / 3}[slot] % n
	}
	var out [][]c19Thread
	for a := range alpha {
		out = append(out, []c19Thread{{a, pick(a, 0)}, {a, pick(a, 1)}})
	}
	if thorough {
		var tri []int
		for i, cl := range alpha {
			if cl.Tri {
				tri = append(tri, i)
			}
		}
		for x := 0; x < len(tri); x++ {
			for y := x + 1; y < len(tri); y++ {
				out = append(out, []c19Thread{{tri[x], pick(tri[x], 0)}, {tri[y], pick(tri[y], 1)}})
			}
		}
	}
	return out
}

func c19ColdPass(out *c19WorkerOut, thorough bool, shard, shards int) {
	alpha := c19Alphabet()
	in := c19Build(0, heapAlloc{})
	progs := c19ColdPrograms(alpha, in, thorough)
	self, err := os.Executable()
	if err != nil {
		out.Err = err.Error()
		return
	}
	bound := 1
	if thorough {
		bound = 2
	}
	for pi := shard; pi < len(progs); pi += shards {
		p := c19Program{Threads: progs[pi], Bound: bound}
		names := p.names(alpha)
		tj, _ := json.Marshal(names)
		// programs whose calls are long get bound 1 only: every schedule is a process
		nviol := 0
		var lastErr string
		st := mc.ExploreRuns(bound, func(prefix []int) mc.SchedRun {
			pj, _ := json.Marshal(prefix)
			cmd := exec.Command(self, "-worker", "c19sched", "cold1", string(tj), string(pj))
			cmd.Env = append(os.Environ(), "GOMAXPROCS=1")
			b, err := cmd.Output()
			var r c19ColdRun
			if err != nil || json.Unmarshal(b, &r) != nil || r.Err != "" {
				lastErr = fmt.Sprint(err, r.Err)
				return mc.SchedRun{Stuck: true}
			}
			// smuggle the reference through the results: "got\x01want"
			for i := range r.Results {
				w := ""
				if i < len(r.Want) {
					w = r.Want[i]
				}
				r.Results[i] += "\x01" + w
			}
			if len(r.Points) > c19ColdHorizon {
				// too long to fork one process per schedule for every point: preemptions are explored at
				// the first c19ColdHorizon scheduling points only (first-use windows open early), every
				// execution still runs to completion
				r.Points = r.Points[:c19ColdHorizon]
			}
			return r.SchedRun
		}, func(r mc.SchedRun, prefix []int) {
			for i, gw := range r.Results {
				k := 0
				for k < len(gw) && gw[k] != 1 {
					k++
				}
				got, want := gw[:k], ""
				if k < len(gw) {
					want = gw[k+1:]
				}
				if got != want && nviol < 2 && len(out.Viols) < 40 {
					nviol++
					var ch []int
					for _, pt := range r.Points {
						ch = append(ch, pt.Chosen)
					}
					cs, _ := json.Marshal(c19Case{Threads: names, Choices: ch, Bound: bound, Input: 0, Note: "cold start: fresh process per schedule"})
					out.Viols = append(out.Viols, mc.Viol{Order: int64(pi)<<8 | int64(nviol), Kind: "cold", Class: "cold", Case: cs,
						Got: fmt.Sprintf("thread %d (%s) returned %s on first use", i, names[i], got), Want: "sequential result " + want})
				}
			}
		})
		out.Programs++
		out.Schedules += st.Schedules
		out.Points += st.Points
		if st.MaxPoints > out.MaxPoints {
			out.MaxPoints = st.MaxPoints
		}
		if st.Stuck {
			out.Stuck = append(out.Stuck, fmt.Sprint(names, " (cold): ", st.StuckRuns, " schedules skipped, a thread blocked outside the scheduler ", lastErr))
		}
	}
}

// c19PickByLength measures, for every call, how many scheduling points each
// variant executes when run alone, and picks per slot a variant with the most
// points not above a target (so that loops are entered but executions stay
// short enough to enumerate all schedules); different slots get different
// variants where possible.
func c19PickByLength(alpha []c19Call, in *c19In, target int) func(ci, slot int) int {
	choice := make([][3]int, len(alpha))
	for ci := range alpha {
		n := alpha[ci].N(in)
		type vp struct{ k, pts int }
		var vs []vp
		for k := 0; k < n; k++ {
			cnt := 0
			verifsched.Hook = func(int) { cnt++ }
			c19Safe(&alpha[ci], in, k)
			verifsched.Hook = nil
			vs = append(vs, vp{k, cnt})
		}
		// order: points ≤ target descending, then the rest ascending; stable in k
		sort.SliceStable(vs, func(i, j int) bool {
			a, b := vs[i], vs[j]
			ain, bin := a.pts <= target, b.pts <= target
			if ain != bin {
				return ain
			}
			if ain {
				return a.pts > b.pts
			}
			return a.pts < b.pts
		})
		for s := 0; s < 3; s++ {
			choice[ci][s] = vs[s%len(vs)].k
		}
	}
	return func(ci, slot int) int { return choice[ci][slot] }
}

func c19JudgeInstr(kind string, cs c19Case) (got, want string) {
	alpha := c19Alphabet()
	find := func(name string) int {
		for i := range alpha {
			if alpha[i].Name == name {
				return i
			}
		}
		return -1
	}
	switch kind {
	case "globals":
		ci := find(cs.Call)
		if ci < 0 {
			return "unknown call", ""
		}
		return c19GlobalsOne(alpha, ci, cs.Variant, cs.Input)
	case "cold":
		r := c19ColdOne(cs.Threads, cs.Choices)
		if r.Err != "" || r.Stuck {
			return "stuck or error: " + r.Err, fmt.Sprintf("%q", r.Want)
		}
		return fmt.Sprintf("%q", r.Results), fmt.Sprintf("%q", r.Want)
	case "schedule":
		in := c19Build(0, heapAlloc{})
		seq := c19Forward(alpha, in)
		var bodies []func() string
		var want []string
		for _, tn := range cs.Threads {
			var name string
			var v int
			for i := len(tn) - 1; i >= 0; i-- {
				if tn[i] == '#' {
					name = tn[:i]
					v, _ = strconv.Atoi(tn[i+1:])
					break
				}
			}
			ci := find(name)
			if ci < 0 {
				return "unknown call " + tn, ""
			}
			bodies = append(bodies, func() string { return c19Str(alpha[ci].Do(in, v)) })
			want = append(want, seq[ci][v])
		}
		base := c19HashGlobals()
		e, err := mc.RunSchedule(bodies, cs.Choices, func(f func(int)) { verifsched.Hook = f }, 5*time.Second)
		if err != nil {
			return "stuck: " + err.Error(), fmt.Sprintf("%q", want)
		}
		var res []string
		for _, t := range e.Threads {
			res = append(res, t.Result)
		}
		g := fmt.Sprintf("%q", res)
		if c19HashGlobals() != base {
			g += " + package state changed"
		}
		return g, fmt.Sprintf("%q", want)
	}
	return "unknown kind " + kind, ""
}
