// Package verifsched is the runtime half of the controlled scheduler (E4). It
// is compiled INTO the repository module as the virtual package
// github.com/openacid/low/verifsched through `go build -overlay` only; nothing
// of it exists in /repo. Go 1.14 dialect (the repository's go.mod).
package verifsched

// Global is one package-level variable of an instrumented package.
type Global struct {
	Pkg, Name string
	Ptr       interface{} // pointer to the variable
}

var globals []Global

// RegisterGlobal is called from generated init functions.
func RegisterGlobal(pkg, name string, ptr interface{}) {
	globals = append(globals, Global{pkg, name, ptr})
}

// Globals lists every registered package-level variable.
func Globals() []Global { return globals }

// Hook is installed by the explorer; nil means free running.
var Hook func(site int)

// Point is a scheduling point, inserted before statements that touch state
// shared between callers.
func Point(site int) {
	if h := Hook; h != nil {
		h(site)
	}
}
