module verif

go 1.23

require (
	github.com/golang/protobuf v1.4.2
	github.com/openacid/low v0.0.0
)

require (
	github.com/blang/semver v3.5.1+incompatible // indirect
	github.com/davecgh/go-spew v1.1.1 // indirect
	github.com/openacid/errors v0.8.1 // indirect
	github.com/openacid/must v0.1.3 // indirect
	github.com/pmezard/go-difflib v1.0.0 // indirect
	github.com/stretchr/testify v1.8.1 // indirect
	google.golang.org/protobuf v1.23.0 // indirect
	gopkg.in/yaml.v3 v3.0.1 // indirect
)

replace github.com/openacid/low => /repo
