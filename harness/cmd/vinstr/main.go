// vinstr is the source-to-source instrumenter of engine E4 (C19). It is run at
// check time over the CURRENT files of the target packages of /repo (read
// through an optional base overlay, so self-test mutants are instrumented too)
// and writes an overlay directory: rewritten files with verifsched.Point(site)
// before every statement that mentions state shared between callers, one
// generated file per package registering pointers to every package-level
// variable, the runtime package itself, overlay.json and sites.json.
//
// Shared state, syntactically: (a) a package-level var of the file's own package
// or, through an import selector, of another target package; (b) a method
// receiver; (c) a local assigned from an expression mentioning (a), (b) or (c)
// (per-function fixpoint). Over-instrumentation only adds schedule points.
package main

import (
	"bytes"
	"encoding/json"
	"flag"
	"fmt"
	"go/ast"
	"go/build"
	"go/format"
	"go/parser"
	"go/token"
	"io"
	"os"
	"path/filepath"
	"sort"
	"strings"
)

const modPath = "github.com/openacid/low"

type pkgInfo struct {
	dir     string
	name    string
	files   map[string]*ast.File
	globals map[string]bool
}

var (
	fset  = token.NewFileSet()
	pkgs  = map[string]*pkgInfo{} // import path -> info
	sites []string
)

type overlayJSON struct {
	Replace map[string]string
}

func main() {
	repo := flag.String("repo", "/repo", "repository root")
	out := flag.String("out", "", "output directory")
	base := flag.String("base", "", "optional base overlay (self-test mutant) to read sources through")
	rt := flag.String("rt", "", "source file of the verifsched runtime package")
	flag.Parse()
	targets := flag.Args()
	if *out == "" || *rt == "" || len(targets) == 0 {
		fmt.Fprintln(os.Stderr, "usage: vinstr -out dir -rt sched.go [-repo /repo] [-base overlay.json] pkg...")
		os.Exit(2)
	}
	os.MkdirAll(*out, 0755)
	baseRepl := map[string]string{}
	if *base != "" {
		b, err := os.ReadFile(*base)
		if err != nil {
			fail(err)
		}
		var o overlayJSON
		if err := json.Unmarshal(b, &o); err != nil {
			fail(err)
		}
		baseRepl = o.Replace
	}
	ctxt := build.Default
	for _, t := range targets {
		dir := filepath.Join(*repo, t)
		pi := &pkgInfo{dir: dir, files: map[string]*ast.File{}, globals: map[string]bool{}}
		names := map[string]string{} // file name -> path to read
		ents, _ := os.ReadDir(dir)
		for _, e := range ents {
			names[e.Name()] = filepath.Join(dir, e.Name())
		}
		for k, v := range baseRepl {
			if filepath.Dir(k) == dir {
				if v == "" {
					delete(names, filepath.Base(k))
				} else {
					names[filepath.Base(k)] = v
				}
			}
		}
		for n, path := range names {
			if !strings.HasSuffix(n, ".go") || strings.HasSuffix(n, "_test.go") {
				continue
			}
			src, err := os.ReadFile(path)
			if err != nil {
				fail(err)
			}
			// build constraints are evaluated on the content with the default context
			// (no extra tags), exactly as the plain build of the harness does
			if ok, _ := matchContent(&ctxt, dir, n, src); !ok {
				continue
			}
			f, err := parser.ParseFile(fset, filepath.Join(dir, n), src, parser.ParseComments)
			if err != nil {
				fail(err)
			}
			pi.files[n] = f
			pi.name = f.Name.Name
			for _, d := range f.Decls {
				if gd, ok := d.(*ast.GenDecl); ok && gd.Tok == token.VAR {
					for _, s := range gd.Specs {
						for _, id := range s.(*ast.ValueSpec).Names {
							if id.Name != "_" {
								pi.globals[id.Name] = true
							}
						}
					}
				}
			}
		}
		pkgs[modPath+"/"+t] = pi
	}
	overlay := map[string]string{}
	for k, v := range baseRepl {
		overlay[k] = v
	}
	var ips []string
	for ip := range pkgs {
		ips = append(ips, ip)
	}
	sort.Strings(ips)
	nglobals := 0
	for _, ip := range ips {
		pi := pkgs[ip]
		var fns []string
		for n := range pi.files {
			fns = append(fns, n)
		}
		sort.Strings(fns)
		for _, n := range fns {
			f := pi.files[n]
			stripBodyComments(f)
			if instrumentFile(pi, f) {
				addImport(f)
			}
			var buf bytes.Buffer
			if err := format.Node(&buf, fset, f); err != nil {
				fail(err)
			}
			dst := filepath.Join(*out, strings.ReplaceAll(ip, "/", "_")+"_"+n+".txt")
			if err := os.WriteFile(dst, buf.Bytes(), 0644); err != nil {
				fail(err)
			}
			overlay[filepath.Join(pi.dir, n)] = dst
		}
		if len(pi.globals) == 0 {
			continue
		}
		var b strings.Builder
		fmt.Fprintf(&b, "package %s\n\nimport verifsched \"%s/verifsched\"\n\nfunc init() {\n", pi.name, modPath)
		var gs []string
		for g := range pi.globals {
			gs = append(gs, g)
		}
		sort.Strings(gs)
		for _, g := range gs {
			fmt.Fprintf(&b, "\tverifsched.RegisterGlobal(%q, %q, &%s)\n", pi.name, g, g)
			nglobals++
		}
		b.WriteString("}\n")
		dst := filepath.Join(*out, strings.ReplaceAll(ip, "/", "_")+"_zz_verif_globals.go.txt")
		os.WriteFile(dst, []byte(b.String()), 0644)
		overlay[filepath.Join(pi.dir, "zz_verif_globals.go")] = dst
	}
	overlay[filepath.Join(*repo, "verifsched", "sched.go")] = *rt
	js, _ := json.MarshalIndent(overlayJSON{overlay}, "", " ")
	os.WriteFile(filepath.Join(*out, "overlay.json"), js, 0644)
	sj, _ := json.MarshalIndent(sites, "", " ")
	os.WriteFile(filepath.Join(*out, "sites.json"), sj, 0644)
	fmt.Printf("vinstr: %d packages, %d scheduling points, %d package-level variables registered\n", len(pkgs), len(sites), nglobals)
}

func fail(err error) {
	fmt.Fprintln(os.Stderr, "vinstr:", err)
	os.Exit(1)
}

// matchContent evaluates the file's build constraints from its content.
func matchContent(ctxt *build.Context, dir, name string, src []byte) (bool, error) {
	c := *ctxt
	c.OpenFile = func(path string) (io.ReadCloser, error) {
		return io.NopCloser(bytes.NewReader(src)), nil
	}
	return c.MatchFile(dir, name)
}

// stripBodyComments drops comments inside function bodies: inserted statements
// have no position, and go/printer could otherwise attach a floating comment to
// the wrong place. Doc comments, directives above declarations and the file
// header (build constraints) are kept.
func stripBodyComments(f *ast.File) {
	var bodies [][2]token.Pos
	for _, d := range f.Decls {
		if fd, ok := d.(*ast.FuncDecl); ok && fd.Body != nil {
			bodies = append(bodies, [2]token.Pos{fd.Body.Lbrace, fd.Body.Rbrace})
		}
	}
	var keep []*ast.CommentGroup
	for _, cg := range f.Comments {
		inside := false
		for _, b := range bodies {
			if cg.Pos() > b[0] && cg.End() < b[1] {
				inside = true
				break
			}
		}
		if !inside {
			keep = append(keep, cg)
		}
	}
	f.Comments = keep
}

func addImport(f *ast.File) {
	imp := &ast.ImportSpec{Name: ast.NewIdent("verifsched"), Path: &ast.BasicLit{Kind: token.STRING, Value: fmt.Sprintf("%q", modPath+"/verifsched")}}
	gd := &ast.GenDecl{Tok: token.IMPORT, Specs: []ast.Spec{imp}}
	f.Decls = append([]ast.Decl{gd}, f.Decls...)
}

type fnCtx struct {
	pi      *pkgInfo
	file    *ast.File
	imports map[string]*pkgInfo // local import name -> target pkg
	taint   map[*ast.Object]bool
	changed bool
}

func instrumentFile(pi *pkgInfo, f *ast.File) bool {
	imports := map[string]*pkgInfo{}
	for _, is := range f.Imports {
		p := strings.Trim(is.Path.Value, `"`)
		if tp, ok := pkgs[p]; ok {
			name := tp.name
			if is.Name != nil {
				name = is.Name.Name
			}
			imports[name] = tp
		}
	}
	any := false
	for _, d := range f.Decls {
		fd, ok := d.(*ast.FuncDecl)
		if !ok || fd.Body == nil {
			continue
		}
		c := &fnCtx{pi: pi, file: f, imports: imports, taint: map[*ast.Object]bool{}}
		if fd.Recv != nil {
			for _, fl := range fd.Recv.List {
				for _, id := range fl.Names {
					if id.Obj != nil {
						c.taint[id.Obj] = true
					}
				}
			}
		}
		// taint fixpoint
		for {
			n := len(c.taint)
			ast.Inspect(fd.Body, func(nd ast.Node) bool {
				switch s := nd.(type) {
				case *ast.AssignStmt:
					if c.mentions(s.Rhs...) {
						for _, l := range s.Lhs {
							if id, ok := l.(*ast.Ident); ok && id.Obj != nil && id.Name != "_" {
								c.taint[id.Obj] = true
							}
						}
					}
				case *ast.ValueSpec:
					if c.mentions(s.Values...) {
						for _, id := range s.Names {
							if id.Obj != nil {
								c.taint[id.Obj] = true
							}
						}
					}
				case *ast.RangeStmt:
					if c.mentions(s.X) {
						for _, e := range []ast.Expr{s.Key, s.Value} {
							if id, ok := e.(*ast.Ident); ok && id.Obj != nil {
								c.taint[id.Obj] = true
							}
						}
					}
				}
				return true
			})
			if len(c.taint) == n {
				break
			}
		}
		c.block(fd.Body, fd.Name.Name)
		any = any || c.changed
	}
	return any
}

// mentions reports whether any expr mentions shared state.
func (c *fnCtx) mentions(es ...ast.Expr) bool {
	found := false
	for _, e := range es {
		if e == nil {
			continue
		}
		ast.Inspect(e, func(n ast.Node) bool {
			if found {
				return false
			}
			switch x := n.(type) {
			case *ast.FuncLit:
				return false // handled as its own body
			case *ast.SelectorExpr:
				if id, ok := x.X.(*ast.Ident); ok && id.Obj == nil {
					if tp, ok := c.imports[id.Name]; ok {
						if tp.globals[x.Sel.Name] {
							found = true
						}
						return false
					}
				}
				// visit X only, not Sel
				if c.mentions(x.X) {
					found = true
				}
				return false
			case *ast.Ident:
				if x.Obj != nil {
					if c.taint[x.Obj] {
						found = true
					} else if x.Obj.Kind == ast.Var && c.pi.globals[x.Name] && isTopLevel(c.file, x.Obj) {
						found = true
					}
				} else if c.pi.globals[x.Name] {
					found = true // declared in another file of the package
				}
			}
			return true
		})
	}
	return found
}

func isTopLevel(f *ast.File, o *ast.Object) bool {
	vs, ok := o.Decl.(*ast.ValueSpec)
	if !ok {
		return false
	}
	for _, d := range f.Decls {
		if gd, ok := d.(*ast.GenDecl); ok {
			for _, s := range gd.Specs {
				if s == vs {
					return true
				}
			}
		}
	}
	return false
}

func (c *fnCtx) point(pos token.Pos, fn string) ast.Stmt {
	p := fset.Position(pos)
	id := len(sites)
	sites = append(sites, fmt.Sprintf("%s:%d %s", filepath.Base(p.Filename), p.Line, fn))
	c.changed = true
	return &ast.ExprStmt{X: &ast.CallExpr{
		Fun:  &ast.SelectorExpr{X: ast.NewIdent("verifsched"), Sel: ast.NewIdent("Point")},
		Args: []ast.Expr{&ast.BasicLit{Kind: token.INT, Value: fmt.Sprint(id)}},
	}}
}

func (c *fnCtx) block(b *ast.BlockStmt, fn string) {
	if b == nil {
		return
	}
	b.List = c.list(b.List, fn)
}

func (c *fnCtx) funcLits(n ast.Node, fn string) {
	if n == nil {
		return
	}
	ast.Inspect(n, func(nd ast.Node) bool {
		if fl, ok := nd.(*ast.FuncLit); ok {
			c.block(fl.Body, fn+".func")
			return false
		}
		return true
	})
}

func (c *fnCtx) list(in []ast.Stmt, fn string) []ast.Stmt {
	var out []ast.Stmt
	for _, s := range in {
		if c.own(s) {
			out = append(out, c.point(s.Pos(), fn))
		}
		c.inner(s, fn)
		out = append(out, s)
	}
	return out
}

// own: does the statement itself (headers only for compound statements) mention shared state?
func (c *fnCtx) own(s ast.Stmt) bool {
	switch x := s.(type) {
	case *ast.BlockStmt:
		return false
	case *ast.IfStmt:
		return (x.Init != nil && c.own(x.Init)) || c.mentions(x.Cond)
	case *ast.ForStmt:
		return (x.Init != nil && c.own(x.Init)) || c.mentions(x.Cond) || (x.Post != nil && c.own(x.Post))
	case *ast.RangeStmt:
		return c.mentions(x.X)
	case *ast.SwitchStmt:
		return (x.Init != nil && c.own(x.Init)) || c.mentions(x.Tag)
	case *ast.TypeSwitchStmt:
		return (x.Init != nil && c.own(x.Init)) || c.own(x.Assign)
	case *ast.SelectStmt:
		return false
	case *ast.LabeledStmt:
		return c.own(x.Stmt)
	case *ast.AssignStmt:
		return c.mentions(x.Lhs...) || c.mentions(x.Rhs...)
	case *ast.ExprStmt:
		return c.mentions(x.X)
	case *ast.IncDecStmt:
		return c.mentions(x.X)
	case *ast.ReturnStmt:
		return c.mentions(x.Results...)
	case *ast.SendStmt:
		return c.mentions(x.Chan, x.Value)
	case *ast.GoStmt:
		return c.mentions(x.Call)
	case *ast.DeferStmt:
		return c.mentions(x.Call)
	case *ast.DeclStmt:
		if gd, ok := x.Decl.(*ast.GenDecl); ok && gd.Tok == token.VAR {
			for _, sp := range gd.Specs {
				if c.mentions(sp.(*ast.ValueSpec).Values...) {
					return true
				}
			}
		}
		return false
	}
	return false
}

func (c *fnCtx) inner(s ast.Stmt, fn string) {
	switch x := s.(type) {
	case *ast.BlockStmt:
		c.block(x, fn)
	case *ast.IfStmt:
		c.funcLits(x.Cond, fn)
		c.block(x.Body, fn)
		switch e := x.Else.(type) {
		case *ast.BlockStmt:
			c.block(e, fn)
		case *ast.IfStmt:
			// else-if: wrap so a point can precede the nested condition
			blk := &ast.BlockStmt{List: c.list([]ast.Stmt{e}, fn)}
			x.Else = blk
		}
	case *ast.ForStmt:
		c.block(x.Body, fn)
		if c.mentions(x.Cond) || (x.Post != nil && c.own(x.Post)) {
			// the header is re-evaluated on every iteration
			x.Body.List = append([]ast.Stmt{c.point(x.Pos(), fn+".loop")}, x.Body.List...)
		}
	case *ast.RangeStmt:
		c.block(x.Body, fn)
	case *ast.SwitchStmt:
		for _, cc := range x.Body.List {
			cl := cc.(*ast.CaseClause)
			cl.Body = c.list(cl.Body, fn)
		}
	case *ast.TypeSwitchStmt:
		for _, cc := range x.Body.List {
			cl := cc.(*ast.CaseClause)
			cl.Body = c.list(cl.Body, fn)
		}
	case *ast.SelectStmt:
		for _, cc := range x.Body.List {
			cl := cc.(*ast.CommClause)
			cl.Body = c.list(cl.Body, fn)
		}
	case *ast.LabeledStmt:
		c.inner(x.Stmt, fn)
	default:
		c.funcLits(s, fn)
	}
}
