// vcheck is the single driver of the checks: vcheck -prop C07 -tier quick, or
// vcheck -replay <file>.
package main

import (
	"flag"
	"fmt"
	"os"
	"strconv"
	"time"

	"verif/mc"
	_ "verif/props"
)

func main() {
	prop := flag.String("prop", "", "property id")
	tier := flag.String("tier", "", "quick | thorough (default: $VERIF_TIER or quick)")
	replay := flag.String("replay", "", "replay one recorded case and exit")
	root := flag.String("root", "/verif", "verification root (evidence/, replays/, known_findings.txt)")
	out := flag.String("out", "", "where evidence/ and replays/ are written (default: root)")
	budget := flag.Duration("budget", 0, "internal time budget (0 = tier default)")
	worker := flag.String("worker", "", "internal: run a named worker task")
	list := flag.Bool("list", false, "list registered properties")
	flag.Parse()

	if *list {
		for _, id := range mc.IDs() {
			fmt.Println(id)
		}
		return
	}
	if *worker != "" {
		os.Exit(mc.RunWorker(*worker, flag.Args()))
	}
	if *replay != "" {
		os.Exit(mc.ReplayFile(*replay, os.Stdout))
	}
	if *tier == "" {
		*tier = os.Getenv("VERIF_TIER")
	}
	if *tier != "thorough" {
		*tier = "quick"
	}
	seed := int64(0)
	if s := os.Getenv("VERIF_SEED"); s != "" {
		if v, err := strconv.ParseInt(s, 10, 64); err == nil {
			seed = v
		}
	}
	if *budget == 0 {
		*budget = 4 * time.Minute
		if *tier == "thorough" {
			*budget = 40 * time.Minute
		}
	}
	if *out == "" {
		*out = *root
	}
	os.Exit(mc.Main(*prop, *tier, seed, *budget, *root, *out))
}
