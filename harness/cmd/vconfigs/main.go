// vconfigs discovers the BUILD CONFIGURATIONS the working tree itself distinguishes.
//
//	vconfigs [-overlay file] [-skip tag,tag] <import path>...
//
// It asks `go list -deps` for the packages of github.com/openacid/low that the given
// packages are built from and looks at the non-test Go files the default build IGNORES
// because of a build constraint. For every such file it searches the smallest change of
// the build configuration that would compile it in - a custom tag (or two), a GOAMD64
// level, CGO_ENABLED=0 - among the configurations this machine can run, and prints one
// line per distinct configuration:
//
//	<name>\t<ENV=val ...>\t<tag,tag>
//
// Files that only another operating system or architecture would compile are reported on
// lines starting with "#" (they go into the evidence; nothing can run them here).
// The unchanged tree has no such file, so the output is empty and no pass is added.
package main

import (
	"encoding/json"
	"flag"
	"fmt"
	"go/build/constraint"
	"os"
	"os/exec"
	"path/filepath"
	"sort"
	"strings"
)

type pkg struct {
	ImportPath     string
	Dir            string
	IgnoredGoFiles []string
	Module         *struct{ Path string }
}

func main() {
	overlay := flag.String("overlay", "", "go build overlay file")
	skip := flag.String("skip", "", "configurations (tag sets joined by +) that a fixed pass already covers")
	flag.Parse()
	args := []string{"list", "-deps", "-json"}
	repl := map[string]string{}
	if *overlay != "" {
		args = append(args, "-overlay", *overlay)
		var ov struct{ Replace map[string]string }
		if b, err := os.ReadFile(*overlay); err == nil && json.Unmarshal(b, &ov) == nil {
			repl = ov.Replace
		}
	}
	args = append(args, flag.Args()...)
	out, err := exec.Command("go", args...).Output()
	if err != nil {
		fmt.Println("# go list failed:", err)
		return
	}
	skipSet := map[string]bool{}
	for _, s := range strings.Split(*skip, ",") {
		if s != "" {
			skipSet[s] = true
		}
	}
	dec := json.NewDecoder(strings.NewReader(string(out)))
	type cfg struct{ env, tags string }
	found := map[string]cfg{}
	var notes []string
	for dec.More() {
		var p pkg
		if dec.Decode(&p) != nil {
			break
		}
		if p.Module == nil || p.Module.Path != "github.com/openacid/low" {
			continue
		}
		for _, f := range p.IgnoredGoFiles {
			if strings.HasSuffix(f, "_test.go") {
				continue
			}
			path := filepath.Join(p.Dir, f)
			src := path
			if r, ok := repl[path]; ok {
				if r == "" {
					continue
				}
				src = r
			}
			b, err := os.ReadFile(src)
			if err != nil {
				continue
			}
			expr := fileConstraint(f, string(b))
			if expr == nil {
				continue
			}
			name, c, ok := solve(expr)
			switch {
			case !ok:
				notes = append(notes, fmt.Sprintf("# %s/%s is compiled only by a configuration this machine cannot run (%s)", p.ImportPath, f, expr.String()))
			case skipSet[name]:
			default:
				found[name] = cfg{c.env, c.tags}
			}
		}
	}
	var names []string
	for n := range found {
		names = append(names, n)
	}
	sort.Strings(names)
	for _, n := range names {
		fmt.Printf("%s\t%s\t%s\n", n, found[n].env, found[n].tags)
	}
	sort.Strings(notes)
	for _, n := range notes {
		fmt.Println(n)
	}
}

// fileConstraint returns the build constraint of a file: its //go:build line, or the
// conjunction of its // +build lines, and-ed with what its name implies (_GOOS, _GOARCH).
func fileConstraint(name, src string) constraint.Expr {
	var goBuild constraint.Expr
	var plus constraint.Expr
	for _, line := range strings.Split(src, "\n") {
		t := strings.TrimSpace(line)
		if t == "" {
			continue
		}
		if !strings.HasPrefix(t, "//") {
			if strings.HasPrefix(t, "/*") {
				continue
			}
			break // package clause reached
		}
		if constraint.IsGoBuild(t) {
			if e, err := constraint.Parse(t); err == nil {
				goBuild = e
			}
		} else if constraint.IsPlusBuild(t) {
			if e, err := constraint.Parse(t); err == nil {
				if plus == nil {
					plus = e
				} else {
					plus = &constraint.AndExpr{X: plus, Y: e}
				}
			}
		}
	}
	e := goBuild
	if e == nil {
		e = plus
	}
	// file name suffixes
	base := strings.TrimSuffix(name, ".go")
	parts := strings.Split(base, "_")
	for i := len(parts) - 1; i >= 1 && i >= len(parts)-2; i-- {
		if knownOS[parts[i]] || knownArch[parts[i]] {
			t := &constraint.TagExpr{Tag: parts[i]}
			if e == nil {
				e = t
			} else {
				e = &constraint.AndExpr{X: e, Y: t}
			}
		}
	}
	return e
}

var knownOS = map[string]bool{"aix": true, "android": true, "darwin": true, "dragonfly": true, "freebsd": true, "illumos": true, "ios": true, "js": true, "linux": true, "netbsd": true, "openbsd": true, "plan9": true, "solaris": true, "wasip1": true, "windows": true}
var knownArch = map[string]bool{"386": true, "amd64": true, "arm": true, "arm64": true, "loong64": true, "mips": true, "mips64": true, "mips64le": true, "mipsle": true, "ppc64": true, "ppc64le": true, "riscv64": true, "s390x": true, "wasm": true}

type conf struct{ env, tags string }

// solve looks for the smallest configuration runnable here under which expr holds.
func solve(expr constraint.Expr) (string, conf, bool) {
	custom := map[string]bool{}
	var walk func(e constraint.Expr)
	walk = func(e constraint.Expr) {
		switch x := e.(type) {
		case *constraint.TagExpr:
			t := x.Tag
			switch {
			case knownOS[t], knownArch[t], t == "unix", t == "gc", t == "gccgo", t == "cgo", t == "ignore",
				t == "race", t == "msan", t == "asan", strings.HasPrefix(t, "go1."), strings.HasPrefix(t, "amd64.v"),
				strings.HasPrefix(t, "goexperiment."), strings.HasPrefix(t, "arm64.v"), strings.HasPrefix(t, "arm."):
			default:
				custom[t] = true
			}
		case *constraint.NotExpr:
			walk(x.X)
		case *constraint.AndExpr:
			walk(x.X)
			walk(x.Y)
		case *constraint.OrExpr:
			walk(x.X)
			walk(x.Y)
		}
	}
	walk(expr)
	var cs []string
	for t := range custom {
		cs = append(cs, t)
	}
	sort.Strings(cs)
	// candidate tag sets: none, each custom tag, each pair
	sets := [][]string{nil}
	for i := range cs {
		sets = append(sets, []string{cs[i]})
	}
	for i := range cs {
		for j := i + 1; j < len(cs); j++ {
			sets = append(sets, []string{cs[i], cs[j]})
		}
	}
	if len(cs) > 2 {
		sets = append(sets, cs)
	}
	type base struct {
		name, env string
		level     int
		cgo       bool
	}
	bases := []base{{"", "", 1, true}, {"goamd64-v2", "GOAMD64=v2", 2, true}, {"goamd64-v3", "GOAMD64=v3", 3, true}, {"cgo-off", "CGO_ENABLED=0", 1, false}}
	if cpuHas("avx512f", "avx512bw", "avx512cd", "avx512dq", "avx512vl") {
		bases = append(bases, base{"goamd64-v4", "GOAMD64=v4", 4, true})
	}
	if !cpuHas("avx2", "bmi1", "bmi2", "fma", "movbe") {
		bases = bases[:1]
	}
	for _, ts := range sets {
		for _, b := range bases {
			has := map[string]bool{"linux": true, "amd64": true, "unix": true, "gc": true, "cgo": b.cgo}
			for v := 1; v <= b.level; v++ {
				has[fmt.Sprintf("amd64.v%d", v)] = true
			}
			for _, t := range ts {
				has[t] = true
			}
			ok := expr.Eval(func(tag string) bool {
				if strings.HasPrefix(tag, "go1.") {
					return true
				}
				return has[tag]
			})
			if !ok {
				continue
			}
			name := b.name
			if len(ts) > 0 {
				if name != "" {
					name += "+"
				}
				name += "tags-" + strings.Join(ts, "+")
			}
			if name == "" {
				return "", conf{}, false // holds in the default build?! then it was ignored for another reason
			}
			return name, conf{b.env, strings.Join(ts, ",")}, true
		}
	}
	return "", conf{}, false
}

func cpuHas(flags ...string) bool {
	b, err := os.ReadFile("/proc/cpuinfo")
	if err != nil {
		return false
	}
	for _, line := range strings.Split(string(b), "\n") {
		if strings.HasPrefix(line, "flags") {
			have := map[string]bool{}
			for _, f := range strings.Fields(line) {
				have[f] = true
			}
			for _, f := range flags {
				if f == "abm" || f == "lzcnt" {
					continue
				}
				if !have[f] {
					return false
				}
			}
			return true
		}
	}
	return false
}
