package ref

// Bits renders a byte string as its bits, most significant bit of each byte
// first, as '0'/'1' characters.
func Bits(s string) string {
	b := make([]byte, 0, 8*len(s))
	for i := 0; i < len(s); i++ {
		for k := 7; k >= 0; k-- {
			b = append(b, '0'+s[i]>>uint(k)&1)
		}
	}
	return string(b)
}

// BitsVal reads a '0'/'1' string as a number.
func BitsVal(bs string) uint64 {
	var v uint64
	for i := 0; i < len(bs); i++ {
		v = v<<1 | uint64(bs[i]-'0')
	}
	return v
}

// Sign returns -1, 0, 1.
func Sign(a, b string) int {
	switch {
	case a < b:
		return -1
	case a > b:
		return 1
	}
	return 0
}
