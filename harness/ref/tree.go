// Package ref holds the reference models: boring, specification-level code that
// never calls the library function it judges.
package ref

// A level mask T (the library's "bitmapSize"): bit l set means the nodes at
// depth l are stored; the top set bit is the tree height h. The number of
// stored nodes is T itself (Σ 2^l over stored l).

// Height is the index of the top set bit of the mask (mask > 0).
func Height(mask int32) int {
	h := -1
	for m := uint32(mask); m != 0; m >>= 1 {
		h++
	}
	return h
}

// Stored reports whether depth l is stored by the mask.
func Stored(mask int32, l int) bool { return uint32(mask)>>uint(l)&1 == 1 }

// PathWord assembles the path word of the node reached by the l-bit prefix
// `prefix` (an integer < 2^l) in a tree of height h, by hand: search bits
// left-aligned in h bits in the upper half, l ones left-aligned in h bits in
// the lower half.
func PathWord(prefix uint64, l, h int) uint64 {
	bits := prefix << uint(h-l)
	var ones uint64
	if l > 0 {
		ones = (uint64(1)<<uint(l) - 1) << uint(h-l)
	}
	return bits<<32 | ones
}

// Walk visits every node of the tree of the mask's height in pre-order (node,
// left subtree, right subtree) and reports, for each, its path word, depth and
// the number of stored nodes visited before it.
func Walk(mask int32, visit func(path uint64, prefix uint64, depth int, before int32, stored bool)) {
	h := Height(mask)
	counter := int32(0)
	var rec func(prefix uint64, depth int)
	rec = func(prefix uint64, depth int) {
		st := Stored(mask, depth)
		visit(PathWord(prefix, depth, h), prefix, depth, counter, st)
		if st {
			counter++
		}
		if depth < h {
			rec(prefix<<1, depth+1)
			rec(prefix<<1|1, depth+1)
		}
	}
	rec(0, 0)
}

// ClosedIndex is the closed form of "stored nodes before node (prefix, l)" used
// for tall trees: stored proper ancestors, plus for every right turn the stored
// size of the skipped left subtree. It is cross-checked against Walk on every
// mask of the complete space.
func ClosedIndex(mask int32, prefix uint64, l int) int64 {
	h := Height(mask)
	var idx int64
	for d := 0; d < l; d++ {
		if Stored(mask, d) {
			idx++ // the ancestor at depth d precedes the node
		}
		// turn taken at depth d leads to depth d+1
		if prefix>>uint(l-1-d)&1 == 1 {
			// skipped: the left subtree rooted at depth d+1
			for e := d + 1; e <= h; e++ {
				if Stored(mask, e) {
					idx += int64(1) << uint(e-(d+1))
				}
			}
		}
	}
	return idx
}

// Succ is the pre-order successor on (prefix, length) in the full tree of
// height h: append 0 if not a leaf, else strip trailing 1s and flip the last 0.
// ok is false after the last node.
func Succ(prefix uint64, l, h int) (uint64, int, bool) {
	if l < h {
		return prefix << 1, l + 1, true
	}
	for l > 0 && prefix&1 == 1 {
		prefix >>= 1
		l--
	}
	if l == 0 {
		return 0, 0, false
	}
	return prefix | 1, l, true
}

// NodeAt returns the index-th node (pre-order) of the full tree of height h by
// descending by subtree sizes.
func NodeAt(h int, index int64) (prefix uint64, l int) {
	for index > 0 {
		index--                        // step from the node into its left subtree
		sub := int64(1)<<uint(h-l) - 1 // size of each child subtree (height h-l-1)
		if index >= sub {
			index -= sub
			prefix = prefix<<1 | 1
		} else {
			prefix <<= 1
		}
		l++
	}
	return prefix, l
}

// BitString renders the l-bit prefix as '0'/'1' characters.
func BitString(prefix uint64, l int) string {
	b := make([]byte, l)
	for i := 0; i < l; i++ {
		b[i] = '0' + byte(prefix>>uint(l-1-i)&1)
	}
	return string(b)
}
