package mc

import (
	"fmt"
	"runtime"
	"time"
)

// E4 — preemption-bounded schedule exploration. Threads are goroutines that
// block at every scheduling point until resumed; exactly one runs at a time.
// The enabled set is kept in canonical order (running thread first if it is
// still enabled, then ascending ids); switching away from a still-enabled thread
// costs one preemption. The explorer is the stateless DFS over choice prefixes.

type SchedThread struct {
	id     int
	gid    uintptr // goroutine identity, so that scheduling points reached by OTHER goroutines are ignored
	resume chan struct{}
	Done   bool
	Result string
}

// curGID parses the current goroutine's id from its stack header. A goroutine the
// code under test starts by itself (a parallelised loop, say) also runs through
// instrumented statements; it is not one of the explorer's threads and must run
// free instead of confusing the hand-off protocol.
func curGID() uint64 {
	var buf [40]byte
	n := runtime.Stack(buf[:], false)
	// "goroutine 123 [running]:"
	var id uint64
	for i := len("goroutine "); i < n && buf[i] >= '0' && buf[i] <= '9'; i++ {
		id = id*10 + uint64(buf[i]-'0')
	}
	return id
}

type schedEvent struct {
	t    *SchedThread
	site int
	done bool
}

type schedPoint struct {
	enabled        int // number of enabled threads
	runningEnabled bool
	chosen         int
}

// SchedExec is one complete execution.
type SchedExec struct {
	Threads []*SchedThread
	points  []schedPoint
	Trace   []int // thread id chosen at each step
	Sites   []int // site at which the chosen thread stopped next (-1 = finished)
	Stuck   bool
	// Diverged: the recorded prefix could not be followed (see RunSchedule).
	Diverged bool
}

// Choices returns the choice made at every step (the replayable schedule).
func (e *SchedExec) Choices() []int {
	c := make([]int, len(e.points))
	for i, p := range e.points {
		c[i] = p.chosen
	}
	return c
}

// ErrStuck is returned when a thread blocked outside the scheduler's control.
var ErrStuck = fmt.Errorf("a thread did not reach its next scheduling point (blocked outside the scheduler)")

// RunSchedule executes bodies under the schedule given by prefix (choices into
// the canonical enabled list), default choice 0 afterwards. setHook installs
// the point hook.
func RunSchedule(bodies []func() string, prefix []int, setHook func(func(int)), watchdog time.Duration) (*SchedExec, error) {
	e := &SchedExec{}
	events := make(chan schedEvent)
	var cur *SchedThread
	for i, b := range bodies {
		t := &SchedThread{id: i, resume: make(chan struct{})}
		body := b
		e.Threads = append(e.Threads, t)
		started := make(chan struct{})
		go func() {
			t.gid = goroutineIdentity()
			close(started)
			<-t.resume
			func() {
				defer func() {
					if r := recover(); r != nil {
						t.Result = fmt.Sprint("PANIC: ", r)
					}
				}()
				t.Result = body()
			}()
			events <- schedEvent{t: t, done: true}
		}()
		<-started
	}
	setHook(func(site int) {
		t := cur
		if t == nil || goroutineIdentity() != t.gid {
			return // a goroutine that is not the running explorer thread: free running
		}
		events <- schedEvent{t: t, site: site}
		<-t.resume
	})
	defer setHook(nil)
	running := -1
	timer := time.NewTimer(watchdog)
	defer timer.Stop()
	for step := 0; ; step++ {
		var en []int
		re := false
		if running >= 0 && !e.Threads[running].Done {
			en = append(en, running)
			re = true
		}
		for _, t := range e.Threads {
			if !t.Done && t.id != running {
				en = append(en, t.id)
			}
		}
		if len(en) == 0 {
			break
		}
		c := 0
		if step < len(prefix) {
			c = prefix[step]
			if c >= len(en) {
				// The same prefix met a different set of scheduling points: the bodies'
				// control flow depends on something outside the schedule (state left
				// behind by an earlier execution). Let the remaining threads finish.
				e.Diverged = true
				c = 0
			}
		}
		e.points = append(e.points, schedPoint{enabled: len(en), runningEnabled: re, chosen: c})
		running = en[c]
		e.Trace = append(e.Trace, running)
		t := e.Threads[running]
		cur = t
		t.resume <- struct{}{}
		if !timer.Stop() {
			select {
			case <-timer.C:
			default:
			}
		}
		timer.Reset(watchdog)
		select {
		case ev := <-events:
			if ev.t != t {
				panic("mc: event from a thread that is not running")
			}
			if ev.done {
				t.Done = true
				e.Sites = append(e.Sites, -1)
			} else {
				e.Sites = append(e.Sites, ev.site)
			}
		case <-timer.C:
			e.Stuck = true
			return e, ErrStuck
		}
	}
	return e, nil
}

// PointInfo describes one scheduling decision of an execution.
type PointInfo struct {
	Enabled        int
	RunningEnabled bool
	Chosen         int
}

// SchedRun is the outcome of one execution as the explorer needs it; it can come
// from this process (RunSchedule) or from a child process that executed exactly
// one schedule from a cold start.
type SchedRun struct {
	Points   []PointInfo
	Results  []string
	Stuck    bool
	Diverged bool
}

// Info exports the scheduling decisions of an execution.
func (e *SchedExec) Info() SchedRun {
	r := SchedRun{Stuck: e.Stuck, Diverged: e.Diverged}
	for _, p := range e.points {
		r.Points = append(r.Points, PointInfo{p.enabled, p.runningEnabled, p.chosen})
	}
	for _, t := range e.Threads {
		r.Results = append(r.Results, t.Result)
	}
	return r
}

// ExploreRuns is the preemption-bounded DFS over an abstract executor: run
// executes ONE schedule (prefix, then default choices) and reports its points.
func ExploreRuns(bound int, run func(prefix []int) SchedRun, check func(r SchedRun, prefix []int)) SchedStats {
	st := SchedStats{Outcomes: map[string]int64{}}
	var rec func(prefix []int)
	rec = func(prefix []int) {
		if st.Diverged || st.StuckRuns > 200 {
			return
		}
		r := run(prefix)
		if r.Stuck {
			// Every execution of an abstract executor is isolated from the others (a process of its
			// own), so a schedule in which a thread blocks outside the scheduler - typically: the
			// preempted thread holds a lock the other one wants - is skipped, not fatal: the
			// exploration goes on with its siblings and the count is reported.
			st.Stuck = true
			st.StuckRuns++
			return
		}
		if r.Diverged {
			st.Diverged = true
			check(r, prefix)
			return
		}
		st.Schedules++
		st.Points += int64(len(r.Points))
		if len(r.Points) > st.MaxPoints {
			st.MaxPoints = len(r.Points)
		}
		key := ""
		for _, x := range r.Results {
			key += x + "\x00"
		}
		st.Outcomes[key]++
		check(r, prefix)
		pre := 0
		for i, p := range r.Points {
			if i >= len(prefix) {
				cost := pre
				if p.RunningEnabled {
					cost++
				}
				if cost <= bound {
					for alt := 1; alt < p.Enabled; alt++ {
						np := make([]int, i+1)
						for j := 0; j < i; j++ {
							np[j] = r.Points[j].Chosen
						}
						np[i] = alt
						rec(np)
					}
				}
			}
			if p.RunningEnabled && p.Chosen != 0 {
				pre++
			}
		}
	}
	rec(nil)
	return st
}

// SchedStats is what one program's exploration covered.
type SchedStats struct {
	Schedules int64
	Points    int64
	MaxPoints int
	Outcomes  map[string]int64
	Stuck     bool
	StuckRuns int64 // ExploreRuns only: schedules skipped because a thread blocked outside the scheduler
	Diverged  bool
}

// ExploreSchedules enumerates every schedule of bodies with at most bound
// preemptions and hands each execution to check.
func ExploreSchedules(bodies []func() string, bound int, setHook func(func(int)), watchdog time.Duration, check func(e *SchedExec)) SchedStats {
	st := SchedStats{Outcomes: map[string]int64{}}
	var rec func(prefix []int)
	rec = func(prefix []int) {
		if st.Stuck || st.Diverged {
			return
		}
		e, err := RunSchedule(bodies, prefix, setHook, watchdog)
		if err != nil {
			st.Stuck = true
			return
		}
		if e.Diverged {
			// executions are not independent of each other: stop enumerating this program;
			// the caller reports it (the state change itself is reported by its own oracle)
			st.Diverged = true
			check(e)
			return
		}
		st.Schedules++
		st.Points += int64(len(e.points))
		if len(e.points) > st.MaxPoints {
			st.MaxPoints = len(e.points)
		}
		key := ""
		for _, t := range e.Threads {
			key += t.Result + "\x00"
		}
		st.Outcomes[key]++
		check(e)
		pre := 0
		for i, p := range e.points {
			if i >= len(prefix) {
				cost := pre
				if p.runningEnabled {
					cost++ // switching away from a runnable thread is a preemption
				}
				if cost <= bound {
					for alt := 1; alt < p.enabled; alt++ {
						np := make([]int, i+1)
						for j := 0; j < i; j++ {
							np[j] = e.points[j].chosen
						}
						np[i] = alt
						rec(np)
					}
				}
			}
			if p.runningEnabled && p.chosen != 0 {
				pre++
			}
		}
	}
	rec(nil)
	return st
}
