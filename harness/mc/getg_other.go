//go:build !amd64

package mc

func goroutineIdentity() uintptr { return uintptr(curGID()) }
