package mc

import "fmt"

// E3 — environment-deviation explorer (stateless DFS over choice vectors).
//
// The code under test talks to a scripted environment. At every choice point
// the environment asks Env.Choose(n): alternative 0 is the benign default, any
// other alternative is a deviation. An execution replays a prefix of recorded
// choices and takes the default afterwards; the explorer then branches on every
// later point whose deviation count stays within the bound.

type Env struct {
	prefix  []int
	Choices []int // alternatives taken, one per choice point
	Widths  []int // number of alternatives offered at each point
}

func NewEnv(prefix []int) *Env { return &Env{prefix: prefix} }

// Choose returns the alternative to take at this point.
func (e *Env) Choose(n int) int {
	if n < 1 {
		panic("mc: choice point without alternatives")
	}
	i := len(e.Choices)
	c := 0
	if i < len(e.prefix) {
		c = e.prefix[i]
		if c >= n {
			// determinism check: the same prefix must meet the same choice points
			panic(fmt.Sprintf("mc: replay divergence at choice point %d: recorded alternative %d, only %d offered", i, c, n))
		}
	}
	e.Choices = append(e.Choices, c)
	e.Widths = append(e.Widths, n)
	return c
}

// Deviations counts the non-default choices taken.
func (e *Env) Deviations() int {
	d := 0
	for _, c := range e.Choices {
		if c != 0 {
			d++
		}
	}
	return d
}

// DevStats is what one exploration covered.
type DevStats struct {
	Executions int64 // complete executions = nodes of the choice tree visited
	Points     int64 // environment answers given (choice points executed)
	MaxPoints  int
	PerBound   []int64 // executions with exactly k deviations
}

// ExploreDev enumerates every choice vector with at most bound deviations.
// run must be deterministic given the Env; it is called once per execution and
// judges the execution itself.
func ExploreDev(bound int, run func(e *Env)) DevStats {
	st := DevStats{PerBound: make([]int64, bound+1)}
	var rec func(prefix []int, devs int)
	rec = func(prefix []int, devs int) {
		e := NewEnv(prefix)
		run(e)
		if len(e.Choices) < len(prefix) {
			panic(fmt.Sprintf("mc: replay divergence: execution met %d choice points, the recorded prefix has %d", len(e.Choices), len(prefix)))
		}
		st.Executions++
		st.Points += int64(len(e.Choices))
		if len(e.Choices) > st.MaxPoints {
			st.MaxPoints = len(e.Choices)
		}
		st.PerBound[devs]++
		if devs == bound {
			return
		}
		for i := len(prefix); i < len(e.Choices); i++ {
			for alt := 1; alt < e.Widths[i]; alt++ {
				np := make([]int, i+1)
				copy(np, e.Choices[:i])
				np[i] = alt
				rec(np, devs+1)
			}
		}
	}
	rec(nil, 0)
	return st
}
