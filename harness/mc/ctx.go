// Package mc holds the engine-independent part of the checker: run context,
// counters, violation bookkeeping, evidence and replay files.
package mc

import (
	"encoding/json"
	"fmt"
	"os"
	"runtime"
	"sort"
	"sync"
	"sync/atomic"
	"time"
)

// Property is one registered check.
type Property struct {
	ID    string
	Level string // exploration | fault_enumeration | model_checking
	// Run enumerates the declared space and reports mismatches through Ctx.Fail.
	Run func(c *Ctx)
	// Judge re-executes exactly one case (as written to a replay file) on the
	// implementation and returns what it observed and what the reference says.
	Judge func(kind string, raw json.RawMessage) (got, want string, err error)
	// Rule describes the enumeration and what makes a case non-trivial.
	Rule string
	// Word32: the quick tier of this check is run once more as a GOARCH=386 binary
	// (32-bit int/uint/uintptr), when check.sh provides one: the build
	// configuration is one more axis of the enumerated space.
	Word32 bool
	// DebugTag: likewise once more as a binary built with -tags debug (the library's
	// openacid/must contracts compiled in), when check.sh provides one.
	DebugTag bool
	// Assumptions trusted by the check.
	Assumptions []string
}

var registry = map[string]*Property{}

func Register(p *Property) { registry[p.ID] = p }

func Lookup(id string) *Property { return registry[id] }

func IDs() []string {
	var ids []string
	for id := range registry {
		ids = append(ids, id)
	}
	sort.Strings(ids)
	return ids
}

// Viol is one recorded mismatch.
type Viol struct {
	Order int64           // position in the canonical enumeration order
	Kind  string          // sub-check name understood by Judge
	Class string          // canonical class key, matched against known findings
	Case  json.RawMessage // the literal case
	Got   string
	Want  string
}

// Ctx is handed to Property.Run.
type Ctx struct {
	// updated atomically: kept first so that they are 64-bit aligned on 32-bit builds too
	evals    int64
	nontriv  int64
	expected int64
	nviol    int64
	nsample  int64

	Prop     string
	Tier     string
	Thorough bool
	Seed     int64
	Start    time.Time
	Deadline time.Time

	mu      sync.Mutex
	viols   []Viol
	samples []interface{}
	cov     map[string]interface{}
	ints    map[string]*int64
	caps    []string
	notes   []string
	expOff  bool

	// Known holds the class keys of open known findings: only the first mismatch
	// of such a class is kept, so that it cannot crowd out other violations.
	Known     map[string]bool
	knownSeen map[string]bool
}

const (
	maxViolKept     = 64
	maxViolPerClass = 8
	maxViolTotal    = 1024
)

func NewCtx(prop, tier string, seed int64, budget time.Duration) *Ctx {
	now := time.Now()
	return &Ctx{
		Prop: prop, Tier: tier, Thorough: tier == "thorough", Seed: seed,
		Start: now, Deadline: now.Add(budget),
		cov:  map[string]interface{}{},
		ints: map[string]*int64{},
	}
}

// Pick returns q in the quick tier and t in the thorough tier.
func (c *Ctx) Pick(q, t int) int {
	if c.Thorough {
		return t
	}
	return q
}

// Count adds executed cases and how many of them were non-trivial.
func (c *Ctx) Count(evals, nontrivial int64) {
	atomic.AddInt64(&c.evals, evals)
	atomic.AddInt64(&c.nontriv, nontrivial)
}

// Expect adds the closed-form cardinality of a declared sub-space; the total is
// compared with the number of evaluations at the end of the run.
func (c *Ctx) Expect(n int64) { atomic.AddInt64(&c.expected, n) }

// NoExpect switches the cardinality comparison off (spaces with no closed form:
// reachable-state searches); the evidence says so.
func (c *Ctx) NoExpect() { c.expOff = true }

// NoExpectNote records why a sub-space has no closed-form cardinality; the
// property then feeds Expect with counted numbers for that part.
func (c *Ctx) NoExpectNote(s string) { c.Note("cardinality: " + s) }

// Add accumulates a named integer coverage counter.
func (c *Ctx) Add(key string, d int64) {
	c.mu.Lock()
	p := c.ints[key]
	if p == nil {
		p = new(int64)
		c.ints[key] = p
	}
	c.mu.Unlock()
	atomic.AddInt64(p, d)
}

// Max keeps the maximum of a named integer coverage counter.
func (c *Ctx) Max(key string, v int64) {
	c.mu.Lock()
	p := c.ints[key]
	if p == nil {
		p = new(int64)
		c.ints[key] = p
	}
	if *p < v {
		*p = v
	}
	c.mu.Unlock()
}

func (c *Ctx) Int(key string) int64 {
	c.mu.Lock()
	defer c.mu.Unlock()
	if p := c.ints[key]; p != nil {
		return atomic.LoadInt64(p)
	}
	return 0
}

// Set stores an arbitrary coverage value.
func (c *Ctx) Set(key string, v interface{}) {
	c.mu.Lock()
	c.cov[key] = v
	c.mu.Unlock()
}

// Cap records that a bound or time cap was hit; the run is then not exhaustive.
func (c *Ctx) Cap(what string) {
	c.mu.Lock()
	for _, x := range c.caps {
		if x == what {
			c.mu.Unlock()
			return
		}
	}
	c.caps = append(c.caps, what)
	c.mu.Unlock()
}

func (c *Ctx) Note(s string) {
	c.mu.Lock()
	c.notes = append(c.notes, s)
	c.mu.Unlock()
}

// Expired reports whether the internal time budget is used up.
func (c *Ctx) Expired() bool { return time.Now().After(c.Deadline) }

// Sample offers a case for the evidence file; a bounded number is kept, which
// ones depends on the seed only.
func (c *Ctx) Sample(v interface{}) {
	n := atomic.AddInt64(&c.nsample, 1)
	// keep offers number 1, and then those whose ordinal hits a seed-rotated stride
	if n > 1 && (n+c.Seed)%9973 != 0 {
		return
	}
	c.mu.Lock()
	if len(c.samples) < 12 {
		c.samples = append(c.samples, v)
	}
	c.mu.Unlock()
}

// WantSample is a cheap pre-test so hot loops do not build sample values.
func (c *Ctx) WantSample(ordinal int64) bool {
	return ordinal == 0 || (ordinal+c.Seed)%99991 == 0
}

// ForceSample stores a sample unconditionally (bounded).
func (c *Ctx) ForceSample(v interface{}) {
	c.mu.Lock()
	if len(c.samples) < 12 {
		c.samples = append(c.samples, v)
	}
	c.mu.Unlock()
}

// Fail records a mismatch. order is the case's position in the canonical
// enumeration order (smaller = simpler); class is the canonical class key.
func (c *Ctx) Fail(order int64, kind, class string, cs interface{}, got, want string) {
	if n := atomic.AddInt64(&c.nviol, 1); n > 3000 && !c.Known[class] {
		// a badly broken tree: enough cases are kept already; later ones are only counted
		// (encoding millions of cases would take minutes)
		return
	}
	raw, err := json.Marshal(cs)
	if err != nil {
		panic(fmt.Sprintf("mc: cannot encode case: %v", err))
	}
	c.mu.Lock()
	defer c.mu.Unlock()
	if c.Known[class] {
		if c.knownSeen[class] {
			return
		}
		if c.knownSeen == nil {
			c.knownSeen = map[string]bool{}
		}
		c.knownSeen[class] = true
		order = -1 // never trimmed away
	}
	// keep the maxViolKept smallest orders
	c.viols = append(c.viols, Viol{order, kind, class, raw, got, want})
	if len(c.viols) > 4*maxViolTotal {
		c.trim()
	}
}

// trim keeps the maxViolKept smallest orders overall and, beyond them, the maxViolPerClass smallest
// orders of every class (so that a class whose mismatches all turn out to be history-dependent cannot
// crowd out a class that reproduces), at most maxViolTotal in all.
func (c *Ctx) trim() {
	sort.SliceStable(c.viols, func(i, j int) bool { return c.viols[i].Order < c.viols[j].Order })
	if len(c.viols) <= maxViolKept {
		return
	}
	perClass := map[string]int{}
	kept := c.viols[:0]
	for i, v := range c.viols {
		perClass[v.Class]++
		if (i < maxViolKept || perClass[v.Class] <= maxViolPerClass) && len(kept) < maxViolTotal {
			kept = append(kept, v)
		}
	}
	c.viols = kept
}

// Failed reports how many mismatches have been recorded so far.
func (c *Ctx) Failed() int64 { return atomic.LoadInt64(&c.nviol) }

// TooMany lets long enumerations stop early on a badly broken tree.
func (c *Ctx) TooMany() bool { return atomic.LoadInt64(&c.nviol) > 2000 }

// Par runs f(0..n-1) on all cores. Shards only partition the space.
func (c *Ctx) Par(n int, f func(i int)) {
	workers := runtime.GOMAXPROCS(0)
	if workers > n {
		workers = n
	}
	var next int64 = -1
	var wg sync.WaitGroup
	for w := 0; w < workers; w++ {
		wg.Add(1)
		go func() {
			defer wg.Done()
			for {
				i := int(atomic.AddInt64(&next, 1))
				if i >= n {
					return
				}
				f(i)
			}
		}()
	}
	wg.Wait()
}

// Evidence is the on-disk record of a run.
type Evidence struct {
	PropertyID  string                 `json:"property_id"`
	Tier        string                 `json:"tier"`
	Seed        int64                  `json:"seed"`
	Level       string                 `json:"level"`
	Coverage    map[string]interface{} `json:"coverage"`
	Assumptions []string               `json:"assumptions"`
	WallS       float64                `json:"wall_s"`
	Violations  int                    `json:"violations"`
}

// Finish writes the evidence file and returns the violations sorted by order.
func (c *Ctx) Finish(p *Property, path string, reported, known int) error {
	c.mu.Lock()
	defer c.mu.Unlock()
	cov := map[string]interface{}{}
	for k, v := range c.cov {
		cov[k] = v
	}
	for k, v := range c.ints {
		cov[k] = atomic.LoadInt64(v)
	}
	ev := atomic.LoadInt64(&c.evals)
	cov["evaluations"] = ev
	cov["distinct_nontrivial"] = atomic.LoadInt64(&c.nontriv)
	cov["rule"] = p.Rule
	exhaustive := len(c.caps) == 0
	if !c.expOff {
		exp := atomic.LoadInt64(&c.expected)
		cov["expected_cardinality"] = exp
		if exp != ev {
			exhaustive = false
			cov["cardinality_mismatch"] = fmt.Sprintf("enumerated %d cases, the declared space has %d", ev, exp)
		}
	} else {
		cov["expected_cardinality"] = "none: the space is a reachable-state set / choice tree with no closed form; its size is whatever the search found"
	}
	cov["exhaustive"] = exhaustive
	if len(c.caps) > 0 {
		cov["caps_hit"] = c.caps
	}
	if len(c.notes) > 0 {
		cov["notes"] = c.notes
	}
	smp := c.samples
	if len(smp) == 0 {
		smp = []interface{}{}
	}
	cov["samples"] = smp
	cov["mismatches_seen"] = atomic.LoadInt64(&c.nviol)
	cov["known_findings_matched"] = known
	e := Evidence{
		PropertyID: c.Prop, Tier: c.Tier, Seed: c.Seed, Level: p.Level,
		Coverage: cov, Assumptions: p.Assumptions,
		WallS: time.Since(c.Start).Seconds(), Violations: reported,
	}
	if e.Assumptions == nil {
		e.Assumptions = []string{}
	}
	b, err := json.MarshalIndent(e, "", " ")
	if err != nil {
		return err
	}
	return os.WriteFile(path, append(b, '\n'), 0644)
}

// Violations returns the recorded mismatches, simplest first.
func (c *Ctx) Violations() []Viol {
	c.mu.Lock()
	defer c.mu.Unlock()
	c.trim()
	return append([]Viol(nil), c.viols...)
}

// Totals returns evaluations, non-trivial cases and the expected cardinality.
func (c *Ctx) Totals() (evals, nontriv, expected int64) {
	return atomic.LoadInt64(&c.evals), atomic.LoadInt64(&c.nontriv), atomic.LoadInt64(&c.expected)
}

// Exhaustive tells whether no cap was hit so far.
func (c *Ctx) Exhaustive() bool {
	c.mu.Lock()
	defer c.mu.Unlock()
	return len(c.caps) == 0
}

// JudgeOf adapts a typed single-case judge to the registry signature.
func JudgeOf[T any](f func(kind string, cs T) (got, want string)) func(string, json.RawMessage) (string, string, error) {
	return func(kind string, raw json.RawMessage) (string, string, error) {
		var cs T
		if err := json.Unmarshal(raw, &cs); err != nil {
			return "", "", err
		}
		g, w := f(kind, cs)
		return g, w, nil
	}
}
