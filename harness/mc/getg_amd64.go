package mc

// getg returns the runtime's g pointer of the calling goroutine (getg_amd64.s).
// It is used only as an opaque identity: two calls return the same value exactly
// when they are made by the same goroutine.
func getg() uintptr

func goroutineIdentity() uintptr { return getg() }
