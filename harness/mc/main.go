package mc

import (
	"bufio"
	"crypto/sha1"
	"encoding/json"
	"fmt"
	"io"
	"os"
	"os/exec"
	"path/filepath"
	"runtime"
	"sort"
	"strings"
	"sync"
	"time"
)

// Replay is the on-disk form of one violating case.
type Replay struct {
	Property string          `json:"property"`
	Kind     string          `json:"kind"`
	Class    string          `json:"class"`
	Case     json.RawMessage `json:"case"`
	Got      string          `json:"got"`
	Want     string          `json:"want"`
	Tier     string          `json:"tier"`
	How      []string        `json:"how_to_replay"`
}

// known findings -------------------------------------------------------------

type knownFinding struct {
	prop, class, text string
}

func loadKnown(path string) (open []knownFinding) {
	f, err := os.Open(path)
	if err != nil {
		return nil
	}
	defer f.Close()
	sc := bufio.NewScanner(f)
	for sc.Scan() {
		line := strings.TrimSpace(sc.Text())
		if !strings.HasPrefix(line, "open:") {
			continue // "fixed:" lines and comments suppress nothing
		}
		fs := strings.Fields(strings.TrimPrefix(line, "open:"))
		var k knownFinding
		var rest []string
		for _, w := range fs {
			switch {
			case strings.HasPrefix(w, "property=") && k.prop == "":
				k.prop = strings.TrimPrefix(w, "property=")
			case strings.HasPrefix(w, "case=") && k.class == "":
				k.class = strings.TrimPrefix(w, "case=")
			default:
				rest = append(rest, w)
			}
		}
		k.text = strings.Join(rest, " ")
		if k.prop != "" && k.class != "" {
			open = append(open, k)
		}
	}
	return open
}

// workers -------------------------------------------------------------------

var workers = map[string]func(args []string) int{}

// RegisterWorker registers a task that a check runs in a child process of the
// same binary (memory-limited, killable).
func RegisterWorker(name string, f func(args []string) int) { workers[name] = f }

func RunWorker(name string, args []string) int {
	f := workers[name]
	if f == nil {
		fmt.Fprintf(os.Stderr, "vcheck: unknown worker %q\n", name)
		return 2
	}
	return f(args)
}

// Main runs one property check. Exit codes: 0 held / only known findings,
// 1 violation, 2 internal error of the machinery.
func Main(id, tier string, seed int64, budget time.Duration, root, out string) int {
	p := Lookup(id)
	if p == nil {
		fmt.Fprintf(os.Stderr, "vcheck: unknown property %q (have %v)\n", id, IDs())
		return 2
	}
	for _, d := range []string{"evidence", "replays"} {
		os.MkdirAll(filepath.Join(out, d), 0755)
	}
	evPath := filepath.Join(out, "evidence", id+".json")
	os.Remove(evPath)

	c := NewCtx(id, tier, seed, budget)
	open := loadKnown(filepath.Join(root, "known_findings.txt"))
	c.Known = map[string]bool{}
	for _, k := range open {
		if k.prop == id {
			c.Known[k.class] = true
		}
	}
	func() {
		defer func() {
			if r := recover(); r != nil {
				// a panic that escapes a property's own guards is a bug of the harness
				fmt.Fprintf(os.Stderr, "vcheck: internal error in %s: %v\n", id, r)
				panic(r)
			}
		}()
		p.Run(c)
	}()

	viols := c.Violations()
	reported, knownHit := 0, 0
	seenKnown := map[string]bool{}
	seenClass := map[string]int{}
	internal := false
	seenCase := map[string]bool{}
	var unrepro []Viol
	for _, v := range viols {
		if ck := v.Kind + "\x00" + string(v.Case); seenCase[ck] {
			continue
		} else {
			seenCase[ck] = true
		}
		if !c.Known[v.Class] && (seenClass[v.Class] >= 2 || reported >= 6) {
			continue // a few per class are enough (all are counted in the evidence); judging can be slow
		}
		// reproduce through the replay path before believing it
		ok := true
		var got, want string
		for k := 0; k < 5; k++ {
			g, w, err := p.Judge(v.Kind, v.Case)
			if err != nil {
				fmt.Fprintf(os.Stderr, "vcheck: internal error: cannot re-judge %s case %s: %v\n", v.Kind, v.Case, err)
				internal = true
				ok = false
				break
			}
			if g == w || (k > 0 && (g != got || w != want)) {
				// The mismatch was observed during the run (against the real code) but the same
				// case judged in isolation behaves differently: the behaviour depends on the call
				// history (state the code carries between calls), or on a case that ran before it.
				// It is kept aside: reported only if nothing reproducible is found.
				fmt.Fprintf(os.Stderr, "vcheck: note: %s case %s does not reproduce in isolation (run: got=%s want=%s; alone: got=%s)\n", v.Kind, clip(string(v.Case), 200), clip(v.Got, 120), clip(v.Want, 120), clip(g, 120))
				unrepro = append(unrepro, v)
				ok = false
				break
			}
			got, want = g, w
		}
		if !ok {
			continue
		}
		matched := false
		for _, k := range open {
			if k.prop == id && k.class == v.Class {
				matched = true
				if !seenKnown[k.class] {
					seenKnown[k.class] = true
					knownHit++
					fmt.Printf("KNOWN-FINDING: property=%s %s (case=%s)\n", id, k.text, k.class)
				}
			}
		}
		if matched {
			continue
		}
		seenClass[v.Class]++
		if seenClass[v.Class] > 2 || reported >= 6 {
			continue // a few per class are enough; all are counted in the evidence
		}
		sum := sha1.Sum(append([]byte(v.Kind+"\x00"), v.Case...))
		path := filepath.Join(out, "replays", fmt.Sprintf("%s-%x.json", id, sum[:6]))
		r := Replay{Property: id, Kind: v.Kind, Class: v.Class, Case: v.Case, Got: got, Want: want, Tier: tier,
			How: []string{
				"/verif/check.sh replay " + path,
				"cd /verif/harness && VERIF_REPLAY=" + path + " go test -count=1 -run TestReplay ./replaytest/",
			}}
		b, _ := json.MarshalIndent(r, "", " ")
		if err := os.WriteFile(path, append(b, '\n'), 0644); err != nil {
			fmt.Fprintf(os.Stderr, "vcheck: cannot write replay file: %v\n", err)
			internal = true
			continue
		}
		reported++
		fmt.Printf("VIOLATION property=%s replay=%s\n", id, path)
		fmt.Printf("  %s %s\n  got:  %s\n  want: %s\n", v.Kind, clip(string(v.Case), 400), clip(got, 400), clip(want, 400))
	}
	if reported == 0 && len(unrepro) > 0 && !internal {
		// Only history-dependent mismatches were seen. They are facts about the code (the oracle
		// judged a real call), so they are reported; the replay of such a finding is the run itself.
		v := unrepro[0]
		path := filepath.Join(out, "replays", fmt.Sprintf("%s-history-%s.json", id, tier))
		r := map[string]interface{}{"property": id, "kind": "process", "class": "history", "tier": tier,
			"case": map[string]interface{}{"command": "/verif/check.sh " + id + " " + tier, "observed_kind": v.Kind, "observed_case": json.RawMessage(v.Case)},
			"got":  "during the run: " + v.Got + " - but the same case judged alone passes: the result depends on the call history",
			"want": v.Want, "unreproduced_mismatches": len(unrepro),
			"how_to_replay": []string{"/verif/check.sh replay " + path + "   (re-runs the whole check)"}}
		b, _ := json.MarshalIndent(r, "", " ")
		if err := os.WriteFile(path, append(b, '\n'), 0644); err == nil {
			reported++
			fmt.Printf("VIOLATION property=%s replay=%s\n", id, path)
			fmt.Printf("  %s %s\n  during the run got: %s\n  want: %s\n  (judged alone the case passes: history-dependent behaviour; %d such mismatches)\n", v.Kind, clip(string(v.Case), 300), clip(v.Got, 300), clip(v.Want, 300), len(unrepro))
		}
	}
	c.Set("mismatches_not_reproducible_in_isolation", len(unrepro))
	if Variant() == "" {
		// the variant passes run side by side (each is a process of its own)
		var vwg sync.WaitGroup
		var vmu sync.Mutex
		addReported := func(n int) { vmu.Lock(); reported += n; vmu.Unlock() }
		if p.Word32 && runtime.GOARCH != "386" {
			vwg.Add(1)
			go func() {
				defer vwg.Done()
				addReported(variantPass(c, id, root, out, variantSpec{
					key: "goarch_386", variant: "goarch-386", binEnv: "VERIF_386_BIN", errEnv: "VERIF_386_ERR",
					what:  "quick tier of this check re-run as a GOARCH=386 binary (32-bit int, uint, uintptr)",
					label: "on GOARCH=386 (32-bit int/uint)",
					mark:  "goarch", markVal: "386", suffix: "386",
					goTest: "GOARCH=386 CGO_ENABLED=0 ",
				}))
			}()
		}
		if p.DebugTag {
			vwg.Add(1)
			go func() {
				defer vwg.Done()
				addReported(variantPass(c, id, root, out, variantSpec{
					key: "tags_debug", variant: "tags-debug", binEnv: "VERIF_TAGDEBUG_BIN", errEnv: "VERIF_TAGDEBUG_ERR",
					what:  "quick tier of this check re-run as a binary built with -tags debug (the library's openacid/must contracts compiled in)",
					label: "in the -tags debug build",
					mark:  "build_tags", markVal: "debug", suffix: "debug",
					goTestTags: "-tags debug ",
				}))
			}()
		}
		// build configurations the tree itself distinguishes (check.sh: discover_cfgs / cmd/vconfigs)
		for _, ent := range strings.Split(os.Getenv("VERIF_CFG_LIST"), ";") {
			f := strings.Split(ent, "|")
			if len(f) != 4 || f[0] == "" {
				continue
			}
			name, bin, env, tags := f[0], f[1], f[2], f[3]
			vwg.Add(1)
			go func() {
				defer vwg.Done()
				goTest, goTags := "", ""
				if env != "" {
					goTest = env + " "
				}
				if tags != "" {
					goTags = "-tags " + tags + " "
				}
				addReported(variantPass(c, id, root, out, variantSpec{
					key: "config_" + name, variant: "config-" + name, bin: bin,
					what:  "quick tier of this check re-run as a binary of a build configuration the working tree distinguishes (a file the default build ignores is compiled in): " + strings.TrimSpace(env+" "+goTags),
					label: "in the build configuration " + name,
					mark:  "build_config", markObj: map[string]string{"name": name, "env": env, "tags": tags}, suffix: "cfg-" + name,
					goTest: goTest, goTestTags: goTags,
				}))
			}()
		}
		if n := os.Getenv("VERIF_CFG_NOTES"); n != "" {
			c.Set("build_configurations_not_run", n)
		}
		vwg.Wait()
	}
	if err := c.Finish(p, evPath, reported, knownHit); err != nil {
		fmt.Fprintf(os.Stderr, "vcheck: cannot write evidence: %v\n", err)
		return 2
	}
	fmt.Printf("%s %s: evaluations=%d nontrivial=%d mismatches=%d reported=%d known=%d exhaustive=%v wall=%.1fs\n",
		id, tier, c.evals, c.nontriv, c.nviol, reported, knownHit, c.Exhaustive() && (c.expOff || c.expected == c.evals), time.Since(c.Start).Seconds())
	if reported > 0 {
		return 1
	}
	if internal {
		return 2
	}
	return 0
}

// Variant names the build configuration this process was started for by a variant pass of its
// parent ("" in an ordinary run, "goarch-386", "tags-debug"): a check may reduce its space for a
// configuration that is much slower.
func Variant() string { return os.Getenv("VERIF_VARIANT") }

var printMu sync.Mutex

type variantSpec struct {
	bin                          string            // the binary itself (discovered configurations), else taken from binEnv
	markObj                      map[string]string // value of the mark when it is an object
	key, variant, binEnv, errEnv string
	what, label                  string
	mark, markVal, suffix        string
	goTest, goTestTags           string
}

// variantPass runs the quick tier of the same check as a binary built by check.sh from the
// same sources in ANOTHER BUILD CONFIGURATION (32-bit GOARCH=386; -tags debug), and folds what
// it covered and what it found into this run. It returns the number of violations reported.
// When the binary is not available the pass is skipped and the evidence says so.
func variantPass(c *Ctx, id, root, out string, v variantSpec) int {
	bin := v.bin
	if bin == "" {
		bin = os.Getenv(v.binEnv)
	}
	if bin == "" {
		why := os.Getenv(v.errEnv)
		if why == "" {
			why = "no binary provided (" + v.binEnv + " unset)"
		}
		c.Set(v.key+"_pass", "not run: "+why)
		return 0
	}
	tmp, err := os.MkdirTemp(out, ".variant-"+v.suffix+"-"+id+"-")
	if err != nil {
		c.Set(v.key+"_pass", "not run: "+err.Error())
		return 0
	}
	defer os.RemoveAll(tmp)
	cmd := exec.Command(bin, "-prop", id, "-tier", "quick", "-root", root, "-out", tmp)
	var env []string
	for _, e := range os.Environ() {
		// helper binaries of the main run are not handed down
		if strings.HasPrefix(e, "VERIF_386_BIN=") || strings.HasPrefix(e, "VERIF_TAGDEBUG_BIN=") || strings.HasPrefix(e, "VERIF_DEBUG_BIN=") || strings.HasPrefix(e, "VERIF_SCHED_BIN=") || strings.HasPrefix(e, "VERIF_RACE_BIN=") || strings.HasPrefix(e, "VERIF_VARIANT=") || strings.HasPrefix(e, "VERIF_CFG_LIST=") || strings.HasPrefix(e, "VERIF_CFG_NOTES=") {
			continue
		}
		env = append(env, e)
	}
	cmd.Env = append(env, "VERIF_VARIANT="+v.variant)
	t0 := time.Now()
	outb, runErr := cmd.CombinedOutput()
	code := 0
	if runErr != nil {
		code = -1
		if ee, ok := runErr.(*exec.ExitError); ok {
			code = ee.ExitCode()
		}
	}
	var ev Evidence
	if b, err := os.ReadFile(filepath.Join(tmp, "evidence", id+".json")); err == nil {
		json.Unmarshal(b, &ev)
	}
	if code != 0 && code != 1 || ev.PropertyID != id {
		// the variant run itself broke (an internal error of the harness, a crash): say so, loudly,
		// but do not turn it into a verdict about the library
		fmt.Fprintf(os.Stderr, "vcheck: the %s pass of %s did not complete (exit %d): %s\n", v.variant, id, code, clip(string(outb), 2000))
		c.Set(v.key+"_pass", fmt.Sprintf("did not complete (exit %d): %s", code, clip(string(outb), 300)))
		c.Cap("the " + v.variant + " pass did not complete")
		return 0
	}
	c.Set(v.key+"_pass", v.what)
	for _, k := range []string{"evaluations", "distinct_nontrivial", "exhaustive", "mismatches_seen", "domain"} {
		if x, ok := ev.Coverage[k]; ok {
			c.Set(v.key+"_"+k, x)
		}
	}
	c.Set(v.key+"_wall_s", time.Since(t0).Seconds())
	// violations: re-home the replay files, marked with the build configuration they need
	files, _ := filepath.Glob(filepath.Join(tmp, "replays", "*.json"))
	sort.Strings(files)
	n := 0
	for _, f := range files {
		b, err := os.ReadFile(f)
		if err != nil {
			continue
		}
		var m map[string]interface{}
		if json.Unmarshal(b, &m) != nil {
			continue
		}
		dst := filepath.Join(out, "replays", strings.TrimSuffix(filepath.Base(f), ".json")+"-"+v.suffix+".json")
		if v.markObj != nil {
			m[v.mark] = v.markObj
		} else {
			m[v.mark] = v.markVal
		}
		m["how_to_replay"] = []string{
			"/verif/check.sh replay " + dst + "   (builds the binary of that configuration)",
			"cd /verif/harness && " + v.goTest + "VERIF_REPLAY=" + dst + " go test " + v.goTestTags + "-count=1 -run TestReplay ./replaytest/",
		}
		nb, _ := json.MarshalIndent(m, "", " ")
		if os.WriteFile(dst, append(nb, '\n'), 0644) != nil {
			continue
		}
		n++
		printMu.Lock()
		fmt.Printf("VIOLATION property=%s replay=%s\n", id, dst)
		fmt.Printf("  %s: %v %s\n  got:  %s\n  want: %s\n", v.label, m["kind"], clip(fmt.Sprint(string(mustJSON(m["case"]))), 400), clip(fmt.Sprint(m["got"]), 400), clip(fmt.Sprint(m["want"]), 400))
		printMu.Unlock()
	}
	if code == 1 && n == 0 {
		fmt.Fprintf(os.Stderr, "vcheck: the %s pass of %s reported a violation but left no replay file: %s\n", v.variant, id, clip(string(outb), 2000))
		c.Cap("the " + v.variant + " pass reported a violation without a replay file")
	}
	// known findings matched by the variant run are printed by it
	for _, l := range strings.Split(string(outb), "\n") {
		if strings.HasPrefix(l, "KNOWN-FINDING:") {
			fmt.Println(l + " [" + v.variant + "]")
		}
	}
	return n
}

func mustJSON(v interface{}) []byte {
	b, _ := json.Marshal(v)
	return b
}

func clip(s string, n int) string {
	if len(s) > n {
		return s[:n] + "…"
	}
	return s
}

// ReplayFile re-executes the case of one replay file, without any explorer.
// Exit 1 when the violation reproduces, 0 when the case now passes.
func ReplayFile(path string, out io.Writer) int {
	b, err := os.ReadFile(path)
	if err != nil {
		fmt.Fprintln(os.Stderr, "vcheck:", err)
		return 2
	}
	var r Replay
	if err := json.Unmarshal(b, &r); err != nil {
		fmt.Fprintln(os.Stderr, "vcheck:", err)
		return 2
	}
	p := Lookup(r.Property)
	if p == nil {
		fmt.Fprintf(os.Stderr, "vcheck: unknown property %q\n", r.Property)
		return 2
	}
	got, want, err := p.Judge(r.Kind, r.Case)
	if err != nil {
		fmt.Fprintln(os.Stderr, "vcheck:", err)
		return 2
	}
	fmt.Fprintf(out, "property=%s kind=%s\ncase=%s\ngot:  %s\nwant: %s\n", r.Property, r.Kind, r.Case, got, want)
	if got != want {
		fmt.Fprintf(out, "VIOLATION property=%s replay=%s\n", r.Property, path)
		return 1
	}
	fmt.Fprintln(out, "case passes on this tree")
	return 0
}
