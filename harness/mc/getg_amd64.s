#include "textflag.h"

// func getg() uintptr
// The g pointer of the calling goroutine: a cheap, stable identity.
TEXT ·getg(SB),NOSPLIT,$0-8
	MOVQ (TLS), AX
	MOVQ AX, ret+0(FP)
	RET
