// Package replaytest replays one recorded violation as a plain unit test,
// without any explorer:
//
//	cd /verif/harness && VERIF_REPLAY=/verif/replays/<file>.json go test -count=1 -run TestReplay ./replaytest/
//
// The test FAILS while the recorded case still violates its property on the
// tree under /repo and passes once it no longer does. (Cases of C03's debug
// configuration and C19's instrumented/race passes need specially built
// binaries: use /verif/check.sh replay <file> for those.)
package replaytest

import (
	"encoding/json"
	"os"
	"testing"

	"verif/mc"
	_ "verif/props"
)

func TestReplay(t *testing.T) {
	path := os.Getenv("VERIF_REPLAY")
	if path == "" {
		t.Skip("VERIF_REPLAY not set")
	}
	b, err := os.ReadFile(path)
	if err != nil {
		t.Fatal(err)
	}
	var r mc.Replay
	if err := json.Unmarshal(b, &r); err != nil {
		t.Fatal(err)
	}
	p := mc.Lookup(r.Property)
	if p == nil {
		t.Fatalf("unknown property %q", r.Property)
	}
	got, want, err := p.Judge(r.Kind, r.Case)
	if err != nil {
		t.Fatal(err)
	}
	t.Logf("property %s, %s case %s", r.Property, r.Kind, r.Case)
	if got != want {
		t.Fatalf("violation reproduces\n got:  %s\n want: %s", got, want)
	}
}
