package gen

// BMSpace is the bitmap space B(MaxCore, 0) ∪ B1(MaxWide): every bitmap of
// 0..MaxCore words over Core, plus every bitmap of 1..MaxWide words in which
// exactly one word comes from Wide (Wide ∩ Core = ∅, so the union is disjoint)
// and the others from Core.
type BMSpace struct {
	MaxCore int
	MaxWide int
}

// BMShard is an independently enumerable part of a BMSpace.
type BMShard struct {
	Len     int
	Prefix  []uint64 // fixed leading words (core shards)
	WidePos int      // -1 for core-only shards
	WideIx  int
}

func (s BMSpace) Card() int64 {
	n := SeqCount(len(Core), s.MaxCore)
	for l := 1; l <= s.MaxWide; l++ {
		n += int64(l) * int64(len(Wide)) * PowInt(len(Core), l-1)
	}
	return n
}

// Shards lists the parts in simplest-first order.
func (s BMSpace) Shards() []BMShard {
	var out []BMShard
	for l := 0; l <= s.MaxCore; l++ {
		switch {
		case l < 3:
			out = append(out, BMShard{Len: l, WidePos: -1})
		default:
			for _, a := range Core {
				for _, b := range Core {
					out = append(out, BMShard{Len: l, Prefix: []uint64{a, b}, WidePos: -1})
				}
			}
		}
	}
	for l := 1; l <= s.MaxWide; l++ {
		for p := 0; p < l; p++ {
			for wi := range Wide {
				out = append(out, BMShard{Len: l, WidePos: p, WideIx: wi})
			}
		}
	}
	return out
}

// Each calls f with every bitmap of the shard; the slice is reused.
func (d BMShard) Each(f func(w []uint64)) {
	w := DirtyU64(make([]uint64, d.Len), 3) // 3 words of spare capacity holding a canary
	if d.WidePos < 0 {
		copy(w, d.Prefix)
		free := d.Len - len(d.Prefix)
		if free == 0 {
			f(w)
			return
		}
		Product(len(Core), free, func(ix []int) {
			for k, c := range ix {
				w[len(d.Prefix)+k] = Core[c]
			}
			f(w)
		})
		return
	}
	w[d.WidePos] = Wide[d.WideIx]
	free := d.Len - 1
	if free == 0 {
		f(w)
		return
	}
	Product(len(Core), free, func(ix []int) {
		k := 0
		for p := 0; p < d.Len; p++ {
			if p == d.WidePos {
				continue
			}
			w[p] = Core[ix[k]]
			k++
		}
		f(w)
	})
}

// SparseSpace is the long sparse bitmap family: bitmaps of exactly Len words
// that are zero everywhere except 0..MaxIslands non-zero words ("islands")
// drawn from Islands, at every combination of positions. It puts long runs of
// empty words (of every length up to Len-1) between 1-bits and varies the
// number of ones before an island modulo the 32-one select sampling.
type SparseSpace struct {
	Len        int
	MaxIslands int
}

// Islands is the island alphabet: popcounts 1, 1, 2, 31, 32, 33, 63, 64, 2, 44.
var Islands = []uint64{
	1, 1 << 63, 0b110, 0x7fffffff, 0xffffffff, 0x1ffffffff, ^uint64(0) >> 1, ^uint64(0), 0x8000000000000001, 0xdeadbeefcafebabe,
}

func binomial(n, k int) int64 {
	if k < 0 || k > n {
		return 0
	}
	r := int64(1)
	for i := 1; i <= k; i++ {
		r = r * int64(n-k+i) / int64(i)
	}
	return r
}

func (s SparseSpace) Card() int64 {
	var n int64
	for k := 0; k <= s.MaxIslands; k++ {
		n += binomial(s.Len, k) * PowInt(len(Islands), k)
	}
	return n
}

// OnesSum is Σ over all bitmaps of the space of their popcount (closed form).
func (s SparseSpace) OnesSum(pop func(uint64) int64) int64 {
	var sp int64
	for _, w := range Islands {
		sp += pop(w)
	}
	var n int64
	for k := 1; k <= s.MaxIslands; k++ {
		// each of the k islands contributes the average popcount: k · C(L,k) · |A|^(k-1) · Σpop
		n += int64(k) * binomial(s.Len, k) * PowInt(len(Islands), k-1) * sp
	}
	return n
}

// Shards: one per first-island position (plus one for the all-zero bitmap).
func (s SparseSpace) Shards() int { return s.Len + 1 }

// Each enumerates shard sh: sh == Len is the all-zero bitmap, otherwise all
// bitmaps whose first island sits at word sh.
func (s SparseSpace) Each(sh int, f func(w []uint64)) {
	w := DirtyU64(make([]uint64, s.Len), 3)
	if sh == s.Len {
		f(w)
		return
	}
	var rec func(start, left int)
	rec = func(start, left int) {
		f(w)
		if left == 0 {
			return
		}
		for p := start; p < s.Len; p++ {
			for _, isl := range Islands {
				w[p] = isl
				rec(p+1, left-1)
			}
			w[p] = 0
		}
	}
	if s.MaxIslands == 0 {
		return
	}
	for _, isl := range Islands {
		w[sh] = isl
		rec(sh+1, s.MaxIslands-1)
	}
}
