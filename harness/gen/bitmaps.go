package gen

// BMSpace is the bitmap space B(MaxCore, 0) ∪ B1(MaxWide): every bitmap of
// 0..MaxCore words over Core, plus every bitmap of 1..MaxWide words in which
// exactly one word comes from Wide (Wide ∩ Core = ∅, so the union is disjoint)
// and the others from Core.
type BMSpace struct {
	MaxCore int
	MaxWide int
}

// BMShard is an independently enumerable part of a BMSpace.
type BMShard struct {
	Len     int
	Prefix  []uint64 // fixed leading words (core shards)
	WidePos int      // -1 for core-only shards
	WideIx  int
}

func (s BMSpace) Card() int64 {
	n := SeqCount(len(Core), s.MaxCore)
	for l := 1; l <= s.MaxWide; l++ {
		n += int64(l) * int64(len(Wide)) * PowInt(len(Core), l-1)
	}
	return n
}

// Shards lists the parts in simplest-first order.
func (s BMSpace) Shards() []BMShard {
	var out []BMShard
	for l := 0; l <= s.MaxCore; l++ {
		switch {
		case l < 3:
			out = append(out, BMShard{Len: l, WidePos: -1})
		default:
			for _, a := range Core {
				for _, b := range Core {
					out = append(out, BMShard{Len: l, Prefix: []uint64{a, b}, WidePos: -1})
				}
			}
		}
	}
	for l := 1; l <= s.MaxWide; l++ {
		for p := 0; p < l; p++ {
			for wi := range Wide {
				out = append(out, BMShard{Len: l, WidePos: p, WideIx: wi})
			}
		}
	}
	return out
}

// Each calls f with every bitmap of the shard; the slice is reused.
func (d BMShard) Each(f func(w []uint64)) {
	w := make([]uint64, d.Len)
	if d.WidePos < 0 {
		copy(w, d.Prefix)
		free := d.Len - len(d.Prefix)
		if free == 0 {
			f(w)
			return
		}
		Product(len(Core), free, func(ix []int) {
			for k, c := range ix {
				w[len(d.Prefix)+k] = Core[c]
			}
			f(w)
		})
		return
	}
	w[d.WidePos] = Wide[d.WideIx]
	free := d.Len - 1
	if free == 0 {
		f(w)
		return
	}
	Product(len(Core), free, func(ix []int) {
		k := 0
		for p := 0; p < d.Len; p++ {
			if p == d.WidePos {
				continue
			}
			w[p] = Core[ix[k]]
			k++
		}
		f(w)
	})
}
