// Package gen declares the finite alphabets and product spaces the checks
// enumerate. Nothing here is random.
package gen

import (
	"encoding/json"
	"fmt"
	"sort"
	"strconv"
)

// Words is a bitmap that round-trips through JSON without losing bits.
type Words []uint64

func (w Words) MarshalJSON() ([]byte, error) {
	s := make([]string, len(w))
	for i, x := range w {
		s[i] = fmt.Sprintf("0x%016x", x)
	}
	return json.Marshal(s)
}

func (w *Words) UnmarshalJSON(b []byte) error {
	var s []string
	if err := json.Unmarshal(b, &s); err != nil {
		return err
	}
	*w = make([]uint64, len(s))
	for i, x := range s {
		v, err := strconv.ParseUint(x, 0, 64)
		if err != nil {
			return err
		}
		(*w)[i] = v
	}
	return nil
}

// U64 is a single uint64 that round-trips through JSON.
type U64 uint64

func (u U64) MarshalJSON() ([]byte, error) { return json.Marshal(fmt.Sprintf("0x%x", uint64(u))) }
func (u *U64) UnmarshalJSON(b []byte) error {
	var s string
	if err := json.Unmarshal(b, &s); err != nil {
		return err
	}
	v, err := strconv.ParseUint(s, 0, 64)
	*u = U64(v)
	return err
}

// Bytes is a byte string that round-trips through JSON as hex (Go strings with
// arbitrary bytes do not survive encoding/json).
type Bytes string

func (s Bytes) MarshalJSON() ([]byte, error) { return json.Marshal(fmt.Sprintf("%x", string(s))) }
func (s *Bytes) UnmarshalJSON(b []byte) error {
	var h string
	if err := json.Unmarshal(b, &h); err != nil {
		return err
	}
	if len(h)%2 != 0 {
		return fmt.Errorf("odd hex string")
	}
	out := make([]byte, len(h)/2)
	for i := range out {
		v, err := strconv.ParseUint(h[2*i:2*i+2], 16, 8)
		if err != nil {
			return err
		}
		out[i] = byte(v)
	}
	*s = Bytes(out)
	return nil
}

func BytesList(ss []string) []Bytes {
	r := make([]Bytes, len(ss))
	for i, s := range ss {
		r[i] = Bytes(s)
	}
	return r
}

func StringsOf(bs []Bytes) []string {
	r := make([]string, len(bs))
	for i, s := range bs {
		r[i] = string(s)
	}
	return r
}

// Core is the 12-word core alphabet: every popcount class and every
// half / quarter / byte boundary.
var Core = []uint64{
	0,
	^uint64(0),
	1,
	1 << 63,
	0xAAAAAAAAAAAAAAAA,
	0x5555555555555555,
	0x00000000ffffffff,
	0xffffffff00000000,
	0x8000000000000001,
	0x0101010101010101,
	0x00ff00ff00ff00ff,
	0xdeadbeefcafebabe,
}

// Wide is the wide alphabet without the members of Core: single bits, low-j
// masks and their complements, adjacent pairs.
var Wide = buildWide()

func buildWide() []uint64 {
	seen := map[uint64]bool{}
	for _, w := range Core {
		seen[w] = true
	}
	var out []uint64
	add := func(w uint64) {
		if !seen[w] {
			seen[w] = true
			out = append(out, w)
		}
	}
	for j := uint(0); j < 64; j++ {
		add(1 << j)
	}
	for j := uint(0); j <= 64; j++ {
		var m uint64
		if j == 64 {
			m = ^uint64(0)
		} else {
			m = 1<<j - 1
		}
		add(m)
		add(^m)
	}
	for j := uint(0); j < 63; j++ {
		add(3 << j)
	}
	return out
}

// LaneWord is byte value b in lane L (0 = least significant), the other seven
// lanes being 0x00 or 0xff according to the bits of bg (bit k describes the
// k-th of the other lanes in ascending lane order).
func LaneWord(b uint8, lane int, bg uint8) uint64 {
	var w uint64
	k := uint(0)
	for l := 0; l < 8; l++ {
		if l == lane {
			w |= uint64(b) << (8 * uint(l))
			continue
		}
		if bg>>k&1 == 1 {
			w |= 0xff << (8 * uint(l))
		}
		k++
	}
	return w
}

// PowInt returns b**e.
func PowInt(b, e int) int64 {
	r := int64(1)
	for i := 0; i < e; i++ {
		r *= int64(b)
	}
	return r
}

// SeqCount is the number of sequences of length 0..n over an alphabet of a symbols.
func SeqCount(a, n int) int64 {
	var s int64
	for l := 0; l <= n; l++ {
		s += PowInt(a, l)
	}
	return s
}

// Product enumerates all sequences of exactly length l over [0,a) in
// lexicographic order, calling f with a reused index slice.
func Product(a, l int, f func(ix []int)) {
	ix := make([]int, l)
	for {
		f(ix)
		k := l - 1
		for k >= 0 {
			ix[k]++
			if ix[k] < a {
				break
			}
			ix[k] = 0
			k--
		}
		if k < 0 {
			return
		}
	}
}

// Strings returns all strings of length 0..maxLen over the byte alphabet, shortest
// first, lexicographic by alphabet order within a length.
func Strings(alpha []byte, maxLen int) []string {
	out := []string{""}
	prev := []string{""}
	for l := 1; l <= maxLen; l++ {
		var cur []string
		for _, p := range prev {
			for _, b := range alpha {
				cur = append(cur, p+string([]byte{b}))
			}
		}
		out = append(out, cur...)
		prev = cur
	}
	return out
}

// AllBytes is the full byte alphabet.
func AllBytes() []byte {
	b := make([]byte, 256)
	for i := range b {
		b[i] = byte(i)
	}
	return b
}

// ThresholdSizes lists, in ascending order, every size n in [lo, hi] of the form
// b-1, b or b+1 with b a "round" number at which code is likely to switch
// strategy (chunking, parallel split, table growth): 2^k, 3·2^k, 10^k, 2·10^k,
// 5·10^k.
func ThresholdSizes(lo, hi int) []int {
	seen := map[int]bool{}
	var out []int
	add := func(b int) {
		for d := -1; d <= 1; d++ {
			if n := b + d; n >= lo && n <= hi && !seen[n] {
				seen[n] = true
				out = append(out, n)
			}
		}
	}
	for b := 1; b > 0 && b <= hi+1; b <<= 1 {
		add(b)
		add(3 * b)
	}
	for b := 1; b > 0 && b <= hi+1; b *= 10 {
		add(b)
		add(2 * b)
		add(5 * b)
	}
	sort.Ints(out)
	return out
}

// SizesAround returns, ascending and without duplicates, the sizes 2^p+d for
// p in [plo, phi] and d in ds, together with every ThresholdSizes value in
// [2^plo-1, 2^phi+1]: the size-like coordinate of the "big" families.
func SizesAround(plo, phi uint, ds []int) []int {
	seen := map[int]bool{}
	var out []int
	for p := plo; p <= phi; p++ {
		for _, d := range ds {
			if n := 1<<p + d; n > 0 && !seen[n] {
				seen[n] = true
				out = append(out, n)
			}
		}
	}
	for _, n := range ThresholdSizes(1<<plo-1, 1<<phi+1) {
		if !seen[n] {
			seen[n] = true
			out = append(out, n)
		}
	}
	sort.Ints(out)
	return out
}

// Dirty* return a copy of the argument with SPARE CAPACITY beyond its length that
// holds a canary pattern (0xC5 bytes). A slice a caller hands to the library may be
// a window into a larger buffer: what lies between len and cap is not the
// library's to read (it must behave as if it were not there) nor to write.
const DirtySpare = 12

func DirtyBytes(b []byte) []byte {
	r := make([]byte, len(b)+DirtySpare)
	copy(r, b)
	for i := len(b); i < len(r); i++ {
		r[i] = 0xC5
	}
	return r[:len(b)]
}

func DirtyU64(w []uint64, spare int) []uint64 {
	r := make([]uint64, len(w)+spare)
	copy(r, w)
	for i := len(w); i < len(r); i++ {
		r[i] = 0xC5C5C5C5C5C5C5C5
	}
	return r[:len(w)]
}

func DirtyI32(w []int32) []int32 {
	r := make([]int32, len(w)+DirtySpare)
	copy(r, w)
	for i := len(w); i < len(r); i++ {
		r[i] = -0x3a3a3a3b
	}
	return r[:len(w)]
}

// SpareIntactU64 tells whether the canaries behind w (as made by DirtyU64) are untouched.
func SpareIntactU64(w []uint64) bool {
	for _, x := range w[len(w):cap(w)] {
		if x != 0xC5C5C5C5C5C5C5C5 {
			return false
		}
	}
	return true
}

func SpareIntactBytes(b []byte) bool {
	for _, x := range b[len(b):cap(b)] {
		if x != 0xC5 {
			return false
		}
	}
	return true
}

// EmptyForms is the number of ways the checks hand over an EMPTY slice: "every bitmap, empty included" is
// a statement about the slice's CONTENT, so a nil slice, a non-nil slice of length 0, one with (dirty)
// spare capacity and one that is the empty tail of a longer array all have to give the empty answer.
const EmptyForms = 4

var emptyFormNames = [EmptyForms]string{"nil", "non-nil/len0/cap0", "len0/dirty-spare-capacity", "empty-tail-of-longer-array"}

// EmptyFormName names form f (for case descriptions).
func EmptyFormName(f int) string { return emptyFormNames[f] }

// EmptyU64 returns the empty []uint64 of form f.
func EmptyU64(f int) []uint64 {
	switch f {
	case 0:
		return nil
	case 1:
		return []uint64{}
	case 2:
		return DirtyU64(nil, 8)[:0]
	}
	x := DirtyU64([]uint64{^uint64(0), 1, 0x8000000000000000}, 0)
	return x[3:3]
}

// EmptyI32 returns the empty []int32 of form f.
func EmptyI32(f int) []int32 {
	switch f {
	case 0:
		return nil
	case 1:
		return []int32{}
	case 2:
		return DirtyI32(nil)[:0]
	}
	x := DirtyI32([]int32{7, 1, -1})[:3:3]
	return x[3:3]
}

// EmptyBytes returns the empty []byte of form f.
func EmptyBytes(f int) []byte {
	switch f {
	case 0:
		return nil
	case 1:
		return []byte{}
	case 2:
		return DirtyBytes(nil)[:0]
	}
	x := DirtyBytes([]byte{0xff, 1, 0x80})[:3:3]
	return x[3:3]
}

// EmptyStrings returns the empty []string of form f.
func EmptyStrings(f int) []string {
	switch f {
	case 0:
		return nil
	case 1:
		return []string{}
	case 2:
		return append(make([]string, 0, 8), "canary", "\xff")[:0]
	}
	x := []string{"a", "b", "c"}
	return x[3:3]
}
