#!/bin/bash
# check.sh <property-id> [quick|thorough]   run one check against /repo's working tree
# check.sh replay <file>                    re-execute one recorded case
# check.sh setup                            warm the build cache (MANIFEST.setup_cmd)
#
# Exit 0: property held on everything explored (or only known findings);
# exit 1: VIOLATION line printed; exit 2: internal error of the machinery.
set -u
# ROOT is where this script lives (normally /verif): a snapshot of the directory (vp run) runs its own harness
ROOT=$(cd "$(dirname "$(readlink -f "$0")")" && pwd)
H=$ROOT/harness
export GOFLAGS=-mod=mod GOPROXY=off GOSUMDB=off GOTOOLCHAIN=local
export GOCACHE=${GOCACHE:-/root/.cache/go-build}
WORK=$ROOT/.work
OUT=${VERIF_OUT:-$ROOT}
mkdir -p "$WORK" "$OUT/evidence" "$OUT/replays"

# VERIF_OVERLAY: optional extra `go build -overlay` file (self-test mutants)
OV=()
if [ -n "${VERIF_OVERLAY:-}" ]; then OV=(-overlay "$VERIF_OVERLAY"); fi

build() { # build <out> [extra go build args...]
  local out=$1; shift
  (cd "$H" && go build "${OV[@]}" "$@" -o "$out" ./cmd/vcheck) || { echo "check.sh: build failed" >&2; return 2; }
}

# C19 needs three binaries: plain, instrumented (overlay generated from the working
# tree by vinstr, tag verifsched) and -race. A failing instrumented build is not a
# failure of the check: it falls back to the footprint and race passes and says so.
C19_PKGS="bitmap bmtree bitstr bitword sigbits pbcmpl iohelper"
c19_builds() {
  local d=$1
  (cd "$H" && go build -o "$d/vinstr" ./cmd/vinstr) || { echo "check.sh: vinstr build failed" >&2; exit 2; }
  local base=()
  if [ -n "${VERIF_OVERLAY:-}" ]; then base=(-base "$VERIF_OVERLAY"); fi
  mkdir -p "$d/ov"
  if "$d/vinstr" -repo /repo -out "$d/ov" -rt "$H/schedrt/sched.go" "${base[@]}" $C19_PKGS >"$d/vinstr.log" 2>&1 \
     && (cd "$H" && go build -overlay "$d/ov/overlay.json" -tags verifsched -o "$d/vcheck.sched" ./cmd/vcheck) >"$d/sched-build.log" 2>&1; then
    export VERIF_SCHED_BIN="$d/vcheck.sched"
  else
    export VERIF_SCHED_ERR="$(tail -c 300 "$d/vinstr.log" "$d/sched-build.log" 2>/dev/null | tr '\n' ' ')"
    echo "check.sh: instrumented build unavailable, falling back to footprint + race passes" >&2
  fi
  if [ -z "${C19_NO_RACE:-}" ] && build "$d/vcheck.race" -race 2>"$d/race-build.log"; then
    export VERIF_RACE_BIN="$d/vcheck.race"
  fi
}

# Second build configuration for the input-enumeration checks: the same harness and the same
# working tree compiled for GOARCH=386 (32-bit int, uint, uintptr; the binary runs natively on
# this machine). vcheck runs the quick tier of the check once more with it (mc.word32Pass).
# A failing 386 build is not a failure of the check: the pass is skipped and the evidence says so.
W32_PROPS=" C01 C02 C03 C04 C05 C06 C07 C08 C09 C10 C11 C12 C13 C14 C15 C16 C17 C18 "
w32_build() { # w32_build <out>
  if (cd "$H" && GOARCH=386 CGO_ENABLED=0 go build "${OV[@]}" -o "$1" ./cmd/vcheck) 2>"$1.log"; then
    export VERIF_386_BIN="$1"
  else
    export VERIF_386_ERR="the GOARCH=386 build failed: $(tail -c 300 "$1.log" | tr '\n' ' ')"
    echo "check.sh: GOARCH=386 build unavailable, the 32-bit pass is skipped" >&2
  fi
}

# Third build configuration, for the checks anchored in bmtree (C03 has its own arrangement): the
# library's openacid/must contracts compiled in (-tags debug). Same fallback rule as above.
TAGDEBUG_PROPS=" C04 C05 C10 C11 "
tagdebug_build() { # tagdebug_build <out>
  if (cd "$H" && go build "${OV[@]}" -tags debug -o "$1" ./cmd/vcheck) 2>"$1.log"; then
    export VERIF_TAGDEBUG_BIN="$1"
  else
    export VERIF_TAGDEBUG_ERR="the -tags debug build failed: $(tail -c 300 "$1.log" | tr '\n' ' ')"
    echo "check.sh: -tags debug build unavailable, that pass is skipped" >&2
  fi
}

# Build configurations THE TREE ITSELF distinguishes (cmd/vconfigs): when a package a check is anchored in
# has a non-test file that the default build ignores because of a build constraint (a custom tag, a GOAMD64
# level, !cgo), the quick tier of the check is run once more as a binary of the smallest configuration that
# compiles that file in (mc: variant passes from VERIF_CFG_LIST). The unchanged tree has no such file.
cfg_pkgs() {
  local L=github.com/openacid/low
  case "$1" in
    C01|C02|C12|C13|C14|C15) echo $L/bitmap ;;
    C03|C04|C05|C10) echo $L/bmtree ;;
    C11) echo $L/bitmap $L/bmtree ;;
    C06|C07) echo $L/pbcmpl ;;
    C08) echo $L/bitword ;;
    C09) echo $L/bitstr ;;
    C16|C17) echo $L/sigbits ;;
    C18) echo $L/iohelper ;;
    C19) echo $L/bitmap $L/bmtree $L/bitstr $L/bitword $L/sigbits ;;
    C20) echo $L/size ;;
  esac
}
discover_cfgs() { # discover_cfgs <id> <dir>
  local id=$1 d=$2 skip="" list name env tags i=0 bin
  (cd "$H" && go build -o "$d/vconfigs" ./cmd/vconfigs) 2>/dev/null || return 0
  case "$TAGDEBUG_PROPS C03 " in *" $id "*) skip="tags-debug" ;; esac
  list=$(cd "$H" && "$d/vconfigs" ${VERIF_OVERLAY:+-overlay "$VERIF_OVERLAY"} -skip "$skip" $(cfg_pkgs "$id") 2>/dev/null)
  VERIF_CFG_LIST=""; VERIF_CFG_NOTES=""
  while IFS=$'\t' read -r name env tags; do
    case "$name" in
      "") continue ;;
      \#*) VERIF_CFG_NOTES+="${name#\# }; "; continue ;;
    esac
    i=$((i+1)); bin="$d/vcheck.cfg.$i"
    if (cd "$H" && env $env go build "${OV[@]}" ${tags:+-tags "$tags"} -o "$bin" ./cmd/vcheck) 2>"$bin.log"; then
      VERIF_CFG_LIST+="$name|$bin|$env|$tags;"
    else
      VERIF_CFG_NOTES+="the build of configuration $name failed: $(tail -c 200 "$bin.log" | tr '\n' ' '); "
    fi
  done <<< "$list"
  export VERIF_CFG_LIST VERIF_CFG_NOTES
}

cmd=${1:-}
case "$cmd" in
  setup)
    build "$WORK/vcheck.setup" || exit 2
    w32_build "$WORK/vcheck.setup.386"
    build "$WORK/vcheck.setup.debug" -tags debug || exit 2
    mkdir -p "$WORK/setup.c19"; c19_builds "$WORK/setup.c19"
    (cd "$H" && go build -o "$WORK/vcheck.setup.vconfigs" ./cmd/vconfigs)
    rm -rf "$WORK"/vcheck.setup* "$WORK/setup.c19"
    exit 0 ;;
  replay)
    if grep -q '"kind": "process"' "$2" 2>/dev/null; then
      # the replay of a died / non-terminating run is the run itself
      pid=$(python3 -c "import json,sys; d=json.load(open(sys.argv[1])); print(d['property'], d['tier'])" "$2")
      exec "$0" $pid
    fi
    bin="$WORK/vcheck.replay.$$"
    if grep -q '"goarch": "386"' "$2" 2>/dev/null; then
      # a case recorded by the 32-bit pass is replayed by a 32-bit binary
      w32_build "$bin"
      [ -n "${VERIF_386_BIN:-}" ] || { echo "check.sh: cannot build the GOARCH=386 binary" >&2; exit 2; }
      "$bin" -replay "$2"; rc=$?
      rm -rf "$bin" "$bin.log"; exit $rc
    fi
    if grep -q '"build_tags": "debug"' "$2" 2>/dev/null; then
      # a case recorded by the -tags debug pass is replayed by a binary built that way
      tagdebug_build "$bin"
      [ -n "${VERIF_TAGDEBUG_BIN:-}" ] || { echo "check.sh: cannot build the -tags debug binary" >&2; exit 2; }
      "$bin" -replay "$2"; rc=$?
      rm -rf "$bin" "$bin.log"; exit $rc
    fi
    if grep -q '"build_config"' "$2" 2>/dev/null; then
      # a case recorded by a pass in a discovered build configuration: same environment and tags
      cenv=$(python3 -c "import json,sys; print(json.load(open(sys.argv[1]))['build_config'].get('env',''))" "$2")
      ctags=$(python3 -c "import json,sys; print(json.load(open(sys.argv[1]))['build_config'].get('tags',''))" "$2")
      (cd "$H" && env $cenv go build "${OV[@]}" ${ctags:+-tags "$ctags"} -o "$bin" ./cmd/vcheck) || { echo "check.sh: cannot build that configuration" >&2; exit 2; }
      "$bin" -replay "$2"; rc=$?
      rm -rf "$bin"; exit $rc
    fi
    build "$bin" || exit 2
    if grep -q '"property": "C03"' "$2" 2>/dev/null; then
      build "$bin.debug" -tags debug || exit 2
      export VERIF_DEBUG_BIN="$bin.debug"
    fi
    if grep -q '"property": "C19"' "$2" 2>/dev/null; then
      mkdir -p "$bin.d"; c19_builds "$bin.d"
    fi
    if grep -q '"property": "C06"' "$2" 2>/dev/null && grep -q '"kind": "schedule"' "$2" 2>/dev/null; then
      mkdir -p "$bin.d"; C19_NO_RACE=1 c19_builds "$bin.d"
    fi
    "$bin" -replay "$2"; rc=$?
    rm -rf "$bin" "$bin.debug" "$bin.d"; exit $rc ;;
  "") echo "usage: check.sh <id> [quick|thorough] | replay <file> | setup" >&2; exit 2 ;;
esac

id=$cmd
tier=${2:-${VERIF_TIER:-quick}}
D="$WORK/$id.$$"
mkdir -p "$D"
trap 'rm -rf "$D"' EXIT
build "$D/vcheck" || exit 2
case "$W32_PROPS" in *" $id "*) w32_build "$D/vcheck.386" ;; esac
case "$TAGDEBUG_PROPS" in *" $id "*) tagdebug_build "$D/vcheck.tagdebug" ;; esac
discover_cfgs "$id" "$D"
case "$id" in
  C19)
    c19_builds "$D" ;;
  C06)
    # the scheduled part of C06 runs in the instrumented binary (no -race pass here)
    C19_NO_RACE=1 c19_builds "$D" ;;
  C03)
    # second configuration: the same harness with the openacid/must contracts compiled in
    build "$D/vcheck.debug" -tags debug || exit 2
    export VERIF_DEBUG_BIN="$D/vcheck.debug" ;;
esac

# address-space cap: a runaway allocation must kill the check process, not the sandbox
ulimit -v $((48*1024*1024)) 2>/dev/null

# Hard deadline. On the unchanged tree a quick run takes well under a minute and a thorough run
# under 15 minutes; the deadline is 20-40 times that. A run that does not end by then, or a
# process killed by a FATAL runtime error inside the code under test (stack overflow from
# unbounded recursion, out of memory) - neither can be recovered like a panic - means the library
# did not return a result for some input of the enumeration: that is reported as a violation
# whose replay is the run itself. Internal errors of the harness (exit 2) stay exit 2.
limit=1200; [ "$tier" = thorough ] && limit=14400
limit=${VERIF_LIMIT:-$limit}
timeout -k 10 "$limit" "$D/vcheck" -prop "$id" -tier "$tier" -root "$ROOT" -out "$OUT" 2>"$D/stderr"
rc=$?
cat "$D/stderr" >&2
reason=""
if [ $rc -eq 124 ] || [ $rc -eq 137 ]; then
  reason="the check did not finish within ${limit}s (the library did not return for some input: non-terminating loop?)"
elif [ $rc -ne 0 ] && [ $rc -ne 1 ] && grep -qE "^fatal error: (stack overflow|runtime: out of memory)|goroutine stack exceeds" "$D/stderr" \
     && ! grep -qE "harness:|^panic: mc:" "$D/stderr"; then
  reason="the check process died with a fatal runtime error inside the code under test: $(grep -m1 -E '^fatal error|goroutine stack exceeds' "$D/stderr")"
fi
if [ -n "$reason" ]; then
  rp="$OUT/replays/$id-process-$tier.json"
  python3 - "$rp" "$id" "$tier" "$reason" "$D/stderr" <<'PY'
import json, sys
rp, pid, tier, reason, errf = sys.argv[1:6]
tail = open(errf, errors='replace').read()[-3000:]
json.dump({"property": pid, "kind": "process", "class": "process", "tier": tier,
           "case": {"command": "/verif/check.sh %s %s" % (pid, tier)},
           "got": reason, "want": "the check runs to completion",
           "stderr_tail": tail,
           "how_to_replay": ["/verif/check.sh replay " + rp + "   (re-runs the whole check)"]}, open(rp, "w"), indent=1)
PY
  echo "VIOLATION property=$id replay=$rp"
  echo "  $reason"
  exit 1
fi
exit $rc
